------------------------------- MODULE AttrMap -------------------------------
(***************************************************************************)
(* xcm_attr_map as a mathematical finite map (property C19).               *)
(*                                                                         *)
(* Two maps "a" and "b".  A map is a total function from the key universe  *)
(* to a value record [t, v, n] (type, value token, length in bytes) or     *)
(* Absent; the finite map is the restriction to the keys that are not      *)
(* Absent.  "a" always exists; "b" is created empty (xcm_attr_map_create)  *)
(* or as a clone of "a" and may be destroyed again.                        *)
(*                                                                         *)
(* One action per modifying API call: Add (xcm_attr_map_add and the typed  *)
(* adders), Del, Create, Clone, AddAll, Destroy.  The reading calls (get,  *)
(* typed get, exists, size, equal, foreach) are functions of the state;    *)
(* harness/maps_exec evaluates all of them on the real maps after every    *)
(* operation and spec/AttrMapTrace.tla compares.                           *)
(*                                                                         *)
(* The state-only parts of the actions (DoAdd, DoDel, ...) are reused by   *)
(* the trace specification; the bounded model adds the ghost path, which is*)
(* hidden by the VIEW and printed as a replay path ("@P" lines).           *)
(***************************************************************************)
EXTENDS Integers, Sequences, FiniteSets, TLC, Json

CONSTANTS Keys,       \* key ids of the bounded model, e.g. {"k1", "k2", "k3"}
          ValSet,     \* "small" | "large": value tokens used by the bounded model
          MaxOps,     \* operations per behaviour (depth bound)
          EmitPaths   \* "none" | "state" (one replay path per distinct state) | "transition"

VARIABLES maps,       \* maps[m][k]: value record or Absent
          up,         \* up[m]: the map exists
          path        \* ghost: replay path

vars == <<maps, up, path>>
view == <<maps, up>>

M == {"a", "b"}
Other(m) == IF m = "a" THEN "b" ELSE "a"

\* ---- values ---------------------------------------------------------------
TypeSet == {"bool", "int64", "double", "str", "bin"}
TypeBit(t) == CASE t = "bool" -> 1 [] t = "int64" -> 2 [] t = "double" -> 4
                [] t = "str" -> 8 [] t = "bin" -> 16 [] OTHER -> 0

Absent == [t |-> "", v |-> "", n |-> -1]
Val(t, v, n) == [t |-> t, v |-> v, n |-> n]

\* Value tokens; harness/maps_exec turns a token into bytes:
\*   b:0|1  bool      i:<decimal>  int64     d:<16 hex digits> double (bit pattern)
\*   s:<len>:<seed>   string of len pseudo-random non-NUL bytes (+ NUL)
\*   x:<len>:<seed>   binary of len pseudo-random bytes     z:<len>  len zero bytes
\* The small set is chosen so that values of different type (and length) share
\* their bytes: bool false, the empty string and a one-byte binary are all 00;
\* int64 0, double 0.0 and an 8-byte binary are all eight zero bytes; and so that
\* two values of one type and length differ in their bytes only (the booleans).
SmallVals ==
  { Val("bool", "b:0", 1), Val("bool", "b:1", 1), Val("int64", "i:0", 8), Val("double", "d:0000000000000000", 8),
    Val("str", "s:0:0", 1), Val("str", "s:3:1", 4),
    Val("bin", "x:0:0", 0), Val("bin", "z:1", 1), Val("bin", "x:5000:2", 5000) }
LargeVals == SmallVals \cup
  { Val("int64", "i:-1", 8), Val("int64", "i:-9223372036854775808", 8),
    Val("double", "d:7ff8000000000000", 8), Val("double", "d:8000000000000000", 8),
    Val("str", "s:40:3", 41), Val("bin", "z:8", 8), Val("bin", "x:1:1", 1), Val("bin", "x:4096:5", 4096) }
Values == IF ValSet = "small" THEN SmallVals ELSE LargeVals

\* ---- the finite map and its observations -----------------------------------
AllAbsent(U) == [k \in U |-> Absent]
AddF(f, k, val) == [f EXCEPT ![k] = val]
DelF(f, k) == [f EXCEPT ![k] = Absent]
AddAllF(d, s) == [k \in DOMAIN d |-> IF s[k] # Absent THEN s[k] ELSE d[k]]

Domain(f) == {k \in DOMAIN f : f[k] # Absent}
Size(f) == Cardinality(Domain(f))
Exists(f, k) == f[k] # Absent
Get(f, k) == f[k]                                        \* Absent stands for NULL
GetTyped(f, k, t) == IF f[k].t = t THEN f[k] ELSE Absent \* NULL on a type mismatch
Foreach(f) == {<<k, f[k].t, f[k].v, f[k].n>> : k \in Domain(f)}   \* a set: order is not specified
Equal(f, g) == Foreach(f) = Foreach(g)
\* which typed getters answer non-NULL, as a bit mask
RECURSIVE SumBits(_)
SumBits(S) == IF S = {} THEN 0 ELSE LET t == CHOOSE x \in S : TRUE IN TypeBit(t) + SumBits(S \ {t})
TypedMask(f, k) == SumBits({t \in TypeSet : GetTyped(f, k, t) # Absent})

\* ---- actions (state only; shared with AttrMapTrace) --------------------------
DoAdd(m, k, val) == /\ up[m]
                    /\ maps' = [maps EXCEPT ![m] = AddF(@, k, val)]
                    /\ UNCHANGED up
DoDel(m, k) == /\ up[m]
               /\ maps' = [maps EXCEPT ![m] = DelF(@, k)]
               /\ UNCHANGED up
DoCreate == /\ ~up["b"]
            /\ maps' = [maps EXCEPT !["b"] = AllAbsent(DOMAIN @)]
            /\ up' = [up EXCEPT !["b"] = TRUE]
DoClone == /\ up["a"] /\ ~up["b"]
           /\ maps' = [maps EXCEPT !["b"] = maps["a"]]
           /\ up' = [up EXCEPT !["b"] = TRUE]
DoAddAll(d, s) == /\ up[d] /\ up[s]
                  /\ maps' = [maps EXCEPT ![d] = AddAllF(@, maps[s])]
                  /\ UNCHANGED up
DoDestroy == /\ up["b"]
             /\ maps' = [maps EXCEPT !["b"] = AllAbsent(DOMAIN @)]
             /\ up' = [up EXCEPT !["b"] = FALSE]

\* ---- the bounded model --------------------------------------------------------
Init == /\ maps = [m \in M |-> AllAbsent(Keys)]
        /\ up = [m \in M |-> m = "a"]
        /\ path = <<>>

Add(m, k, val) == DoAdd(m, k, val) /\ path' = Append(path, <<"add", m, k, val.t, val.v, val.n>>)
Del(m, k) == DoDel(m, k) /\ path' = Append(path, <<"del", m, k>>)
Create == DoCreate /\ path' = Append(path, <<"create">>)
Clone == DoClone /\ path' = Append(path, <<"clone">>)
AddAll(d, s) == DoAddAll(d, s) /\ path' = Append(path, <<"addall", d, s>>)
Destroy == DoDestroy /\ path' = Append(path, <<"destroy">>)

Next == /\ Len(path) < MaxOps
        /\ \/ \E m \in M, k \in Keys, val \in Values : Add(m, k, val)
           \/ \E m \in M, k \in Keys : Del(m, k)
           \/ Create
           \/ Clone
           \/ \E d \in M, s \in M : AddAll(d, s)
           \/ Destroy

Spec == Init /\ [][Next]_vars

\* ---- laws of the specification itself ------------------------------------------
A == maps["a"]
B == maps["b"]

TypeOK == /\ \A m \in M : \A k \in Keys : maps[m][k] = Absent \/ maps[m][k] \in LargeVals
          /\ up["a"]
          /\ \A m \in M : ~up[m] => Domain(maps[m]) = {}

LawSize == \A m \in M : /\ Size(maps[m]) = Cardinality(Foreach(maps[m]))
                        /\ Size(maps[m]) = Cardinality({k \in Keys : Exists(maps[m], k)})
                        /\ Size(maps[m]) <= Cardinality(Keys)

LawEqual == /\ Equal(A, A) /\ Equal(B, B)
            /\ Equal(A, B) = Equal(B, A)
            /\ Equal(A, B) <=> (\A k \in Keys : Get(A, k) = Get(B, k))
            /\ Equal(A, B) => Size(A) = Size(B)

LawTyped == \A m \in M, k \in Keys :
              LET f == maps[m] IN
              /\ Exists(f, k) <=> (\E t \in TypeSet : GetTyped(f, k, t) # Absent)
              /\ Exists(f, k) <=> Get(f, k) # Absent
              /\ \A t \in TypeSet : GetTyped(f, k, t) # Absent => (GetTyped(f, k, t) = Get(f, k) /\ Get(f, k).t = t)
              /\ Cardinality({t \in TypeSet : GetTyped(f, k, t) # Absent}) <= 1
              /\ TypedMask(f, k) = (IF Exists(f, k) THEN TypeBit(f[k].t) ELSE 0)

\* algebra of add / del / add_all over ALL finite maps on Keys (not only the reachable ones; evaluated
\* once, in the initial state): adding replaces, additions to different keys commute (the result does
\* not depend on insertion order), add_all is idempotent and right-biased, ...
LawVals == {v \in Values : v.v \in {"b:0", "s:0:0", "z:1"}}   \* same bytes, different type / kind
AllMaps == [Keys -> Values \cup {Absent}]
SomeMaps == [Keys -> LawVals \cup {Absent}]
LawAlgebra ==
  (path = <<>>) =>
  \A f \in AllMaps :
    /\ \A k \in Keys, v1 \in LawVals, v2 \in LawVals :
         /\ AddF(AddF(f, k, v1), k, v2) = AddF(f, k, v2)
         /\ Get(AddF(f, k, v1), k) = v1
         /\ DelF(AddF(f, k, v1), k) = DelF(f, k)
         /\ Size(AddF(f, k, v1)) = Size(f) + (IF Exists(f, k) THEN 0 ELSE 1)
         /\ Size(DelF(f, k)) = Size(f) - (IF Exists(f, k) THEN 1 ELSE 0)
         /\ (v1 # v2) => ~Equal(AddF(f, k, v1), AddF(f, k, v2))
         /\ \A k2 \in Keys \ {k} :
              /\ AddF(AddF(f, k, v1), k2, v2) = AddF(AddF(f, k2, v2), k, v1)
              /\ Get(AddF(f, k, v1), k2) = Get(f, k2)
              /\ Get(DelF(f, k), k2) = Get(f, k2)
    /\ AddAllF(f, f) = f
    /\ AddAllF(f, AllAbsent(Keys)) = f
    /\ AddAllF(AllAbsent(Keys), f) = f
    /\ Equal(f, f)
    /\ \A g \in SomeMaps :
         /\ AddAllF(AddAllF(f, g), g) = AddAllF(f, g)
         /\ \A k \in Keys : Get(AddAllF(f, g), k) = (IF Exists(g, k) THEN Get(g, k) ELSE Get(f, k))
         /\ Domain(AddAllF(f, g)) = Domain(f) \cup Domain(g)
         /\ Equal(f, g) = Equal(g, f)
         /\ Equal(f, g) <=> (f = g)
         /\ Equal(AddAllF(f, g), AddAllF(g, AddAllF(f, g)))

\* step laws: what one operation may change (clone independence, source of add_all untouched, ...)
StepLaw ==
  LET st == path'[Len(path')]
      op == st[1]
  IN
  /\ op = "add" => LET m == st[2]  k == st[3] IN
        /\ Get(maps'[m], k) = Val(st[4], st[5], st[6])
        /\ \A j \in Keys \ {k} : maps'[m][j] = maps[m][j]
        /\ maps'[Other(m)] = maps[Other(m)]
  /\ op = "del" => LET m == st[2]  k == st[3] IN
        /\ ~Exists(maps'[m], k)
        /\ \A j \in Keys \ {k} : maps'[m][j] = maps[m][j]
        /\ maps'[Other(m)] = maps[Other(m)]
  /\ op = "clone" => (Equal(maps'["a"], maps'["b"]) /\ maps'["a"] = maps["a"])
  /\ op = "create" => (Size(maps'["b"]) = 0 /\ maps'["a"] = maps["a"])
  /\ op = "addall" => LET d == st[2]  s == st[3] IN
        /\ (d # s) => maps'[s] = maps[s]
        /\ (d = s) => maps' = maps
        /\ \A k \in Keys : Exists(maps[s], k) => Get(maps'[d], k) = Get(maps[s], k)
        /\ Size(maps'[d]) >= Size(maps[d])
  /\ op = "destroy" => maps'["a"] = maps["a"]
StepLaws == [][StepLaw]_vars

\* ---- replay path emission ----------------------------------------------------------
Emit == EmitPaths = "transition" => PrintT(<<"@P", ToJson(path')>>)
EmitState == EmitPaths = "state" => PrintT(<<"@P", ToJson(path)>>)
=============================================================================
