SPECIFICATION TSpec
CONSTANTS
  MsgMax = 3
  Lens = {}
  Chunks = {}
  MaxOps = 0
  EmitPaths = "none"
  Broken = "none"
POSTCONDITION Accepted
CHECK_DEADLOCK FALSE
