------------------------------ MODULE AttrTrace ------------------------------
(***************************************************************************)
(* Trace specification for C10 / C11: validates what harness/attr_exec      *)
(* recorded on the real library against Attr.  Monitor style: one line per   *)
(* step, the expected outcome is computed from Attr, every mismatch printed  *)
(*      "@V [<id>, <sub>, <tag>, <expected>, <observed>]"                     *)
(* Tags "C10.*" / "C11.*" are violations of the property statements,         *)
(* "NOTE.*" are details the statements do not settle (never a verdict),      *)
(* "INTERNAL" is trouble of the machinery (an attribute the table does not   *)
(* know, a line that cannot be interpreted).                                 *)
(*                                                                         *)
(* Vector files (op ls | g | s | crash) and path files (op p | inc | crash)  *)
(* are separate traces.                                                      *)
(***************************************************************************)
EXTENDS Attr, Json, IOUtils

TraceLog == ndJsonDeserialize(IOEnv.TRACE)
NL == Len(TraceLog)

VARIABLES l, nv, cnt, lst
tvars == <<l, nv, cnt, lst>>

Cnt0 == [ls |-> 0, g |-> 0, s |-> 0, crash |-> 0, gok |-> 0, govf |-> 0, gtype |-> 0, gnone |-> 0, sok |-> 0, srej |-> 0,
         fresh |-> 0, p |-> 0, paths |-> 0, inc |-> 0, pset |-> 0, pest |-> 0, pacc |-> 0, pkern |-> 0]
Init == l = 1 /\ nv = 0 /\ cnt = Cnt0 /\ lst = St0("tcp")

Chk(c, n, t, x, o) == [c |-> c, n |-> n, t |-> t, x |-> x, o |-> o]
Failed(cs) == SelectSeq(cs, LAMBDA r : ~r.c)
Report(id, cs) ==
  LET f == Failed(cs) IN
  IF f = <<>> THEN TRUE
  ELSE \A i \in 1..Len(f) : PrintT("@V " \o ToJson(<<id, f[i].n, f[i].t, f[i].x, f[i].o>>))

SeqToSet(s) == {s[i] : i \in 1..Len(s)}
NonVolatile(names) == {n \in SeqToSet(names) : n \notin Names \/ ~Table[n].vol}

\* ============================== vectors ========================================
\* the attributes a socket really has must all be in the table, with the table's type
LsChecks(ln) ==
  LET bad == {i \in 1..Len(ln.names) :
                LET n == ln.names[i][1] IN
                ~(n \in Names /\ Present(ln.kind, ln.tp, ln.life, n) /\ Table[n].t = ln.names[i][2])}
      missing == {n \in Names : Present(ln.kind, ln.tp, ln.life, n) /\ Avail(ln.kind, ln.tp, ln.life, n) = "yes"
                                /\ \A i \in 1..Len(ln.names) : ln.names[i][1] # n}
  IN <<Chk(bad = {}, 1, "INTERNAL", "unmodelled attribute", {ln.names[i] : i \in bad}),
       Chk(missing = {}, 2, "NOTE.avail", "listed", missing)>>

GetChecks(ln) ==
  LET syn == Syn(ln.nb)
      named == ln.tn # ""
      inTable == ln.tn \in Names
      present == inTable /\ Present(ln.kind, ln.tp, ln.life, ln.tn)
      n == ln.r0[1]
      e0 == ln.r0[2]
      t == ln.r0[3]
      hasval == n >= 0
      at == AccType(ln.acc)
      mem == <<Chk(ln.pre = 0 /\ ln.wr <= ln.cap, 1, "C10.overrun", <<"capacity", ln.cap>>, <<"written", ln.wr, "before", ln.pre, "ret", ln.ret>>),
               Chk(ln.wr > ln.cap \/ ln.ret < 0 \/ ln.wr = ln.ret, 2, "C10.rc_len", <<"written", ln.wr>>, <<"ret", ln.ret>>),
               Chk(ln.rb = <<ln.ret, ln.err>>, 3, "NOTE.unstable", <<ln.ret, ln.err>>, ln.rb),
               Chk(ln.a2[1] = -9 \/ ln.a2 = <<ln.ret, ln.err>>, 4, "NOTE.unstable", <<ln.ret, ln.err>>, ln.a2)>>
  IN
  mem \o
  (IF hasval THEN
     LET e == ExpectGet(t, n, ln.acc, ln.cap)
         avail == IF present THEN Avail(ln.kind, ln.tp, ln.life, ln.tn) ELSE "no"
     IN <<\* something outside the table (or outside this socket's part of it) has a value
          Chk(present \/ (named /\ ln.tn \in Interior), 10, IF syn = "free" THEN "NOTE.lenient_name" ELSE "INTERNAL", "unmodelled attribute", <<ln.tn, ln.nb>>),
          Chk(~present \/ t = Table[ln.tn].t, 11, "C10.type", IF present THEN Table[ln.tn].t ELSE 0, t),
          Chk(FixedSize(t) = 0 \/ n = FixedSize(t), 12, "C10.rc_len", FixedSize(t), n),
          Chk(avail # "no", 13, "NOTE.avail", "no value", n),
          \* the outcome
          Chk(e.ret # -1 \/ ln.ret = -1, 20, "C10.errno", <<-1, e.errs>>, <<ln.ret, "size", n, "capacity", ln.cap>>),
          Chk(e.ret = -1 \/ ln.ret = e.ret, 21, "C10.errno", <<"ret", e.ret>>, <<ln.ret, ln.err>>),
          Chk(~(e.ret = -1 /\ ln.ret = -1) \/ ln.err \in e.errs, 22, "C10.errno", e.errs, ln.err),
          Chk(~(e.ret = -1 /\ ln.ret = -1 /\ ln.err \in e.errs) \/ ln.err = e.first, 23, "NOTE.errno", e.first, ln.err),
          Chk(~(e.ret = -1 /\ ln.ret = -1) \/ ln.wr = 0, 24, "NOTE.wrote_on_failure", 0, ln.wr),
          Chk(ln.acc \notin {"gen", "fgen"} \/ ln.ret < 0 \/ ln.rty = t, 25, "C10.type", t, ln.rty),
          Chk(~(ln.ret > 0 /\ t = TStr) \/ ln.nul = ln.ret - 1, 26, "C10.rc_len", <<"NUL at", ln.ret - 1>>, ln.nul),
          Chk(~(ln.ret = 0 /\ t = TStr), 27, "NOTE.str_zero", "a string has at least its NUL", 0),
          Chk(ln.ret < 0 \/ (present /\ Table[ln.tn].vol) \/ ln.same = 1, 28, "C10.value", "the same value as the reference read", ln.same)>>
   ELSE
     <<Chk(ln.ret = -1, 30, "C10.errno", <<-1, e0>>, <<ln.ret, "capacity", ln.cap>>),
       Chk(ln.ret # -1 \/ ln.err = e0 \/ (at # 0 /\ ln.err = ENOENT) \/ (ln.cap = 0 /\ ln.err \in {EOVERFLOW, ENOENT}), 31, "NOTE.errno", e0, ln.err),
       Chk(syn # "invalid" \/ e0 = EINVAL, 32, "NOTE.errno", EINVAL, e0),
       Chk(~(syn = "valid" /\ ~present /\ ~(named /\ ln.tn \in Interior)) \/ e0 = ENOENT, 33, "NOTE.errno", ENOENT, e0),
       Chk(~(present /\ Avail(ln.kind, ln.tp, ln.life, ln.tn) = "yes" /\ ~IsListElem(ln.tn)), 34, "NOTE.avail", "a value", e0)>>)

SetChecks(ln) ==
  LET syn == Syn(ln.nb)
      n == ln.tn
      fresh == ln.life = "fresh"
      es == SetErrnos(ln.kind, ln.tp, ln.life, n, syn, ln.ty, ln.lc, ln.vc)
      first == SetFirst(ln.kind, ln.tp, ln.life, n, syn, ln.ty, ln.lc, ln.vc)
      c11 == SetTag(ln.kind, ln.tp, ln.life, n) = "C11" /\ EACCES \in es
      chg == NonVolatile(ln.chg)
      demand == IF fresh /\ n \in Names /\ ln.ty = Table[n].t /\ ln.lc = "ok" THEN FreshDemand(ln.kind, ln.tp, n, ln.vc) ELSE "none"
      mustfail == es # {} \/ demand = "bad"
      mustwork == es = {} /\ (~fresh \/ demand = "good")
  IN
  <<Chk(ln.ret \in {0, -1}, 1, "INTERNAL", "0 or -1", ln.ret),
    Chk(~mustfail \/ ln.ret = -1, 2, IF c11 THEN "C11.eacces" ELSE "C10.accepts", <<-1, es>>, <<ln.ret, "changed", ln.chg>>),
    Chk(~(mustfail /\ ln.ret = -1 /\ ~fresh /\ es # {}) \/ ln.err \in es, 3, IF c11 THEN "C11.eacces" ELSE "C10.errno", es, ln.err),
    Chk(~(mustfail /\ ln.ret = -1 /\ ~fresh /\ ln.err \in es /\ syn # "free") \/ ln.err = first, 4, "NOTE.errno", first, ln.err),
    Chk(~(mustfail /\ fresh /\ ln.ret = -1 /\ es # {}) \/ ln.err \in es, 5, "NOTE.errno", es, ln.err),
    Chk(~(ln.ret = -1 /\ ~fresh) \/ (chg = {} /\ ln.kchg = 0), 6, IF c11 THEN "C11.eacces" ELSE "C10.side_effect", "nothing changes", <<ln.chg, "kernel options", ln.kchg>>),
    Chk(~mustwork \/ ln.ret = 0, 7, "NOTE.refused", 0, <<ln.ret, ln.err>>),
    Chk(~(ln.ret = 0 /\ ~mustfail /\ n \in Names /\ GasDemanded(n)) \/ ln.gas = 1, 8, "C11.get_after_set", "reads back as written", ln.gas),
    Chk(~(ln.ret = 0 /\ ~fresh) \/ chg \subseteq Coupled(n), 9, "C10.side_effect", Coupled(n), ln.chg)>>

VecCount(ln) ==
  CASE ln.op = "ls" -> [cnt EXCEPT !.ls = @ + 1]
    [] ln.op = "g" -> LET n == ln.r0[1] t == ln.r0[3] at == AccType(ln.acc) IN
                      [cnt EXCEPT !.g = @ + 1,
                                  !.gnone = @ + (IF n < 0 THEN 1 ELSE 0),
                                  !.gtype = @ + (IF n >= 0 /\ at # 0 /\ at # t THEN 1 ELSE 0),
                                  !.govf = @ + (IF n >= 0 /\ (at = 0 \/ at = t) /\ ln.cap < n THEN 1 ELSE 0),
                                  !.gok = @ + (IF n >= 0 /\ (at = 0 \/ at = t) /\ ln.cap >= n THEN 1 ELSE 0)]
    [] ln.op = "s" -> [cnt EXCEPT !.s = @ + 1, !.sok = @ + (IF ln.ret = 0 THEN 1 ELSE 0), !.srej = @ + (IF ln.ret = -1 THEN 1 ELSE 0),
                                  !.fresh = @ + (IF ln.life = "fresh" THEN 1 ELSE 0)]
    [] ln.op = "crash" -> [cnt EXCEPT !.crash = @ + 1]
    [] OTHER -> cnt

\* ============================== paths ==========================================
Tag4(c, a, b) == IF c THEN a ELSE b
\* observations of the subject against a model state
ObsChecks(ln, s, tagv, tagk) ==
  <<Chk(~IsTcp(s.tp) \/ ln.g = s.want, 10, tagv, s.want, ln.g),
    Chk(~HasFd(s) \/ ln.k = s.kern, 11, tagk, s.kern, ln.k),
    Chk(ln.blk = s.blk /\ ln.isb = s.blk, 12, "C11.blocking", s.blk, <<ln.blk, ln.isb>>),
    Chk(~(HasFd(s) /\ s.role = "conn" /\ s.src # 0) \/ (ln.src = s.src /\ ln.psrc \in {-1, s.src}), 13, "C11.source_addr", s.src, <<ln.src, ln.psrc>>),
    Chk(~IsTls(s.tp) \/ ln.tls = s.tls, 14, tagv, s.tls, ln.tls)>>

\* which clause a wrongly accepted map entry belongs to
MapTag(m) == IF InMap(m, "xcm.service") THEN "C11.service"
             ELSE IF InMap(m, "xcm.local_addr") THEN "C11.eacces" ELSE "C10.accepts"

PathStep(ln) ==
  LET s0 == IF ln.n = 0 THEN St0(ln.tp) ELSE lst
      v == IF Len(ln.a) > 0 THEN ln.a[1] ELSE 0
  IN
  CASE ln.act = "conn" ->
         LET r == StepConnect(s0, v = 1, ln.m) IN
         [st |-> r.st,
          cs |-> <<Chk(r.ok \/ ln.ret = -1, 1, MapTag(ln.m), "refused", <<ln.ret, ln.m>>),
                   Chk(~r.ok \/ ln.ret = 0, 2, "NOTE.refused", "created", <<ln.ret, ln.err, ln.m>>)>>
                 \o (IF r.ok /\ ln.ret = 0 THEN ObsChecks(ln, r.st, "C11.get_after_set", "C11.in_force") ELSE <<>>)]
    [] ln.act = "srv" ->
         LET r == StepServer(s0, ln.m) IN
         [st |-> r.st,
          cs |-> <<Chk(r.ok \/ ln.ret = -1, 1, MapTag(ln.m), "refused", <<ln.ret, ln.m>>),
                   Chk(~r.ok \/ ln.ret = 0, 2, "NOTE.refused", "created", <<ln.ret, ln.err, ln.m>>),
                   Chk(~(r.ok /\ ln.ret = 0 /\ IsTls(s0.tp)) \/ ln.stls = r.st.srv.tls, 3, "C11.get_after_set", r.st.srv.tls, ln.stls),
                   Chk(~(r.ok /\ ln.ret = 0) \/ ln.sblk = r.st.srv.blk, 4, "C11.blocking", r.st.srv.blk, ln.sblk)>>]
    [] ln.act = "sset" ->
         [st |-> s0,
          cs |-> <<Chk(ln.ret = -1 /\ ln.err = EACCES, 1, "C11.eacces", <<-1, EACCES>>, <<ln.ret, ln.err, ln.an>>),
                   Chk(NonVolatile(ln.chg) = {}, 2, "C11.eacces", "nothing changes", ln.chg),
                   Chk(~IsTls(s0.tp) \/ ln.stls = s0.srv.tls, 3, "C11.eacces", s0.srv.tls, ln.stls)>>]
    [] ln.act = "acc" ->
         LET r == StepAccept(s0, ln.m) IN
         [st |-> IF r.ok THEN r.st ELSE [s0 EXCEPT !.ph = "dead"],
          cs |-> <<Chk(r.ok \/ ln.ret = -1, 1, MapTag(ln.m), "refused", <<ln.ret, ln.m>>),
                   Chk(~r.ok \/ ln.ret = 0, 2, "NOTE.refused", "accepted", <<ln.ret, ln.err, ln.m>>)>>
                 \o (IF r.ok /\ ln.ret = 0
                     THEN ObsChecks(ln, r.st, "C11.inherit", "C11.in_force")
                          \o <<Chk(~IsTls(s0.tp) \/ ln.nm = r.st.names, 20, "C11.inherit", r.st.names, ln.nm)>>
                     ELSE <<>>)]
    [] ln.act = "set" ->
         IF ln.an = "xcm.blocking"
         THEN LET s1 == StepSetBlocking(s0, v) IN
              [st |-> s1, cs |-> <<Chk(ln.ret = 0, 1, "NOTE.refused", 0, <<ln.ret, ln.err>>)>> \o ObsChecks(ln, s1, "C11.get_after_set", "C11.in_force")]
         ELSE LET r == StepSetTcp(s0, TcpIdx(ln.an), v) IN
              [st |-> r.st,
               cs |-> <<Chk(r.ret = 0 \/ ln.ret = -1, 1, "C10.accepts", <<-1, r.errs>>, <<ln.ret, ln.an, v>>),
                        Chk(~(r.ret = -1 /\ ln.ret = -1) \/ ln.err \in r.errs, 2, "C10.errno", r.errs, ln.err),
                        Chk(r.ret = -1 \/ ln.ret = 0, 3, "NOTE.refused", 0, <<ln.ret, ln.err, ln.an, v>>),
                        Chk(~(ln.ret = -1) \/ NonVolatile(ln.chg) = {}, 4, "C10.side_effect", "nothing changes", ln.chg)>>
                      \* after a refused write every difference is a side effect of the refusal (C10)
                      \o (IF ln.ret = r.ret
                          THEN ObsChecks(ln, r.st, IF r.ret = -1 THEN "C10.side_effect" ELSE "C11.get_after_set",
                                         IF r.ret = -1 THEN "C10.side_effect" ELSE "C11.in_force")
                          ELSE <<>>)]
    [] ln.act = "sblk" ->
         LET s1 == StepSetBlocking(s0, v) IN
         [st |-> s1, cs |-> <<Chk(ln.ret = 0, 1, "NOTE.refused", 0, <<ln.ret, ln.err>>)>> \o ObsChecks(ln, s1, "C11.get_after_set", "C11.in_force")]
    [] ln.act = "setco" ->
         [st |-> s0,
          cs |-> <<Chk(ln.ret = -1 /\ ln.err = EACCES, 1, "C11.eacces", <<-1, EACCES>>, <<ln.ret, ln.err, ln.an>>),
                   Chk(NonVolatile(ln.chg) = {}, 2, "C11.eacces", "nothing changes", ln.chg)>>
                 \o ObsChecks(ln, s0, "C11.eacces", "C11.eacces")]
    [] ln.act = "est" ->
         LET s1 == StepEstablish(s0) IN
         [st |-> s1, cs |-> ObsChecks(ln, s1, "C11.get_after_set", "C11.in_force")]
    [] ln.act = "pcl" ->
         LET s1 == StepPeerClose(s0) IN
         [st |-> s1, cs |-> ObsChecks(ln, s1, "C11.get_after_set", "C11.in_force")]
    [] OTHER -> [st |-> s0, cs |-> <<Chk(FALSE, 0, "INTERNAL", "known action", ln.act)>>]

PathCount(ln) ==
  CASE ln.op = "p" -> [cnt EXCEPT !.p = @ + 1, !.paths = @ + (IF ln.n = 0 THEN 1 ELSE 0),
                                  !.pset = @ + (IF ln.act \in {"set", "sset", "setco", "sblk"} THEN 1 ELSE 0),
                                  !.pest = @ + (IF ln.act = "est" THEN 1 ELSE 0),
                                  !.pacc = @ + (IF ln.act = "acc" /\ ln.ret = 0 THEN 1 ELSE 0),
                                  !.pkern = @ + (IF ln.k[2] >= 0 THEN 1 ELSE 0)]
    [] ln.op = "inc" -> [cnt EXCEPT !.inc = @ + 1]
    [] ln.op = "crash" -> [cnt EXCEPT !.crash = @ + 1]
    [] OTHER -> cnt

\* ============================== steps ===========================================
IsPathLine(ln) == "x" \in DOMAIN ln

Next ==
  /\ l <= NL
  /\ l' = l + 1
  /\ LET ln == TraceLog[l] IN
     IF IsPathLine(ln)
     THEN LET r == IF ln.op = "p" THEN PathStep(ln)
                   ELSE IF ln.op = "crash" THEN [st |-> lst, cs |-> <<Chk(FALSE, 0, "C11.crash", "no sanitizer report, no abort, no time-out", ln.why)>>]
                   ELSE [st |-> lst, cs |-> <<>>]
              \* C11, whatever the call just made returned (also a refused or a wrongly accepted one): once a descriptor exists,
              \* the values xcm_attr_get reports are the ones in force in the kernel
              inf == IF ln.op = "p" /\ HasFd(r.st) /\ (\A i \in 1..5 : ln.k[i] >= 0 /\ ln.g[i] >= 0)
                     THEN <<Chk(KernOf(ln.g) = ln.k, 15, "C11.in_force", <<"reported", ln.g>>, <<"kernel", ln.k>>)>> ELSE <<>>
              allcs == r.cs \o inf
          IN /\ Report(ln.x, allcs)
             /\ nv' = nv + Len(Failed(allcs))
             /\ lst' = r.st
             /\ cnt' = PathCount(ln)
             /\ (l < NL \/ PrintT("@STAT " \o ToJson(PathCount(ln))))
     ELSE LET cs == CASE ln.op = "ls" -> LsChecks(ln)
                      [] ln.op = "g" -> GetChecks(ln)
                      [] ln.op = "s" -> SetChecks(ln)
                      [] ln.op = "crash" -> <<Chk(FALSE, 0, "C10.crash", "no sanitizer report, no abort, no time-out", ln.why)>>
                      [] OTHER -> <<Chk(FALSE, 0, "INTERNAL", "known op", ln.op)>>
          IN /\ Report(IF ln.op = "ls" THEN 0 - ln.sid ELSE ln.id, cs)
             /\ nv' = nv + Len(Failed(cs))
             /\ lst' = lst
             /\ cnt' = VecCount(ln)
             /\ (l < NL \/ PrintT("@STAT " \o ToJson(VecCount(ln))))

Spec == Init /\ [][Next]_tvars

\* the whole trace was consumed (a line the specification cannot process stops it early)
Accepted == TLCGet("stats").diameter = NL + 1
=============================================================================
