------------------------------ MODULE TlsPolicy ------------------------------
(***************************************************************************)
(* C09 "TLS never fails open" - a decision specification.                   *)
(*                                                                         *)
(* Shaped like libxcm/tp/tls/xcm_tp_btls.c:                                 *)
(*   Conf            the policy part of struct btls_socket (values and the  *)
(*                   *_set marks)                                           *)
(*   InitConf        btls_init          Apply     the attribute setters     *)
(*   Inherit         inherit_tls_conf   Finalize  finalize_tls_conf         *)
(*   ServerOutcome / ConnOutcome / AcceptOutcome                             *)
(*                   btls_server / btls_connect / btls_accept up to the      *)
(*                   start of the handshake (EINVAL and EPROTO exits)        *)
(*   VerifyParams    set_verify + enable_hostname_validation + the           *)
(*                   PARTIAL_CHAIN rule of ctx_store.c:load_ssl_ctx          *)
(*   SslVerifyOk     OpenSSL's chain verification as an environment model    *)
(*   MayEst          try_finish_tls_handshake + verify_peer_cert             *)
(*                                                                         *)
(* and, stated independently of that mechanism, the policy of the property  *)
(* statement:  MustReject(side).   FailClosed == MustReject => ~MayEst.      *)
(*                                                                         *)
(* A cell is [tp, host, S, L, A, C]: transport, kind of host in the client's *)
(* address, and four attribute maps (xcm_server_a, late xcm_attr_set on the  *)
(* server socket, xcm_accept_a, xcm_connect_a).  Everything else - what each *)
(* side presents, what it trusts, its effective policy - follows from them.  *)
(***************************************************************************)
EXTENDS Integers, Sequences, FiniteSets, TLC

B3 == {"-", "T", "F"}                       \* what a map says about a boolean attribute
NameVals == {"-", "good", "bad", "multi", "empty"}
Ref(k, n) == [k |-> k, n |-> n]             \* k: "-" unset, "f" by file, "v" by value, "d" default path
NoRef == Ref("-", "")
IsSet(r) == r.k # "-"

EmptyMap == [auth |-> "-", time |-> "-", crl |-> "-", vpn |-> "-", client |-> "-", names |-> "-",
             cert |-> NoRef, tc |-> NoRef, crlm |-> NoRef]

-----------------------------------------------------------------------------
(* The credential universe (bin/gencreds_c09.py generates exactly this;      *)
(* lib/check_c09.py compares the tables with the manifest measured from the *)
(* generated files).                                                        *)

\* presented file -> leaf id, issuer path (leaf's issuer first, self-signed root last), certificates sent along
CertInfo(p) ==
  CASE p = "l_ok"            -> [leaf |-> "l_ok", path |-> <<"rootA">>, sent |-> {}]
    [] p = "l_sub"           -> [leaf |-> "l_sub", path |-> <<"subA", "rootA">>, sent |-> {}]
    [] p = "l_sub_chain"     -> [leaf |-> "l_sub", path |-> <<"subA", "rootA">>, sent |-> {"subA"}]
    [] p = "l_x"             -> [leaf |-> "l_x", path |-> <<"rootX">>, sent |-> {}]
    [] p = "l_x_chain"       -> [leaf |-> "l_x", path |-> <<"rootX">>, sent |-> {"rootX"}]
    [] p = "l_subx_chain"    -> [leaf |-> "l_subx", path |-> <<"subX", "rootX">>, sent |-> {"subX"}]
    [] p = "l_self"          -> [leaf |-> "l_self", path |-> <<>>, sent |-> {}]
    [] p = "l_forged"        -> [leaf |-> "l_forged", path |-> <<"rootA2">>, sent |-> {}]
    [] p = "l_notca_chain"   -> [leaf |-> "l_notca", path |-> <<"leafca", "rootA">>, sent |-> {"leafca"}]
    [] p = "l_caexp"         -> [leaf |-> "l_caexp", path |-> <<"rootExp">>, sent |-> {}]
    [] p = "l_cafut"         -> [leaf |-> "l_cafut", path |-> <<"rootFut">>, sent |-> {}]
    [] p = "l_subexp_chain"  -> [leaf |-> "l_subexp", path |-> <<"subExp", "rootA">>, sent |-> {"subExp"}]
    [] p = "l_sub_rev_chain" -> [leaf |-> "l_sub_rev", path |-> <<"subA", "rootA">>, sent |-> {"subA"}]
    [] p = "l_subr_chain"    -> [leaf |-> "l_subr", path |-> <<"subR", "rootA">>, sent |-> {"subR"}]
    [] p = "l_exp_x"         -> [leaf |-> "l_exp_x", path |-> <<"rootX">>, sent |-> {}]
    [] p \in {"good_c", "good_s"} -> [leaf |-> p, path |-> <<"rootO">>, sent |-> {}]
    [] OTHER                 -> [leaf |-> p, path |-> <<"rootA">>, sent |-> {}]   \* the plain leaves under root A
PlainLeaves == {"l_exp", "l_fut", "l_rev", "l_eku_server", "l_eku_client", "l_eku_both", "l_eku_other",
                "l_name_san", "l_name_cn", "l_name_cnonly", "l_name_none", "l_exp_rev", "l_exp_name_none",
                "l_rev_name_none", "l_name_w3", "l_name_wild", "l_name_wcn"}
PresentFiles == {"l_ok", "l_sub", "l_sub_chain", "l_x", "l_x_chain", "l_subx_chain", "l_self", "l_forged",
                 "l_notca_chain", "l_caexp", "l_cafut", "l_subexp_chain", "l_sub_rev_chain", "l_subr_chain",
                 "l_exp_x", "good_c", "good_s"} \cup PlainLeaves

TimeOf(id) == IF id \in {"l_exp", "l_exp_rev", "l_exp_x", "l_exp_name_none", "rootExp", "subExp"} THEN "expired"
              ELSE IF id \in {"l_fut", "rootFut"} THEN "future" ELSE "ok"
NotCA == {"leafca"}                          \* issuers without the CA basic constraint
EkuOf(id) == CASE id = "l_eku_server" -> {"server"} [] id = "l_eku_client" -> {"client"}
               [] id = "l_eku_both" -> {"server", "client"} [] id = "l_eku_other" -> {"other"}
               [] OTHER -> {"absent"}
\* where the expected name ("localhost") occurs in the leaf
NameOf(id) == CASE id = "l_name_san" -> "san" [] id = "l_name_cn" -> "cn" [] id = "l_name_cnonly" -> "cnonly"
                [] id \in {"l_name_none", "l_exp_name_none", "l_rev_name_none"} -> "none"
                \* the other expected name ("w.c09.example"): exactly / only through a wildcard pattern ("*.c09.example" as a
                \* DNS SAN or as the CN)
                [] id = "l_name_w3" -> "w3" [] id \in {"l_name_wild", "l_name_wcn"} -> "wild"
                [] OTHER -> "both"

Bundle(t) ==
  CASE t = "tc_A" -> {"rootA"} [] t = "tc_A_subA" -> {"rootA", "subA"} [] t = "tc_subA" -> {"subA"}
    [] t = "tc_exp" -> {"rootExp"} [] t = "tc_fut" -> {"rootFut"} [] t = "tc_O" -> {"rootO"}
    [] t = "tc_all" -> {"rootA", "rootX", "rootO", "rootExp", "rootFut", "subA", "subR", "subX", "subExp", "l_self"}
    [] OTHER -> {}
UnusableTc == {"tc_missing", "tc_empty", "tc_garbage"}
TrustFiles == {"tc_A", "tc_A_subA", "tc_subA", "tc_exp", "tc_fut", "tc_O", "tc_all"} \cup UnusableTc

AllCAs == {"rootA", "subA", "subR", "rootExp", "rootFut", "subExp", "rootX", "subX", "rootO", "rootA2", "leafca"}
RevokedByRootA == {"l_rev", "subR", "l_exp_rev", "l_rev_name_none"}
CrlInfo(c) ==
  CASE c = "crl_full"     -> [revoked |-> RevokedByRootA \cup {"l_sub_rev"}, issuers |-> AllCAs, stale |-> FALSE]
    [] c = "crl_norev"    -> [revoked |-> {}, issuers |-> AllCAs, stale |-> FALSE]
    [] c = "crl_rootonly" -> [revoked |-> RevokedByRootA, issuers |-> {"rootA"}, stale |-> FALSE]
    [] c = "crl_stale"    -> [revoked |-> {}, issuers |-> AllCAs, stale |-> TRUE]
    [] OTHER              -> [revoked |-> {}, issuers |-> {}, stale |-> FALSE]
UnusableCrl == {"crl_missing", "crl_empty", "crl_garbage"}
CrlFiles == {"crl_full", "crl_norev", "crl_rootonly", "crl_stale"} \cup UnusableCrl

\* can the library load this piece of material?  (default paths point into an empty directory in the harness)
Loadable(r) == r.k \in {"f", "v"} /\ r.n \notin (UnusableTc \cup UnusableCrl)

-----------------------------------------------------------------------------
(* struct btls_socket, policy part *)
InitConf(type) ==
  [auth |-> TRUE, time |-> TRUE, crl |-> FALSE, vpn |-> FALSE, client |-> (type = "conn"),
   names |-> "NULL", names_set |-> FALSE, tc |-> NoRef, tc_set |-> FALSE, crlm |-> NoRef, crl_set |-> FALSE,
   cert |-> NoRef]

SetB(cur, v) == IF v = "-" THEN cur ELSE (v = "T")
\* xcm_attr_set of every attribute present in the map (the setters are independent of each other)
Apply(c, m) ==
  [c EXCEPT !.auth = SetB(@, m.auth), !.time = SetB(@, m.time), !.crl = SetB(@, m.crl), !.vpn = SetB(@, m.vpn),
            !.client = SetB(@, m.client),
            !.names = IF m.names = "-" THEN @ ELSE IF m.names = "empty" THEN "NULL" ELSE m.names,
            !.names_set = @ \/ m.names # "-",
            !.tc = IF IsSet(m.tc) THEN m.tc ELSE @, !.tc_set = @ \/ IsSet(m.tc),
            !.crlm = IF IsSet(m.crlm) THEN m.crlm ELSE @, !.crl_set = @ \/ IsSet(m.crlm),
            !.cert = IF IsSet(m.cert) THEN m.cert ELSE @]

\* inherit_tls_conf: values, not marks
Inherit(p) ==
  [InitConf("conn") EXCEPT !.auth = p.auth, !.crl = p.crl, !.client = p.client, !.time = p.time, !.vpn = p.vpn,
                           !.names = p.names, !.tc = p.tc, !.crlm = p.crlm, !.cert = p.cert]

\* finalize_tls_conf: [ok, conf]; ~ok = EINVAL
Finalize(c) ==
  LET e1 == ~c.auth /\ IsSet(c.tc) /\ c.tc_set
      c1 == IF ~c.auth /\ IsSet(c.tc) THEN [c EXCEPT !.tc = NoRef] ELSE c
      e2 == ~c.auth /\ c.crl
      e3 == ~c.crl /\ IsSet(c.crlm) /\ c.crl_set
      c3 == IF ~c.crl /\ IsSet(c.crlm) THEN [c1 EXCEPT !.crlm = NoRef] ELSE c1
      e4 == ~c.vpn /\ c.names # "NULL" /\ c.names_set
      c4 == IF ~c.vpn /\ c.names # "NULL" THEN [c3 EXCEPT !.names = "NULL"] ELSE c3
      c5 == [c4 EXCEPT !.tc = IF ~IsSet(@) /\ c4.auth THEN Ref("d", "tc") ELSE @,
                       !.crlm = IF ~IsSet(@) /\ c4.crl THEN Ref("d", "crl") ELSE @,
                       !.cert = IF ~IsSet(@) THEN Ref("d", "cert") ELSE @]
  IN [ok |-> ~(e1 \/ e2 \/ e3 \/ e4), conf |-> c5]

\* ctx_store_get_ctx succeeds
LoadOk(c) == Loadable(c.cert) /\ (~IsSet(c.tc) \/ Loadable(c.tc)) /\ (~IsSet(c.crlm) \/ Loadable(c.crlm))

Out(st, c) == [st |-> st, conf |-> c]       \* st: "ok" | "einval" | "eproto" | "none"
NoOut == Out("none", InitConf("conn"))

ServerOutcome(m) ==
  LET f == Finalize(Apply(InitConf("server"), m)) IN
  IF ~f.ok THEN Out("einval", f.conf) ELSE IF ~LoadOk(f.conf) THEN Out("eproto", f.conf) ELSE Out("ok", f.conf)

\* enable_hostname_validation refuses without authentication or without names
NameConfBad(c) == c.vpn /\ (~c.auth \/ c.names = "NULL")

ConnFrom(c0, m, host) ==
  LET f == Finalize(Apply(c0, m))
      c == [f.conf EXCEPT !.names = IF f.conf.vpn /\ host = "name" /\ @ = "NULL" THEN "host" ELSE @]
  IN IF ~f.ok THEN Out("einval", f.conf)
     ELSE IF ~LoadOk(f.conf) THEN Out("eproto", f.conf)
     ELSE IF NameConfBad(c) THEN Out("einval", c)
     ELSE Out("ok", c)
ConnOutcome(m, host) == ConnFrom(InitConf("conn"), m, host)
\* a late map is written to the server socket after its creation: the tls.* attributes are writable only at creation,
\* so every such write is refused (EACCES) and changes nothing  (before /repo a330e75 the code accepted them: Apply(sout.conf, late))
ServerConfAfter(sout, late) == sout.conf
AcceptOutcome(sconf, m) == ConnFrom(Inherit(sconf), m, "ip")

-----------------------------------------------------------------------------
(* What a side faces *)
Seq2Set(s) == {s[i] : i \in 1..Len(s)}

\* how far the issuer path can be followed with what the peer sent and what the bundle holds
Reach(ci, bundle, i) == \A j \in 1..i : ci.path[j] \in (ci.sent \cup bundle) /\ ci.path[j] \notin NotCA
\* "root": a complete path to a self-signed certificate of the bundle; "partial": only to a non-root member
AnchorIdx(ci, bundle) ==
  LET n == Len(ci.path)
      cands == {i \in 1..n : Reach(ci, bundle, i) /\ ci.path[i] \in bundle}
  IN IF n = 0 THEN (IF ci.leaf \in bundle THEN 0 ELSE -1)
     ELSE IF n \in cands THEN n
     ELSE IF cands # {} THEN CHOOSE i \in cands : \A j \in cands : i <= j
     ELSE IF ci.leaf \in bundle THEN 0 ELSE -1
Anchor(ci, bundle) ==
  LET a == AnchorIdx(ci, bundle) IN
  IF a = -1 THEN "none" ELSE IF a = Len(ci.path) THEN "root" ELSE "partial"
\* the certificates of the chain from the leaf up to and including the anchor
ChainIds(ci, bundle) ==
  LET a == AnchorIdx(ci, bundle) IN {ci.leaf} \cup {ci.path[j] : j \in 1..(IF a < 0 THEN 0 ELSE a)}

\* facts about the peer of a side whose finalized configuration is c, when the peer presents file p
Facts(c, p) ==
  LET ci == CertInfo(p)
      bundle == IF IsSet(c.tc) /\ Loadable(c.tc) THEN Bundle(c.tc.n) ELSE {}
      chain == ChainIds(ci, bundle)
      crl == IF IsSet(c.crlm) THEN CrlInfo(c.crlm.n) ELSE CrlInfo("")
      a == AnchorIdx(ci, bundle)
      \* certificates whose revocation status is looked up: everything below a self-signed anchor
      checked == IF a = Len(ci.path) /\ a >= 0 THEN chain \ (IF a = 0 THEN {} ELSE {ci.path[a]}) ELSE chain
      issuerOf(id) == IF id = ci.leaf THEN (IF Len(ci.path) = 0 THEN id ELSE ci.path[1])
                      ELSE LET k == CHOOSE j \in 1..Len(ci.path) : ci.path[j] = id IN
                           IF k = Len(ci.path) THEN id ELSE ci.path[k + 1]
  IN [anchor |-> Anchor(ci, bundle),
      leaftime |-> TimeOf(ci.leaf),
      catime |-> {TimeOf(x) : x \in chain \ {ci.leaf}},
      revleaf |-> ci.leaf \in crl.revoked,
      revca |-> (checked \ {ci.leaf}) \cap crl.revoked # {},
      crlleafcovered |-> issuerOf(ci.leaf) \in crl.issuers,
      crlcacovered |-> \A x \in checked \ {ci.leaf} : issuerOf(x) \in crl.issuers,
      crlstale |-> crl.stale,
      eku |-> EkuOf(ci.leaf),
      name |-> NameOf(ci.leaf)]

-----------------------------------------------------------------------------
(* The policy of the property statement *)
TimeBad(f) == f.leaftime # "ok" \/ f.catime \ {"ok"} # {}
\* the purpose the verifying side needs: a TLS client checks a server certificate and vice versa
Needed(c) == IF c.client THEN "server" ELSE "client"
EkuForbids(f, c) == f.eku # {"absent"} /\ Needed(c) \notin f.eku
\* wildcard matching is disabled (xcm.h): a pattern never satisfies an expected name
NameMatches(f, names) == \/ (names \in {"good", "multi", "host"} /\ f.name \notin {"none", "w3", "wild"})
                         \/ (names = "w3" /\ f.name = "w3")

\* c: the side's finalized configuration (creation succeeded), p: what the peer presents
PolicyUnmet(c, p) ==
  LET f == Facts(c, p) IN
  c.auth /\ (\/ f.anchor = "none"
             \/ (c.time /\ TimeBad(f))
             \/ (c.crl /\ (f.revleaf \/ f.revca))
             \/ EkuForbids(f, c)
             \/ (c.vpn /\ ~NameMatches(f, c.names)))
\* authentication / CRL checking demanded, but the trust anchors / CRLs cannot be used at all
MaterialUnusable(c) == (c.auth /\ IsSet(c.tc) /\ ~Loadable(c.tc)) \/ (c.crl /\ IsSet(c.crlm) /\ ~Loadable(c.crlm))

-----------------------------------------------------------------------------
(* The mechanism: flags handed to OpenSSL and OpenSSL's verdict *)
VerifyParams(c) ==
  [peer |-> c.auth,                                   \* SSL_VERIFY_PEER
   failnocert |-> c.auth /\ ~c.client,                \* SSL_VERIFY_FAIL_IF_NO_PEER_CERT
   crlcheck |-> c.crl, crlall |-> c.crl,              \* X509_V_FLAG_CRL_CHECK | CRL_CHECK_ALL
   notime |-> ~c.time,                                \* X509_V_FLAG_NO_CHECK_TIME
   partial |-> ~IsSet(c.crlm),                        \* X509_V_FLAG_PARTIAL_CHAIN only without CRL data
   hosts |-> IF c.vpn THEN c.names ELSE "NULL",       \* X509_VERIFY_PARAM_add1_host, ALWAYS_CHECK_SUBJECT
   post |-> c.auth]                                   \* verify_peer_cert after the handshake

SslVerifyOk(vp, c, f) ==
  /\ (f.anchor = "root" \/ (f.anchor = "partial" /\ vp.partial))
  /\ (vp.notime \/ ~TimeBad(f))
  /\ (~vp.crlcheck \/ (f.crlleafcovered /\ ~f.revleaf /\ (vp.notime \/ ~f.crlstale)))
  /\ (~vp.crlall \/ (f.crlcacovered /\ ~f.revca))
  /\ ~EkuForbids(f, c)
  /\ (vp.hosts = "NULL" \/ NameMatches(f, vp.hosts))

\* the handshake can complete on a side: complementary TLS roles, and the own verification passes
\* (a TLS server without SSL_VERIFY_PEER requests no certificate; a TLS client always receives one)
MayEst(c, peerconf, p) ==
  LET vp == VerifyParams(c) IN
  /\ c.client # peerconf.client
  /\ (vp.peer => SslVerifyOk(vp, c, Facts(c, p)))

-----------------------------------------------------------------------------
(* A cell and its evaluation *)
Eval(cell) ==
  LET so == ServerOutcome(cell.S)
      sconf == ServerConfAfter(so, cell.L)
      co == IF so.st = "ok" THEN ConnOutcome(cell.C, cell.host) ELSE NoOut
      ao == IF so.st = "ok" /\ co.st = "ok" THEN AcceptOutcome(sconf, cell.A) ELSE NoOut
      both == co.st = "ok" /\ ao.st = "ok"
      pc == IF co.st # "none" /\ co.conf.cert.k \in {"f", "v"} THEN co.conf.cert.n ELSE "none"  \* presented by the client
      ps == IF ao.st # "none" /\ ao.conf.cert.k \in {"f", "v"} THEN ao.conf.cert.n ELSE "none"  \* ... by the accepting side
      mayc == both /\ MayEst(co.conf, ao.conf, ps)
      mays == both /\ MayEst(ao.conf, co.conf, pc)
  IN [so |-> so, co |-> co, ao |-> ao, both |-> both, pc |-> pc, ps |-> ps,
      \* MustReject(side): the policy of the statement is not met, the side must never become usable
      mrc |-> ao.st # "none" /\ co.st = "ok" /\ PolicyUnmet(co.conf, ps),
      mrs |-> ao.st = "ok" /\ PolicyUnmet(ao.conf, pc),
      \* the creation call itself must fail: unusable trust anchors / CRLs, invalid combination
      unusable |-> [s |-> so.st = "eproto" /\ MaterialUnusable(so.conf),
                    c |-> co.st = "eproto" /\ MaterialUnusable(co.conf),
                    a |-> ao.st = "eproto" /\ MaterialUnusable(ao.conf)],
      \* Usable(side) in the mechanism model: the handshake may complete there
      mayc |-> mayc, mays |-> mays,
      \* prediction used for notes only: a side in the TLS server role completes only if its TLS client does
      predc |-> mayc /\ (co.conf.client \/ mays),
      preds |-> mays /\ (ao.conf.client \/ mayc)]

\* ev = Eval(cell); side "c" = the connecting socket, "s" = the connection accepted from the server socket
Effective(ev, side) == IF side = "c" THEN ev.co.conf ELSE ev.ao.conf      \* policy in force: inheritance + override
ConfigValid(ev, side) == IF side = "c" THEN ev.co.st # "einval" ELSE ev.so.st # "einval" /\ ev.ao.st # "einval"
MustReject(ev, side) == IF side = "c" THEN ev.mrc ELSE ev.mrs
Usable(ev, side) == IF side = "c" THEN ev.mayc ELSE ev.mays
FailClosed(ev) == \A side \in {"c", "s"} : MustReject(ev, side) => ~Usable(ev, side)

\* ---- consistency laws --------------------------------------------------------------------------
\* the ut_assert()s of btls_connect/btls_server/btls_accept after a successful finalize
WellDefined(c) == (c.auth <=> IsSet(c.tc)) /\ (c.crl <=> IsSet(c.crlm)) /\ (c.crl => c.auth)
                  /\ (~c.vpn => c.names = "NULL") /\ IsSet(c.cert)
ConfigValidWellDefined(ev) ==
  /\ (ev.so.st \in {"ok", "eproto"} => WellDefined(ev.so.conf))
  /\ (ev.co.st = "ok" => WellDefined(ev.co.conf) /\ (ev.co.conf.vpn => ev.co.conf.auth /\ ev.co.conf.names # "NULL"))
  /\ (ev.ao.st = "ok" => WellDefined(ev.ao.conf) /\ (ev.ao.conf.vpn => ev.ao.conf.auth /\ ev.ao.conf.names # "NULL"))
\* inheritance and override: a value written in the accept map wins, otherwise the server socket's value
\* (server map; writes after creation are refused), otherwise the default
BoolAttrs == {"auth", "time", "crl", "vpn", "client"}
Get(c, a) == CASE a = "auth" -> c.auth [] a = "time" -> c.time [] a = "crl" -> c.crl [] a = "vpn" -> c.vpn
               [] a = "client" -> c.client
MapGet(m, a) == CASE a = "auth" -> m.auth [] a = "time" -> m.time [] a = "crl" -> m.crl [] a = "vpn" -> m.vpn
                  [] a = "client" -> m.client
DefaultOf(a, type) == CASE a \in {"auth", "time"} -> TRUE [] a = "client" -> (type = "conn") [] OTHER -> FALSE
Resolved(vals, dflt) ==      \* last written value in a sequence of map values
  LET idx == {i \in 1..Len(vals) : vals[i] # "-"} IN
  IF idx = {} THEN dflt ELSE vals[CHOOSE i \in idx : \A j \in idx : j <= i] = "T"
InheritOverrideLaw(cell, ev) ==
  /\ (ev.ao.st # "none" =>
        \A a \in BoolAttrs :
           Get(ev.ao.conf, a) = Resolved(<<MapGet(cell.S, a), MapGet(cell.A, a)>>, DefaultOf(a, "server")))
  /\ (ev.co.st # "none" =>
        \A a \in BoolAttrs : Get(ev.co.conf, a) = Resolved(<<MapGet(cell.C, a)>>, DefaultOf(a, "conn")))
\* nothing is demanded of a side that does not authenticate
NoAuthNoDemand(ev) == (ev.co.st = "ok" /\ ~ev.co.conf.auth => ~ev.mrc) /\ (ev.ao.st = "ok" /\ ~ev.ao.conf.auth => ~ev.mrs)
=============================================================================
