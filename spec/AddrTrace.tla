------------------------------ MODULE AddrTrace ------------------------------
(***************************************************************************)
(* Trace specification for C12: validates calls of the real address codec  *)
(* recorded by harness/addr_exec against the operators of Addr.  Monitor    *)
(* style: one line per call; the expected outcome is computed from Addr     *)
(* and compared with what was observed; every mismatch is printed as        *)
(*      "@V [<vector id>, <sub index>, <tag>, <expected>, <observed>]"      *)
(* Tags "C12.*" are violations of the property statement, tags "NOTE.*"     *)
(* are leniencies or model details the statement does not settle.           *)
(***************************************************************************)
EXTENDS Addr, Json, IOUtils

Trace == ndJsonDeserialize(IOEnv.TRACE)
NL == Len(Trace)

VARIABLES l, nv, st
vars == <<l, nv, st>>

St0 == [ps |-> 0, valid |-> 0, invalid |-> 0, lenient |-> 0, accepted |-> 0, known |-> 0,
        mk |-> 0, mkok |-> 0, mkfail |-> 0, cv |-> 0, pc |-> 0, crash |-> 0]
Init == l = 1 /\ nv = 0 /\ st = St0

\* ---- reporting ------------------------------------------------------------------
Chk(c, n, t, x, o) == [c |-> c, n |-> n, t |-> t, x |-> x, o |-> o]
Failed(cs) == SelectSeq(cs, LAMBDA r : ~r.c)
Report(ln, cs) ==
  LET f == Failed(cs) IN
  IF f = <<>> THEN TRUE
  ELSE \A i \in 1..Len(f) : PrintT("@V " \o ToJson(<<ln.id, f[i].n, f[i].t, f[i].x, f[i].o>>))

\* observed components [ret, errno, kind, bytes, port]
R(x) == [ret |-> x[1], err |-> x[2], k |-> x[3], b |-> x[4], port |-> x[5]]
SameComp(r, comp) == r.k = comp.k /\ r.b = comp.b /\ r.port = comp.port
Short(b) == IF Len(b) <= 24 THEN b ELSE SubSeq(b, 1, 24)

\* ---- output buffers ---------------------------------------------------------------
\* index of the first byte outside the capacity that no longer holds the fill pattern
\* (0: all intact; negative: a byte in front of the buffer)
Overrun(ln) ==
  LET bad == {i \in (ln.cap + 1)..Len(ln.out) : ln.out[i] # ln.fill}
      pbad == {i \in 1..Len(ln.pre) : ln.pre[i] # ln.fill}
  IN IF pbad # {} THEN 0 - MinOf(pbad) ELSE IF bad = {} THEN 0 ELSE MinOf(bad)
\* position of the terminating NUL inside the capacity (0: none)
Nul(ln) == LET z == {i \in 1..ln.cap : ln.out[i] = 0} IN IF z = {} THEN 0 ELSE MinOf(z)
OutStr(ln) == SubSeq(ln.out, 1, Nul(ln) - 1)

CanaryChecks(ln) == <<Chk(Overrun(ln) = 0, 0, "C12.overrun", ln.cap, Overrun(ln))>>

\* F must be delivered completely and NUL terminated inside cap bytes, or refused:
\* success exactly when cap > Len(F)
BufChecks(ln, F, refusedTag, wrongTag, k) ==
  LET n == Len(F)
      z == Nul(ln)
      o == OutStr(ln)
  IN <<Chk(ln.ret \in {0, -1}, 1, "INTERNAL", 0, ln.ret),
       Chk(ln.ret # 0 \/ z # 0, k + 2, "C12.truncated", <<"nul within", ln.cap>>, <<"ret", ln.ret, "nul", z>>),
       Chk(ln.ret # 0 \/ z = 0 \/ o = F,
           k + 3, IF ln.cap <= n \/ (Len(o) < n /\ IsPrefix(o, F)) THEN "C12.truncated" ELSE wrongTag,
           <<"len", n, "cap", ln.cap>>, <<"ret", ln.ret, "len", Len(o), Short(o)>>),
       Chk(ln.ret # -1 \/ ln.cap <= n, 4, refusedTag, <<"ret", 0, "len", n, "cap", ln.cap>>, <<ln.ret, ln.err>>)>>

MakeErrnoChecks(ln, tag) ==
  <<Chk(ln.ret # -1 \/ ln.err \in {EINVAL, ENAMETOOLONG}, 5, tag, <<EINVAL, ENAMETOOLONG>>, ln.err)>>

\* the freshly made address handed to the real parser must give the components back
ParseBackChecks(ln, t, comp, tag) ==
  LET p == R(ln.p)
      complete == ln.ret = 0 /\ Nul(ln) # 0 /\ HasText(t, comp) /\ OutStr(ln) = Full(t, comp)
  IN
  <<Chk(~complete \/ p.ret = -2 \/ (p.ret = 0 /\ SameComp(p, comp)), 6, tag,
        <<comp.k, Short(comp.b), comp.port>>, <<p.ret, p.err, p.k, Short(p.b), p.port>>)>>

\* a constructor call with components comp for transport t
ProduceChecks(ln, t, comp) ==
  LET cc == CompClass(t, comp) IN
  CanaryChecks(ln) \o
  (IF cc = "valid" THEN
      LET F == Full(t, comp)
          o == OutStr(ln)
          \* another text that denotes the same components is only noted
          same == ln.ret = 0 /\ Nul(ln) # 0 /\ o # F /\ ln.cap > Len(o) /\ Class(t, o).c = "valid" /\ Class(t, o).comp = comp
      IN (IF same THEN <<Chk(FALSE, 3, "NOTE.make.text", Short(F), Short(o))>>
          ELSE BufChecks(ln, F, "C12.errno", "C12.roundtrip", 0))
         \o MakeErrnoChecks(ln, "C12.errno")
         \o ParseBackChecks(ln, t, comp, "C12.roundtrip")
   ELSE IF cc = "invalid" THEN
      <<Chk(ln.ret = -1, 7, "C12.roundtrip", <<"ret", -1, EINVAL>>, <<"ret", ln.ret>>)>>
      \o MakeErrnoChecks(ln, "C12.errno")
   ELSE \* lenient: honest bounds still hold for what has a text; the rest is noted
      (IF HasText(t, comp) THEN BufChecks(ln, Full(t, comp), "NOTE.make.refused", "NOTE.make.text", 100) ELSE <<>>)
      \o MakeErrnoChecks(ln, "NOTE.make.errno")
      \o ParseBackChecks(ln, t, comp, "NOTE.make.unparseable"))

\* ---- steps ----------------------------------------------------------------------------
MkChecks(ln) == ProduceChecks(ln, ln.t, [k |-> ln.hk, b |-> ln.hb, port |-> ln.port])

CvChecks(ln) ==
  LET cl == Class(ln.t, ln.s) IN
  IF cl.c = "valid" THEN ProduceChecks(ln, ln.t2, cl.comp)
  ELSE CanaryChecks(ln) \o
       <<Chk(ln.ret \in {0, -1}, 1, "INTERNAL", 0, ln.ret),
         Chk(ln.ret # 0 \/ Nul(ln) # 0, 2, "C12.truncated", <<"nul within", ln.cap>>, <<"ret", ln.ret>>),
         Chk(cl.c # "invalid" \/ ln.ret = -1, 8, "C12.accepts", cl.why, <<"ret", ln.ret>>),
         Chk(cl.c # "lenient" \/ ln.ret = -1, 8, "NOTE." \o cl.why, "", <<"ret", ln.ret>>)>>

\* parsers that write a string into a caller supplied buffer
PcChecks(ln) ==
  LET cl == IF ln.fn = "proto"
            THEN LET pc == ProtoClass(ln.s) IN [c |-> pc.c, why |-> pc.why, str |-> pc.p]
            ELSE LET uc == Class(ln.fn, ln.s) IN [c |-> uc.c, why |-> uc.why, str |-> uc.comp.b]
  IN CanaryChecks(ln) \o
     (IF cl.c = "valid" THEN
         BufChecks(ln, cl.str, "C12.rejects", "C12.roundtrip", 0)
         \o <<Chk(ln.ret # -1 \/ ln.cap > Len(cl.str) \/ ln.err = ENAMETOOLONG, 5, "NOTE.errno", ENAMETOOLONG, ln.err)>>
      ELSE <<Chk(ln.ret \in {0, -1}, 1, "INTERNAL", 0, ln.ret),
             Chk(ln.ret # 0 \/ Nul(ln) # 0, 2, "C12.truncated", <<"nul within", ln.cap>>, <<"ret", ln.ret>>),
             Chk(cl.c # "invalid" \/ ln.ret = -1, 8, "C12.accepts", cl.why, <<"ret", ln.ret>>),
             Chk(cl.c # "lenient" \/ ln.ret = -1, 8, "NOTE." \o cl.why, "", <<"ret", ln.ret>>)>>)

\* one parser against the grammar; n = sub index in the report
OneParse(n, t, d, x, fam) ==
  LET r == R(x)
      cl == ClassVia(t, d)
      \* the obsolete entry points take IP addresses only (fam = kinds they can return)
      demanded == cl.c = "valid" /\ cl.comp.k \in fam
  IN <<Chk(r.ret \in {0, -1}, n, "INTERNAL", 0, r.ret),
       Chk(~demanded \/ r.ret = 0, n, "C12.rejects", <<t, "valid">>, <<r.ret, r.err>>),
       Chk(~demanded \/ r.ret # 0 \/ SameComp(r, cl.comp), n, "C12.roundtrip",
           <<cl.comp.k, Short(cl.comp.b), cl.comp.port>>, <<r.k, Short(r.b), r.port>>),
       Chk(cl.c # "invalid" \/ r.ret = -1, n, "C12.accepts", <<t, cl.why>>, <<r.ret, r.k, Short(r.b), r.port>>),
       Chk(cl.c # "lenient" \/ r.ret = -1, n, "NOTE." \o cl.why, t, <<r.ret, r.k, r.port>>),
       Chk(r.ret # -1 \/ r.err = EINVAL, n, "NOTE.errno", EINVAL, r.err)>>

AllKinds == {"ip4", "ip6", "name", "ux"}
C6T == <<"tcp", "tls", "utls", "sctp">>
C4T == <<"tcp", "tls", "utls">>

PsChecks(ln) ==
  LET s == Dispatch(ln.s)
      any == \E i \in 1..8 : ln.r[i][1] = 0
      pc == ProtoClass(ln.s)
      pp == ln.pp
  IN OneParse(1, "tcp", s, ln.r[1], AllKinds) \o OneParse(2, "tls", s, ln.r[2], AllKinds)
     \o OneParse(3, "utls", s, ln.r[3], AllKinds) \o OneParse(4, "sctp", s, ln.r[4], AllKinds)
     \o OneParse(5, "ux", s, ln.r[5], AllKinds) \o OneParse(6, "uxf", s, ln.r[6], AllKinds)
     \o OneParse(7, "btcp", s, ln.r[7], AllKinds) \o OneParse(8, "btls", s, ln.r[8], AllKinds)
     \o OneParse(11, "tcp", s, ln.c6[1], {"ip4", "ip6"}) \o OneParse(12, "tls", s, ln.c6[2], {"ip4", "ip6"})
     \o OneParse(13, "utls", s, ln.c6[3], {"ip4", "ip6"}) \o OneParse(14, "sctp", s, ln.c6[4], {"ip4", "ip6"})
     \o OneParse(21, "tcp", s, ln.c4[1], {"ip4"}) \o OneParse(22, "tls", s, ln.c4[2], {"ip4"})
     \o OneParse(23, "utls", s, ln.c4[3], {"ip4"})
     \o OneParse(25, "ux", s, ln.uxc, AllKinds)
     \o <<\* xcm_addr_is_valid agrees with the parsers
          Chk((ln.iv = 1) <=> any, 30, "C12.agree", <<"some parser accepts", any>>, <<"is_valid", ln.iv>>),
          Chk(ln.isup = ln.iv \/ s.tt = "sctp", 31, "NOTE.is_supported", ln.iv, ln.isup),
          \* xcm_addr_parse_proto (capacity 64)
          Chk(pc.c # "valid" \/ pp[1] = 0, 40, "C12.rejects", <<"proto", Short(pc.p)>>, <<pp[1], pp[2]>>),
          Chk(pc.c # "valid" \/ pp[1] # 0 \/ pp[3] = pc.p, 40, "C12.roundtrip", Short(pc.p), Short(pp[3])),
          Chk(pc.c # "invalid" \/ pp[1] = -1, 40, "C12.accepts", <<"proto", pc.why>>, <<pp[1], Short(pp[3])>>),
          Chk(pc.c # "lenient" \/ pp[1] = -1, 40, "NOTE." \o pc.why, "", pp[1])>>

Checks(ln) ==
  CASE ln.op = "mk" -> MkChecks(ln)
    [] ln.op = "cv" -> CvChecks(ln)
    [] ln.op = "pc" -> PcChecks(ln)
    [] ln.op = "ps" -> PsChecks(ln)
    [] ln.op = "crash" -> <<Chk(FALSE, 0, "C12.crash", "no sanitizer report, no abort, no time-out", ln.fn)>>
    [] OTHER -> <<Chk(FALSE, 0, "INTERNAL", "known op", ln.op)>>

Count(ln) ==
  CASE ln.op = "ps" -> LET vc == ValidClass(ln.s) IN
                       [st EXCEPT !.ps = @ + 1, ![vc] = @ + 1, !.accepted = @ + ln.iv,
                                  !.known = @ + (IF ProtoSplit(ln.s).ok /\ TOf(ProtoSplit(ln.s).p) # "none" THEN 1 ELSE 0)]
    [] ln.op = "mk" -> [st EXCEPT !.mk = @ + 1, !.mkok = @ + (IF ln.ret = 0 THEN 1 ELSE 0),
                                  !.mkfail = @ + (IF ln.ret = -1 THEN 1 ELSE 0)]
    [] ln.op = "cv" -> [st EXCEPT !.cv = @ + 1]
    [] ln.op = "pc" -> [st EXCEPT !.pc = @ + 1]
    [] ln.op = "crash" -> [st EXCEPT !.crash = @ + 1]
    [] OTHER -> st

Next ==
  /\ l <= NL
  /\ l' = l + 1
  /\ LET ln == Trace[l]
         cs == Checks(ln)
     IN /\ Report(ln, cs)
        /\ nv' = nv + Len(Failed(cs))
        /\ st' = Count(ln)
        /\ (l < NL \/ PrintT("@STAT " \o ToJson(Count(ln))))

Spec == Init /\ [][Next]_vars

\* the whole trace was consumed (a line the specification cannot process stops it early)
Accepted == TLCGet("stats").diameter = NL + 1
=============================================================================
