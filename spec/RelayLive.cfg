\* Example configuration: liveness under fairness (the relay runs, a reading application keeps reading).
SPECIFICATION FairSpec
CONSTANTS
  NConn = 1
  MaxMsg = 2
  Cap = 1
  LBuf = TRUE
  Hup = FALSE
  Dev = {}
  Mut = {}
  Quiet = {}
  NoClose = {}
  Gen = FALSE
  EmitMod = 1
INVARIANTS TypeOK
PROPERTIES Progress CloseSeen
CHECK_DEADLOCK FALSE
