------------------------------ MODULE Lifecycle ------------------------------
(***************************************************************************)
(* C08 - resource ownership of libxcm.                                     *)
(*                                                                         *)
(* Part 1 (monitor): the ownership rules as a deterministic step function  *)
(* Step(s, e) over one logged event e (an API call boundary, a lower-layer  *)
(* call, a harness observation).  It is the single source of truth: the    *)
(* design model below feeds it the events of the modelled library, and      *)
(* LifecycleTrace feeds it the events recorded from the real library.       *)
(*                                                                         *)
(* Part 2 (design model): the library's life-cycle ladders (create server / *)
(* connect / accept / finish / close / cleanup-after-fork) for a few        *)
(* sockets with any single step failing, and the process-wide pool of       *)
(* always-readable eventfds (active_fd.c), emitting the same events.        *)
(* TLC checks that the monitor never objects and the state invariants.      *)
(***************************************************************************)
EXTENDS Integers, Sequences, FiniteSets, TLC

CONSTANTS PoolMax,      \* users per pool eventfd (MAX_USERS_PER_FD = 100 in the code)
          MaxSock,      \* design model: handles 1..MaxSock
          MaxFail,      \* design model: failing steps per behaviour
          TPs,          \* design model: transports used
          MaxOps,       \* design model: create calls (connect/server/accept) per behaviour
          CtlChoice,    \* design model: subset of BOOLEAN, control interface per socket
          App,          \* design model: the application opens and closes a descriptor of its own between calls
          Dev           \* design model: named deviations of the code from the design

BellTp == {"tcp", "tls", "btcp", "btls", "utls"}    \* connections of these hold one pool user (xpoll bell)

EmptyF == [x \in {} |-> 0]
Drop(f, S) == [k \in DOMAIN f \ S |-> f[k]]
Put(f, k, v) == [x \in DOMAIN f \cup {k} |-> IF x = k THEN v ELSE f[x]]
MinS(S) == CHOOSE x \in S : \A y \in S : x <= y

NoCall == [active |-> FALSE, op |-> "", h |-> 0, tp |-> "", st |-> "", epc |-> FALSE, evc |-> {}, clo |-> {}]

MS0 == [owned |-> EmptyF,       \* fd -> [k: kind, h: owning socket handle (0: the pool)]
        foreign |-> {},         \* descriptors of the application
        files |-> EmptyF,       \* path -> owning socket handle
        pool |-> <<>>,          \* [fd, cnt] in list order of active_fd.c (head first)
        holds |-> EmptyF,       \* handle -> pool eventfd it uses
        live |-> EmptyF,        \* handle -> [tp, st]
        call |-> NoCall,
        mode |-> "owner",
        saved |-> <<>>,         \* the owner's state while the child's part of the trace is processed
        chit |-> {},            \* what the child did to objects it shares with the owner (pending an effect)
        rpool |-> EmptyF,       \* the real pool as reported by the observation points of active_fd.c: fd -> cnt
        hooked |-> FALSE,
        linj |-> <<"", 0>>,     \* last injected failure
        dead |-> FALSE]

V(tag, x, o) == <<tag, x, o>>
R(s, vs) == [s |-> s, v |-> vs]

OwnedOf(s, h) == {fd \in DOMAIN s.owned : s.owned[fd].h = h}
FilesOf(s, h) == {p \in DOMAIN s.files : s.files[p] = h}
Desc(s, F) == {<<fd, s.owned[fd].k, s.owned[fd].h>> : fd \in F}

CreateCalls == {"socket", "accept4", "epoll_create1", "eventfd", "timerfd_create", "open", "dup"}
AlterCalls == {"setsockopt", "listen", "connect", "shutdown", "timerfd_settime", "fcntl_set", "send", "recv"}

\* ---- application (harness) side ---------------------------------------------------------
HarnessSys(s, e) ==
  IF e.call \in CreateCalls \cup {"hopen", "decoy"} /\ e.res >= 0 THEN
       R([s EXCEPT !.foreign = @ \cup {e.res}, !.owned = Drop(@, {e.res})],
         IF e.res \in DOMAIN s.owned
         THEN <<V("MODEL.fd_clash", "free number", <<e.res, s.owned[e.res].k>>)>> ELSE <<>>)
  ELSE IF e.call = "close" /\ e.res = 0 THEN R([s EXCEPT !.foreign = @ \ {e.fd}], <<>>)
  ELSE R(s, <<>>)

\* ---- library side --------------------------------------------------------------------------
CreateStep(s, e) ==
  LET fd == e.res
      ctl == e.call = "accept4" /\ e.fd \in DOMAIN s.owned /\ s.owned[e.fd].k = "ctl"
      k == CASE e.call = "socket" -> "sock"
             [] e.call = "accept4" -> IF ctl THEN "ctlcli" ELSE "sock"
             [] e.call = "epoll_create1" -> "epoll"
             [] e.call = "eventfd" -> "eventfd"
             [] e.call = "timerfd_create" -> "timer"
             [] e.call = "open" -> "file"
             [] OTHER -> "dup"
      own == IF k = "eventfd" THEN 0 ELSE IF ctl THEN s.owned[e.fd].h ELSE s.call.h
      lst == IF e.call = "accept4" /\ e.fd \in s.foreign
             THEN <<V("C08.foreign_ctl", "descriptor created by the library", <<"accept4", e.fd, "foreign">>)>> ELSE <<>>
  IN IF fd < 0 THEN R(s, lst)
     ELSE LET clash == fd \in s.foreign \/ fd \in DOMAIN s.owned
              s1 == [s EXCEPT !.owned = Put(@, fd, [k |-> k, h |-> own]),
                              !.foreign = @ \ {fd},
                              !.call.epc = @ \/ (k = "epoll"),
                              !.call.evc = IF k = "eventfd" THEN @ \cup {fd} ELSE @]
          IN R(s1, lst \o (IF clash THEN <<V("MODEL.fd_clash", "free number", fd)>> ELSE <<>>))

CloseStep(s, e) ==
  LET fd == e.fd IN
  IF fd \in DOMAIN s.owned THEN
      LET o == s.owned[fd]
          other == o.h # s.call.h /\ o.k \notin {"eventfd", "ctlcli"}
      IN R([s EXCEPT !.owned = Drop(@, {fd}), !.call.clo = IF o.k = "eventfd" THEN @ \cup {fd} ELSE @],
           IF other THEN <<V("NOTE.close_other_socket", <<"socket", s.call.h>>, <<fd, o.k, "socket", o.h>>)>> ELSE <<>>)
  ELSE IF fd \in s.foreign THEN
      R([s EXCEPT !.foreign = IF e.res = 0 THEN @ \ {fd} ELSE @],
        <<V("C08.stray_close", "close only what the library created", <<"close", fd, "descriptor of the application", e.res>>)>>)
  ELSE R(s, <<V(IF e.res = 0 THEN "NOTE.close_unknown" ELSE "NOTE.close_ebadf", "owned descriptor", <<fd, e.res, e.err>>)>>)

CtlStep(s, e) ==
  LET ep == e.fd
      tgt == e.fd2
      v1 == IF ep \in s.foreign
            THEN <<V("C08.foreign_ctl", "epoll instance created by the library", <<"epoll_ctl", ep, "foreign">>)>> ELSE <<>>
      v2 == IF tgt \in s.foreign THEN
               IF e.a \in {1, 3} \/ e.res = 0
               THEN <<V("C08.foreign_ctl", "descriptor created by the library", <<"epoll_ctl", e.a, tgt, "foreign", e.res>>)>>
               ELSE <<V("NOTE.epoll_del_after_close", "", <<tgt, e.err>>)>>
            ELSE <<>>
      shared == s.mode = "child" /\ ep \in DOMAIN s.owned /\ e.res = 0
      v3 == IF shared THEN <<V("NOTE.child_epoll_ctl", "no change of an inherited epoll instance", <<ep, e.a, tgt>>)>> ELSE <<>>
  IN R([s EXCEPT !.chit = IF shared THEN @ \cup {"epoll_ctl"} ELSE @], v1 \o v2 \o v3)

\* e.a: 0 no path, 1 control socket path, 2 other file system path, 3 abstract name
BindStep(s, e) ==
  IF e.fd \in s.foreign THEN R(s, <<V("C08.foreign_ctl", "descriptor created by the library", <<"bind", e.fd, "foreign">>)>>)
  ELSE IF e.res = 0 /\ e.a \in {1, 2} /\ e.fd \in DOMAIN s.owned THEN
      R([s EXCEPT !.files = Put(@, e.p, s.owned[e.fd].h),
                  !.owned = IF e.a = 1 THEN Put(@, e.fd, [k |-> "ctl", h |-> s.owned[e.fd].h]) ELSE @], <<>>)
  ELSE R(s, <<>>)

UnlinkStep(s, e) ==
  IF s.mode = "child" THEN
      IF e.p \in DOMAIN s.files \/ e.res = 0
      THEN R(s, <<V("C08.cleanup_nonlocal", "no unlink in the child", <<"unlink", e.p, e.res>>)>>)
      ELSE R(s, <<V("NOTE.child_unlink_attempt", "", <<e.p, e.err>>)>>)
  ELSE IF e.p \in DOMAIN s.files THEN R([s EXCEPT !.files = Drop(@, {e.p})], <<>>)
  ELSE IF e.a = 1 THEN R(s, <<>>)        \* a stale control socket of the library's own naming is removed before bind
  ELSE R(s, <<V("NOTE.unlink_unowned", "file created by the library", <<e.p, e.res>>)>>)

AlterStep(s, e) ==
  IF e.fd \in s.foreign /\ e.call # "recv" THEN
      R(s, <<V("C08.foreign_ctl", "descriptor created by the library", <<e.call, e.fd, "foreign", e.res, e.err>>)>>)
  ELSE IF s.mode = "child" /\ e.fd \in DOMAIN s.owned /\ e.res >= 0 /\
          (e.call \in {"shutdown", "timerfd_settime", "listen", "connect", "setsockopt"}
           \/ (e.call \in {"send", "recv"} /\ e.res > 0) \/ (e.call = "fcntl_set" /\ e.a = 4)) THEN
      R(s, <<V("C08.cleanup_nonlocal", "only close() on inherited descriptors", <<e.call, e.fd, s.owned[e.fd].k, e.res>>)>>)
  ELSE R(s, <<>>)

\* observation points inside active_fd.c (under its lock, after the change): e.fd = eventfd, e.a = cnt after
AfdCalls == {"afd_new", "afd_get", "afd_put", "afd_close"}
AfdStep(s, e) ==
  LET rp == s.rpool
      known == e.fd \in DOMAIN rp
      room == {f \in DOMAIN rp : rp[f] < PoolMax}
      bad(x, o) == <<V("MODEL.pool", x, <<e.call, e.fd, e.a, o>>)>>
      h == [s EXCEPT !.hooked = TRUE]
  IN CASE e.call = "afd_new" ->
            R([h EXCEPT !.rpool = Put(rp, e.fd, e.a)],
              (IF known \/ e.a # 1 THEN bad("a new eventfd with one user", rp) ELSE <<>>)
              \o (IF room # {} THEN bad("no new eventfd while another has room", rp) ELSE <<>>)
              \o (IF e.fd \notin DOMAIN s.owned \/ s.owned[e.fd].k # "eventfd" THEN bad("eventfd created by the library", "") ELSE <<>>))
       [] e.call = "afd_get" ->
            R([h EXCEPT !.rpool = Put(rp, e.fd, e.a)],
              IF ~known \/ (known /\ rp[e.fd] + 1 # e.a) \/ e.a > PoolMax THEN bad(<<"one user more, at most", PoolMax>>, rp) ELSE <<>>)
       [] e.call = "afd_put" ->
            R([h EXCEPT !.rpool = Put(rp, e.fd, e.a)],
              IF ~known \/ (known /\ rp[e.fd] - 1 # e.a) \/ e.a < 0 THEN bad("one user less", rp) ELSE <<>>)
       [] OTHER ->  \* afd_close
            R([h EXCEPT !.rpool = Drop(rp, {e.fd})],
              (IF ~known \/ (known /\ rp[e.fd] # 0) THEN bad("closed when the last user is gone", rp) ELSE <<>>)
              \o (IF e.fd \in DOMAIN s.owned THEN bad("close(2) seen before", "still open") ELSE <<>>))

SysStep(s0, e) ==
  LET s == IF e.inj = 1 THEN [s0 EXCEPT !.linj = <<e.call, e.err>>] ELSE s0 IN
  IF e.il = 0 THEN HarnessSys(s, e)
  ELSE IF ~s.call.active THEN R(s, <<V("INTERNAL", "a library call in progress", e.call)>>)
  ELSE CASE e.call \in AfdCalls -> AfdStep(s, e)
         [] e.call \in CreateCalls -> CreateStep(s, e)
         [] e.call = "close" -> CloseStep(s, e)
         [] e.call = "epoll_ctl" -> CtlStep(s, e)
         [] e.call = "bind" -> BindStep(s, e)
         [] e.call = "unlink" -> UnlinkStep(s, e)
         [] e.call \in AlterCalls -> AlterStep(s, e)
         [] OTHER -> R(s, <<>>)

\* ---- the eventfd pool as the API history implies it (active_fd.c: first fit in list order) ---------
BellUser(tp, st) == st = "conn" /\ tp \in BellTp

PoolAcquire(s, h, failed) ==
  LET old == {i \in 1..Len(s.pool) : s.pool[i].fd \notin s.call.evc /\ s.pool[i].cnt < PoolMax} IN
  IF old # {} THEN
      LET i == MinS(old) IN
      R([s EXCEPT !.pool[i].cnt = @ + 1, !.holds = Put(@, h, s.pool[i].fd)],
        IF s.call.evc # {} THEN <<V("MODEL.pool", <<"no new eventfd: room in", s.pool[i].fd>>, s.call.evc)>> ELSE <<>>)
  ELSE IF Cardinality(s.call.evc) = 1 THEN
      LET f == CHOOSE x \in s.call.evc : TRUE IN
      R([s EXCEPT !.pool = <<[fd |-> f, cnt |-> 1]>> \o @, !.holds = Put(@, h, f)], <<>>)
  ELSE IF failed /\ s.call.evc = {} THEN R(s, <<>>)    \* the eventfd could not be created: no user
  ELSE R(s, <<V("MODEL.pool", "exactly one new eventfd", s.call.evc)>>)

PoolRelease(s, h) ==
  IF h \notin DOMAIN s.holds THEN R(s, <<>>)
  ELSE LET f == s.holds[h]
           I == {i \in 1..Len(s.pool) : s.pool[i].fd = f}
       IN IF I = {} THEN R([s EXCEPT !.holds = Drop(@, {h})], <<>>)
          ELSE LET i == MinS(I)
                   c == s.pool[i].cnt - 1
                   closed == f \in s.call.clo
               IN IF c <= 0
                  THEN R([s EXCEPT !.holds = Drop(@, {h}),
                                   !.pool = SubSeq(@, 1, i - 1) \o SubSeq(@, i + 1, Len(@))],
                         IF closed THEN <<>> ELSE <<V("MODEL.pool", <<"eventfd closed with its last user", f>>, "still open")>>)
                  ELSE R([s EXCEPT !.holds = Drop(@, {h}), !.pool[i].cnt = c],
                         IF closed THEN <<V("MODEL.pool", <<"eventfd open, users", c>>, <<"closed", f>>)>> ELSE <<>>)

\* bring the pool model back in line with the descriptors that really exist
PoolResync(s) ==
  LET evs == {fd \in DOMAIN s.owned : s.owned[fd].k = "eventfd"}
      keep == SelectSeq(s.pool, LAMBDA en : en.fd \in evs)
      have == {keep[i].fd : i \in 1..Len(keep)}
      RECURSIVE Add(_, _)
      Add(p, S) == IF S = {} THEN p ELSE LET f == MinS(S) IN Add(<<[fd |-> f, cnt |-> 1]>> \o p, S \ {f})
  IN [s EXCEPT !.pool = Add(keep, evs \ have)]

PoolEnd(s, e) ==
  LET creates == e.op \in {"connect", "accept"}
      acq == creates /\ BellUser(e.tp, e.st) /\ s.call.epc
      rel == (creates /\ (e.ret < 0 \/ (e.tp = "utls" /\ e.atp = "ux"))) \/ e.op \in {"close", "cleanup"}
      r1 == IF acq THEN PoolAcquire(s, e.h, e.ret < 0) ELSE R(s, <<>>)
      r2 == IF rel THEN PoolRelease(r1.s, e.h) ELSE R(r1.s, <<>>)
      s3 == PoolResync(r2.s)
      mp == {<<s3.pool[i].fd, s3.pool[i].cnt>> : i \in 1..Len(s3.pool)}
      rp == {<<f, s3.rpool[f]>> : f \in DOMAIN s3.rpool}
  IN R(s3, r1.v \o r2.v \o (IF s3.hooked /\ mp # rp THEN <<V("MODEL.pool", <<"pool implied by the API history", mp>>, rp)>> ELSE <<>>))

\* ---- API call boundaries ------------------------------------------------------------------------
CreateOps == {"connect", "server", "accept"}

BeginStep(s, e) ==
  LET v == (IF s.call.active THEN <<V("INTERNAL", "no call in progress", s.call.op)>> ELSE <<>>)
           \o (IF e.op \in CreateOps /\ e.h \in DOMAIN s.live THEN <<V("INTERNAL", "fresh handle", e.h)>> ELSE <<>>)
  IN R([s EXCEPT !.call = [active |-> TRUE, op |-> e.op, h |-> e.h, tp |-> e.tp, st |-> e.st,
                           epc |-> FALSE, evc |-> {}, clo |-> {}]], v)

EndStep(s, e) ==
  LET mine == OwnedOf(s, e.h)
      myf == FilesOf(s, e.h)
      failedCreate == e.op \in CreateOps /\ e.ret < 0
      closing == e.op \in {"close", "cleanup"}
      what == IF failedCreate THEN <<"failed", e.op, "errno", e.err, "after injected", s.linj>> ELSE <<e.op, "socket", e.h, e.tp>>
      v1 == IF (failedCreate \/ closing) /\ mine # {}
            THEN <<V("C08.leak_fd", <<"no descriptor of the socket left after", what>>, Desc(s, mine))>> ELSE <<>>
      v2 == IF (failedCreate \/ (closing /\ s.mode = "owner")) /\ myf # {}
            THEN <<V("C08.leak_file", <<"no file of the socket left after", what>>, myf)>> ELSE <<>>
      s1 == [s EXCEPT !.live = IF e.op \in CreateOps /\ e.ret >= 0 THEN Put(@, e.h, [tp |-> e.tp, st |-> e.st])
                               ELSE IF closing THEN Drop(@, {e.h}) ELSE @]
      p == PoolEnd(s1, e)
  IN R([p.s EXCEPT !.call = NoCall], v1 \o v2 \o p.v)

\* ---- fork -----------------------------------------------------------------------------------------
ForkStep(s, e) == R([s EXCEPT !.saved = <<[s EXCEPT !.saved = <<>>]>>, !.mode = "child", !.chit = {}], <<>>)

ChildEndStep(s, e) ==
  R(s, (IF e.v1 = 0 THEN <<V("C08.leak_fd", "the child holds no inherited library descriptor after xcm_cleanup on every socket",
                             <<"descriptor table", e.det, Desc(s, DOMAIN s.owned)>>)>> ELSE <<>>)
       \o (IF e.v2 > 0 THEN <<V("C08.leak_heap", <<"child", 0>>, <<e.v2, e.det>>)>> ELSE <<>>))

ChildDoneStep(s, e) ==
  IF s.saved = <<>> THEN R(s, <<V("INTERNAL", "a fork", "childdone")>>)
  ELSE R([s.saved[1] EXCEPT !.chit = s.chit], IF e.v1 # 0 /\ ~s.dead THEN <<V("INTERNAL", "child exit 0", e.v1)>> ELSE <<>>)

ProbeStep(s, e) ==
  CASE e.call = "after_fork" ->
         R(s, IF e.v1 = 0 \/ e.v2 = 1 \/ e.v3 = 0
              THEN <<V("C08.cleanup_nonlocal", <<"owner: traffic", 1, "peer saw close", 0, "files kept", 1>>,
                       <<e.v1, e.v2, e.v3, "child touched", s.chit, e.det>>)>> ELSE <<>>)
    [] e.call = "ctl_after_fork" ->
         R(s, IF (e.v1 = 0 \/ e.v2 = 0) /\ "epoll_ctl" \in s.chit
              THEN <<V("C08.cleanup_nonlocal", <<"control session of the owner: woken", 1, "served", 1>>,
                       <<e.v1, e.v2, "after epoll_ctl by the child on the inherited epoll instance">>)>>
              ELSE IF e.v1 = 0 \/ e.v2 = 0 THEN <<V("NOTE.ctl_session", <<1, 1>>, <<e.v1, e.v2>>)>> ELSE <<>>)
    [] OTHER -> R(s, IF e.call = "ctl_session" /\ e.v1 = 0 THEN <<V("NOTE.ctl_session", 1, 0)>> ELSE <<>>)

AbortStep(s, e) ==
  R([s EXCEPT !.dead = TRUE, !.call = NoCall],
    IF s.mode = "owner" /\ "epoll_ctl" \in s.chit
    THEN <<V("C08.cleanup_nonlocal", "the owner is unaffected by xcm_cleanup in the child",
             <<"owner aborted in", s.call.op, "after the child's epoll_ctl on the inherited epoll instance">>)>>
    ELSE <<V("C08.abort", <<"NULL/-1 and errno for", s.linj>>, <<"abort in", s.mode, s.call.op, s.call.tp, e.det>>)>>)

FinalStep(s, e) ==
  LET left == DOMAIN s.owned
      v0 == IF DOMAIN s.live # {} THEN <<V("INTERNAL", "every socket closed", DOMAIN s.live)>> ELSE <<>>
      v1 == IF left # {} THEN <<V("C08.leak_fd", "no library descriptor once every socket is closed", <<Desc(s, left), e.det>>)>>
            ELSE IF e.v1 = 0 THEN <<V("C08.leak_fd", "descriptor table as before", e.det)>> ELSE <<>>
      v2 == IF DOMAIN s.files # {} \/ e.v3 > 0
            THEN <<V("C08.leak_file", "no socket file once every socket is closed", <<DOMAIN s.files, e.v3, e.det>>)>> ELSE <<>>
      v3 == IF e.v2 > 0 THEN <<V("C08.leak_heap", 0, <<e.v2, e.det>>)>> ELSE <<>>
  IN R(s, v0 \o v1 \o v2 \o v3)

Step(s, e) ==
  CASE e.ev = "reset" -> R(MS0, <<>>)
    [] s.dead /\ e.ev # "childdone" -> R(s, <<V("INTERNAL", "nothing after an abort", e.ev)>>)
    [] e.ev = "sys" -> SysStep(s, e)
    [] e.ev = "begin" -> BeginStep(s, e)
    [] e.ev = "end" -> EndStep(s, e)
    [] e.ev = "fork" -> ForkStep(s, e)
    [] e.ev = "childend" -> ChildEndStep(s, e)
    [] e.ev = "childdone" -> ChildDoneStep(s, e)
    [] e.ev = "probe" -> ProbeStep(s, e)
    [] e.ev = "abort" -> AbortStep(s, e)
    [] e.ev = "final" -> FinalStep(s, e)
    [] e.ev = "hang" -> R([s EXCEPT !.dead = TRUE], <<V("HANG", "a result", e.det)>>)
    [] OTHER -> R(s, <<V("INTERNAL", "known event", e.ev)>>)

Tags(vs) == {vs[i][1] : i \in 1..Len(vs)}
\* remarks: the model sees something the property statement does not settle
NoteTags == {"NOTE.close_other_socket", "NOTE.close_unknown", "NOTE.close_ebadf", "NOTE.epoll_del_after_close",
             "NOTE.child_epoll_ctl", "NOTE.child_unlink_attempt", "NOTE.unlink_unowned", "NOTE.ctl_session"}

\* ==================================================================================================
\* Part 2: design model
\* ==================================================================================================
VARIABLES ms,       \* monitor state
          viol,     \* tags the monitor raised
          g         \* the modelled library and application

E0 == [ev |-> "", m |-> "owner", op |-> "", h |-> 0, tp |-> "", st |-> "", blk |-> 0, ret |-> 0, err |-> 0, atp |-> "",
       call |-> "", il |-> 0, fd |-> -1, fd2 |-> -1, a |-> 0, res |-> 0, cls |-> 0, inj |-> 0, p |-> "", v1 |-> 0, v2 |-> 0,
       v3 |-> 0, det |-> "", x |-> 0, n |-> 0]
Sys(call, fd, fd2, a, res, err, inj, p) ==
  [E0 EXCEPT !.ev = "sys", !.call = call, !.il = 1, !.fd = fd, !.fd2 = fd2, !.a = a, !.res = res, !.err = err, !.inj = inj, !.p = p]

Handles == 1..MaxSock
G0 == [pc |-> "idle",          \* idle | run (inside a create call) | unwind | closing | child
       h |-> 0, op |-> "", lad |-> <<>>,
       acq |-> <<>>,            \* resources acquired by the call in progress: <<kind, fd or path>>
       part |-> 0,              \* utls server: resources acquired before the second sub-socket
       sock |-> EmptyF,         \* handle -> [tp, st, ctl, res: sequence of <<kind, fd/path>>, bell: BOOL]
       afd |-> <<>>,            \* active_fd.c: list of [fd, cnt]
       user |-> EmptyF,         \* handle -> eventfd
       nfail |-> 0, forked |-> FALSE, hfd |-> {}, rc |-> 0, kids |-> {}, bak |-> <<>>, ops |-> 0]

Used(s) == DOMAIN s.owned \cup s.foreign
NextFd(s) == MinS({n \in 0..(Cardinality(Used(s)) + 1) : n \notin Used(s)})

\* what a create call acquires, in order
CtlLad(c) == IF c THEN <<"ctlsock", "ctlbind", "ctllisten">> ELSE <<>>
Ladder(op, tp, c) ==
  CASE op = "connect" /\ tp \in {"ux", "uxf"} -> <<"epoll", "sock", "sockopt", "conn">> \o CtlLad(c)
    [] op = "connect" /\ tp = "tcp" -> <<"epoll", "bell", "sock", "sock", "timer", "conn">> \o CtlLad(c)
    [] op = "connect" /\ tp = "btcp" -> <<"epoll", "bell", "sock", "conn">> \o CtlLad(c)   \* tcp without the second family and timer
    [] op = "server" /\ tp = "btcp" -> <<"epoll", "sock", "bind", "listen">> \o CtlLad(c)
    [] op = "accept" /\ tp = "btcp" -> <<"epoll", "bell", "accept">> \o CtlLad(c)
    [] op = "connect" /\ tp = "utls" -> <<"epoll", "bell", "sock", "sockopt", "conn", "unbell">> \o CtlLad(c)
    [] op = "server" /\ tp = "ux" -> <<"epoll", "sock", "sockopt", "bind", "listen">> \o CtlLad(c)
    [] op = "server" /\ tp = "uxf" -> <<"epoll", "sock", "sockopt", "bindf", "listen">> \o CtlLad(c)
    [] op = "server" /\ tp = "tcp" -> <<"epoll", "sock", "bind", "listen">> \o CtlLad(c)
    [] op = "server" /\ tp = "utls" -> <<"epoll", "sock", "bind", "listen", "part", "sock", "sockopt", "bind", "listen">> \o CtlLad(c)
    [] op = "accept" /\ tp \in {"ux", "uxf"} -> <<"epoll", "accept">> \o CtlLad(c)
    [] op = "accept" /\ tp = "tcp" -> <<"epoll", "bell", "accept">> \o CtlLad(c)
    [] op = "accept" /\ tp = "utls" -> <<"epoll", "bell", "accept", "unbell">> \o CtlLad(c)
    \* TLS: the credentials are read from files (ctx_store.c / ut_load_file: fopen, fread until short, fclose) before the
    \* TCP connection is made; a file that opens but cannot be read (EISDIR, EIO) fails the call like one that does not open
    [] op = "connect" /\ tp = "btls" -> <<"epoll", "bell", "credopen", "credread", "credclose", "credopen", "credread", "credclose",
                                          "sock", "conn">> \o CtlLad(c)
    [] op = "server" /\ tp = "btls" -> <<"epoll", "credopen", "credread", "credclose", "sock", "bind", "listen">> \o CtlLad(c)
    [] OTHER -> <<>>

Path(h, k) == IF k = "ctl" THEN <<"ctl", h>> ELSE <<"uxf", h>>

\* one monitor step
Feed(e) ==
  LET r == Step(ms, e) IN
  /\ ms' = r.s
  /\ viol' = viol \cup (Tags(r.v) \ NoteTags)

Init == ms = MS0 /\ viol = {} /\ g = G0

\* ---- application -------------------------------------------------------------------------------
AppOpen ==
  /\ App /\ g.pc = "idle" /\ ~g.forked /\ Cardinality(g.hfd) < 1
  /\ LET fd == NextFd(ms) IN
     /\ Feed([E0 EXCEPT !.ev = "sys", !.call = "hopen", !.res = fd])
     /\ g' = [g EXCEPT !.hfd = @ \cup {fd}]

AppClose ==
  /\ g.pc = "idle" /\ ~g.forked
  /\ \E fd \in g.hfd :
     /\ Feed([E0 EXCEPT !.ev = "sys", !.call = "close", !.fd = fd])
     /\ g' = [g EXCEPT !.hfd = @ \ {fd}]

ApiBegin ==
  /\ g.pc = "idle" /\ ~g.forked
  /\ Handles \ DOMAIN g.sock # {} /\ g.ops < MaxOps
  /\ \E op \in {"connect", "server", "accept"}, tp \in TPs, c \in CtlChoice : LET h == MinS(Handles \ DOMAIN g.sock) IN
     /\ Ladder(op, tp, c) # <<>>
     /\ op = "accept" => \E hs \in DOMAIN g.sock : g.sock[hs].st = "server" /\ g.sock[hs].tp = tp
     /\ Feed([E0 EXCEPT !.ev = "begin", !.op = op, !.h = h, !.tp = tp, !.st = IF op = "server" THEN "server" ELSE "conn"])
     /\ g' = [g EXCEPT !.pc = "run", !.ops = @ + 1, !.h = h, !.op = op, !.lad = Ladder(op, tp, c), !.acq = <<>>, !.part = 0,
                       !.sock = Put(@, h, [tp |-> tp, st |-> IF op = "server" THEN "server" ELSE "conn", ctl |-> c,
                                           res |-> <<>>, bell |-> FALSE])]

\* active_fd_get / active_fd_put of active_fd.c
AfdFree == {i \in 1..Len(g.afd) : g.afd[i].cnt < PoolMax}

\* failable steps; a failing control-interface step is silent: the call goes on without control socket
Failable == {"epoll", "sock", "timer", "accept", "ctlsock", "bell", "sockopt", "conn", "listen", "ctllisten", "bind", "bindf", "ctlbind",
             "credopen", "credread"}
CallOf(k) == CASE k = "epoll" -> "epoll_create1" [] k = "timer" -> "timerfd_create" [] k = "accept" -> "accept4"
               [] k = "bell" -> "eventfd" [] k = "sockopt" -> "setsockopt" [] k = "conn" -> "connect"
               [] k \in {"listen", "ctllisten"} -> "listen" [] k \in {"bind", "bindf", "ctlbind"} -> "bind"
               [] k = "credopen" -> "open" [] k = "credread" -> "fread" [] OTHER -> "socket"

LastSock(acq) == LET I == {i \in 1..Len(acq) : acq[i][1] \in {"sock", "ctlsock", "accept"}} IN
                 IF I = {} THEN -1 ELSE acq[CHOOSE i \in I : \A j \in I : j <= i][2]

StepOk ==
  /\ g.pc = "run" /\ g.lad # <<>>
  /\ LET k == Head(g.lad)
         fd == NextFd(ms)
         h == g.h
         rest == Tail(g.lad)
     IN
     CASE k \in {"epoll", "sock", "timer", "accept", "ctlsock"} ->
            LET call == CASE k = "epoll" -> "epoll_create1" [] k = "timer" -> "timerfd_create" [] k = "accept" -> "accept4"
                          [] OTHER -> "socket"
                lfd == IF k = "accept" THEN (CHOOSE f \in DOMAIN ms.owned : ms.owned[f].k = "sock" /\ ms.owned[f].h # h) ELSE -1
            IN /\ Feed(Sys(call, lfd, -1, 0, fd, 0, 0, ""))
               /\ g' = [g EXCEPT !.lad = rest, !.acq = Append(@, <<k, fd>>)]
       [] k = "bell" ->
            IF AfdFree # {} THEN
               LET i == MinS(AfdFree) IN
               /\ UNCHANGED <<ms, viol>>
               /\ g' = [g EXCEPT !.lad = rest, !.afd[i].cnt = @ + 1, !.user = Put(@, h, g.afd[i].fd), !.acq = Append(@, <<"bell", 0>>)]
            ELSE
               /\ Feed(Sys("eventfd", -1, -1, 0, fd, 0, 0, ""))
               /\ g' = [g EXCEPT !.lad = rest, !.afd = <<[fd |-> fd, cnt |-> 1]>> \o @, !.user = Put(@, h, fd),
                                 !.acq = Append(@, <<"bell", 0>>)]
       [] k \in {"sockopt", "conn", "listen", "ctllisten", "bind"} ->
            /\ Feed(Sys(CallOf(k), LastSock(g.acq), -1, 0, 0, 0, 0, ""))
            /\ g' = [g EXCEPT !.lad = rest]
       [] k \in {"bindf", "ctlbind"} ->
            LET s == LastSock(g.acq)
                p == Path(h, IF k = "ctlbind" THEN "ctl" ELSE "uxf")
            IN /\ Feed(Sys("bind", s, -1, IF k = "ctlbind" THEN 1 ELSE 2, 0, 0, 0, p))
               /\ g' = [g EXCEPT !.lad = rest, !.acq = Append(@, <<"file", p>>)]
       [] k = "credopen" ->
            /\ Feed(Sys("open", -1, -1, 0, fd, 0, 0, ""))
            /\ g' = [g EXCEPT !.lad = rest, !.acq = Append(@, <<"cfile", fd>>)]
       [] k = "credread" ->
            /\ Feed(Sys("fread", g.acq[Len(g.acq)][2], -1, 0, 1, 0, 0, ""))
            /\ g' = [g EXCEPT !.lad = rest]
       [] k = "credclose" ->      \* the stream is closed as soon as the file has been read: last acquired, first released
            /\ Feed(Sys("close", g.acq[Len(g.acq)][2], -1, 0, 0, 0, 0, ""))
            /\ g' = [g EXCEPT !.lad = rest, !.acq = SubSeq(@, 1, Len(@) - 1)]
       [] k = "part" -> /\ UNCHANGED <<ms, viol>> /\ g' = [g EXCEPT !.lad = rest, !.part = Len(g.acq)]
       [] k = "unbell" -> \* utls: the connection went over the UX socket, the TLS sub-socket is closed
            /\ UNCHANGED <<ms, viol>>
            /\ g' = [g EXCEPT !.lad = rest, !.acq = Append(@, <<"unbell", 0>>)]
       [] OTHER -> FALSE

StepFail ==
  /\ g.pc = "run" /\ g.lad # <<>> /\ g.nfail < MaxFail
  /\ LET k == Head(g.lad) IN
     /\ k \in Failable
     /\ k = "bell" => AfdFree = {}
     /\ Feed(Sys(CallOf(k), -1, -1, 0, -1, 24, 0, ""))
     /\ IF k = "bell" /\ "eventfd_abort" \in Dev THEN g' = [g EXCEPT !.pc = "abort", !.nfail = @ + 1]
        ELSE IF k \in {"ctlsock", "ctlbind", "ctllisten"}
        THEN g' = [g EXCEPT !.pc = "ctlundo", !.lad = <<>>, !.nfail = @ + 1]
        ELSE g' = [g EXCEPT !.pc = "unwind", !.lad = <<>>, !.nfail = @ + 1,
                            !.acq = IF k = "sockopt" /\ "passcred_leak" \in Dev THEN SubSeq(@, 1, Len(@) - 1)
                                    \* a read error takes the exit that does not close the stream
                                    ELSE IF k = "credread" /\ "credread_leak" \in Dev THEN SubSeq(@, 1, Len(@) - 1)
                                    ELSE IF "utls_ux_fail_leak" \in Dev /\ g.part > 0 THEN SubSeq(@, g.part + 1, Len(@))
                                    ELSE @]

Abort ==
  /\ g.pc = "abort"
  /\ Feed([E0 EXCEPT !.ev = "abort"])
  /\ g' = [g EXCEPT !.pc = "dead"]

\* release of one resource (last acquired first); bells go through active_fd_put
ReleaseBell(h) ==
  LET f == g.user[h]
      i == CHOOSE j \in 1..Len(g.afd) : g.afd[j].fd = f
  IN IF g.afd[i].cnt = 1
     THEN /\ Feed(Sys("close", f, -1, 0, 0, 0, 0, ""))
          /\ g' = [g EXCEPT !.afd = SubSeq(@, 1, i - 1) \o SubSeq(@, i + 1, Len(@)), !.user = Drop(@, {h}),
                            !.acq = SubSeq(@, 1, Len(@) - 1)]
     ELSE /\ UNCHANGED <<ms, viol>>
          /\ g' = [g EXCEPT !.afd[i].cnt = @ - 1, !.user = Drop(@, {h}), !.acq = SubSeq(@, 1, Len(@) - 1)]

ReleaseLast(unlinkFiles) ==
  LET r == g.acq[Len(g.acq)] IN
  CASE r[1] = "bell" -> IF g.h \in DOMAIN g.user THEN ReleaseBell(g.h)
                        ELSE /\ UNCHANGED <<ms, viol>> /\ g' = [g EXCEPT !.acq = SubSeq(@, 1, Len(@) - 1)]
    [] r[1] = "unbell" -> /\ UNCHANGED <<ms, viol>> /\ g' = [g EXCEPT !.acq = SubSeq(@, 1, Len(@) - 1)]
    [] r[1] = "file" -> /\ IF unlinkFiles THEN Feed(Sys("unlink", -1, -1, IF r[2][1] = "ctl" THEN 1 ELSE 2, 0, 0, 0, r[2]))
                           ELSE UNCHANGED <<ms, viol>>
                        /\ g' = [g EXCEPT !.acq = SubSeq(@, 1, Len(@) - 1)]
    [] OTHER -> /\ Feed(Sys("close", r[2], -1, 0, 0, 0, 0, ""))
                /\ g' = [g EXCEPT !.acq = SubSeq(@, 1, Len(@) - 1)]

Unwind ==
  /\ g.pc = "unwind"
  /\ IF g.acq # <<>> THEN ReleaseLast(TRUE)
     ELSE /\ Feed([E0 EXCEPT !.ev = "end", !.op = g.op, !.h = g.h, !.tp = g.sock[g.h].tp, !.st = g.sock[g.h].st,
                             !.ret = -1, !.err = 24])
          /\ g' = [g EXCEPT !.pc = "idle", !.sock = Drop(@, {g.h}), !.h = 0, !.op = ""]

\* a control socket that could not be set up is undone alone
CtlUndo ==
  /\ g.pc = "ctlundo"
  /\ IF g.acq # <<>> /\ g.acq[Len(g.acq)][1] \in {"ctlsock", "file"} /\
        (g.acq[Len(g.acq)][1] # "file" \/ g.acq[Len(g.acq)][2][1] = "ctl")
     THEN ReleaseLast(TRUE)
     ELSE /\ UNCHANGED <<ms, viol>> /\ g' = [g EXCEPT !.pc = "run"]

\* utls: the release of the TLS sub-socket's bell when the UX path won
Held(acq) == SelectSeq(acq, LAMBDA r : r[1] \notin {"unbell"})
ApiEndOk ==
  /\ g.pc = "run" /\ g.lad = <<>>
  /\ LET h == g.h
         unb == \E i \in 1..Len(g.acq) : g.acq[i][1] = "unbell"
     IN IF unb /\ h \in DOMAIN g.user THEN
           \* active_fd_put for the closed TLS sub-socket, still inside the call
           LET f == g.user[h]
               i == CHOOSE j \in 1..Len(g.afd) : g.afd[j].fd = f
           IN IF g.afd[i].cnt = 1
              THEN /\ Feed(Sys("close", f, -1, 0, 0, 0, 0, ""))
                   /\ g' = [g EXCEPT !.afd = SubSeq(@, 1, i - 1) \o SubSeq(@, i + 1, Len(@)), !.user = Drop(@, {h})]
              ELSE /\ UNCHANGED <<ms, viol>>
                   /\ g' = [g EXCEPT !.afd[i].cnt = @ - 1, !.user = Drop(@, {h})]
        ELSE
           /\ Feed([E0 EXCEPT !.ev = "end", !.op = g.op, !.h = h, !.tp = g.sock[h].tp, !.st = g.sock[h].st, !.ret = 0,
                              !.atp = IF unb THEN "ux" ELSE g.sock[h].tp])
           /\ g' = [g EXCEPT !.pc = "idle", !.sock[h].res = SelectSeq(g.acq, LAMBDA r : r[1] \notin {"unbell", "bell"}),
                             !.acq = <<>>, !.h = 0, !.op = ""]

\* xcm_finish on an established tcp connection: tconnect_destroy closes the other family's socket and the timer
Finish ==
  /\ g.pc = "idle" /\ ~g.forked
  /\ \E h \in DOMAIN g.sock :
     /\ g.sock[h].tp = "tcp" /\ g.sock[h].st = "conn"
     /\ \E i \in 1..Len(g.sock[h].res) : g.sock[h].res[i][1] = "timer"
     /\ Feed([E0 EXCEPT !.ev = "begin", !.op = "finish", !.h = h, !.tp = "tcp", !.st = "conn"])
     /\ g' = [g EXCEPT !.pc = "finishing", !.h = h]

Finishing ==
  /\ g.pc = "finishing"
  /\ LET h == g.h
         res == g.sock[h].res
         T == {i \in 1..Len(res) : res[i][1] = "timer"}
         S == {i \in 1..Len(res) : res[i][1] = "sock"}
     IN IF T # {} THEN
           LET i == MinS(T) IN
           /\ Feed(Sys("close", res[i][2], -1, 0, 0, 0, 0, ""))
           /\ g' = [g EXCEPT !.sock[h].res = SubSeq(res, 1, i - 1) \o SubSeq(res, i + 1, Len(res))]
        ELSE IF Cardinality(S) > 1 THEN
           LET i == MinS(S) IN
           /\ Feed(Sys("close", res[i][2], -1, 0, 0, 0, 0, ""))
           /\ g' = [g EXCEPT !.sock[h].res = SubSeq(res, 1, i - 1) \o SubSeq(res, i + 1, Len(res))]
        ELSE /\ Feed([E0 EXCEPT !.ev = "end", !.op = "finish", !.h = h, !.tp = "tcp", !.st = "conn"])
             /\ g' = [g EXCEPT !.pc = "idle", !.h = 0]

CloseBegin ==
  /\ g.pc = "idle"
  /\ \E h \in DOMAIN g.sock :
     /\ g.forked => h \in g.kids
     /\ Feed([E0 EXCEPT !.ev = "begin", !.op = IF g.forked THEN "cleanup" ELSE "close", !.h = h, !.tp = g.sock[h].tp, !.st = g.sock[h].st])
     /\ g' = [g EXCEPT !.pc = "closing", !.h = h, !.op = IF g.forked THEN "cleanup" ELSE "close",
                       !.acq = g.sock[h].res \o (IF h \in DOMAIN g.user THEN <<<<"bell", 0>>>> ELSE <<>>)]

Closing ==
  /\ g.pc = "closing"
  /\ IF g.acq # <<>> THEN
        IF g.forked /\ "child_ctl_del" \in Dev /\ g.acq[Len(g.acq)][1] = "ctlsock" /\ g.rc = 0
        THEN \* ctl.c remove_client ignores 'owner'
             /\ Feed(Sys("epoll_ctl", (CHOOSE f \in DOMAIN ms.owned : ms.owned[f].k = "epoll" /\ ms.owned[f].h = g.h), g.acq[Len(g.acq)][2],
                         2, 0, 0, 0, ""))
             /\ g' = [g EXCEPT !.rc = 1]
        ELSE ReleaseLast(~g.forked) /\ TRUE
     ELSE /\ Feed([E0 EXCEPT !.ev = "end", !.op = g.op, !.h = g.h, !.tp = g.sock[g.h].tp, !.st = g.sock[g.h].st])
          /\ g' = [g EXCEPT !.pc = "idle", !.sock = IF g.forked THEN @ ELSE Drop(@, {g.h}), !.kids = @ \ {g.h}, !.h = 0, !.op = ""]

\* fork: the child (a copy) cleans up every socket; afterwards the owner's state is what it was
Fork ==
  /\ g.pc = "idle" /\ ~g.forked /\ DOMAIN g.sock # {} /\ g.rc = 0
  /\ Feed([E0 EXCEPT !.ev = "fork"])
  /\ g' = [g EXCEPT !.forked = TRUE, !.kids = DOMAIN g.sock, !.bak = <<g.afd, g.user>>]

ChildDone ==
  /\ g.pc = "idle" /\ g.forked /\ g.kids = {}
  /\ Feed([E0 EXCEPT !.ev = "childdone"])
  /\ g' = [g EXCEPT !.forked = FALSE, !.afd = g.bak[1], !.user = g.bak[2], !.bak = <<>>, !.rc = 2]

OwnerProbe ==
  /\ g.pc = "idle" /\ g.rc = 2
  /\ Feed([E0 EXCEPT !.ev = "probe", !.call = "ctl_after_fork", !.v1 = IF "epoll_ctl" \in ms.chit THEN 0 ELSE 1, !.v2 = 1])
  /\ g' = [g EXCEPT !.rc = 3]

Next == AppOpen \/ AppClose \/ ApiBegin \/ StepOk \/ StepFail \/ Abort \/ Unwind \/ CtlUndo \/ ApiEndOk \/ Finish \/ Finishing
        \/ CloseBegin \/ Closing \/ Fork \/ ChildDone \/ OwnerProbe

Spec == Init /\ [][Next]_<<ms, viol, g>>

\* ---- properties ---------------------------------------------------------------------------------
NoStrayClose == "C08.stray_close" \notin viol
NoForeignCtl == "C08.foreign_ctl" \notin viol
FailedCallLeaksNothing == "C08.leak_fd" \notin viol /\ "C08.leak_file" \notin viol
ErrnoNotAbort == "C08.abort" \notin viol
CleanupIsLocal == "C08.cleanup_nonlocal" \notin viol
MonitorAgrees == viol = {}          \* includes MODEL.* : the monitor's expectation of the pool is the design's
Quiet == g.pc = "idle"
PoolRefcount ==
  /\ \A i \in 1..Len(g.afd) : /\ g.afd[i].cnt >= 1 /\ g.afd[i].cnt <= PoolMax
                              /\ g.afd[i].cnt = Cardinality({h \in DOMAIN g.user : g.user[h] = g.afd[i].fd})
                              /\ g.afd[i].fd \in DOMAIN ms.owned /\ ms.owned[g.afd[i].fd].k = "eventfd"
  /\ Quiet => /\ {fd \in DOMAIN ms.owned : ms.owned[fd].k = "eventfd"} = {g.afd[i].fd : i \in 1..Len(g.afd)}
              /\ ms.pool = g.afd /\ ms.holds = g.user
AllClosedClean == (Quiet /\ DOMAIN g.sock = {} /\ ~g.forked) => (DOMAIN ms.owned = {} /\ DOMAIN ms.files = {})
ForeignUntouched == g.hfd \subseteq ms.foreign
=============================================================================
