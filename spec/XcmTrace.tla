------------------------------ MODULE XcmTrace ------------------------------
(***************************************************************************)
(* Trace specification: validates executions recorded by harness/conn_exec *)
(* against the operators of XcmCore.  Monitor style: every input of every  *)
(* action is in the log, so the specification is deterministic; it         *)
(* consumes one line per step, computes the expected observables from its  *)
(* own state and compares.  Two parts:                                     *)
(*   history part - predicates on the logged API history alone (always on) *)
(*   model part   - expected results from the model (off for the rest of   *)
(*                  an execution after a MODEL-MISMATCH)                   *)
(* Mismatches are printed as  @V <x> <n> <tag> <expected> <observed>.      *)
(***************************************************************************)
EXTENDS XcmCore, Json, IOUtils

CONSTANT Dev      \* named deviations of the code from the intended design that
                  \* the model follows: subset of {"zl_eof", "ux_full_count", "ux_no_sticky"}

Trace == ndJsonDeserialize(IOEnv.TRACE)
NL == Len(Trace)

VARIABLES l,        \* next line
          tp, raw,  \* transport and mode of the current execution
          eps,      \* <<ep1, ep2>> model state
          frames,   \* <<f1, f2>>: lengths (header values) of the frames each end started
          nrcv,     \* <<n1, n2>>: frames completely received by each end
          hist,     \* <<h1, h2>>: history monitor state per endpoint
          mm,       \* model part switched off for this execution
          nv        \* number of mismatches reported so far (whole batch)

vars == <<l, tp, raw, eps, frames, nrcv, hist, mm, nv>>

NewHist == [eof |-> FALSE, pipe |-> FALSE, wref |-> FALSE, taint |-> FALSE, err |-> 0, nok |-> 0, pc |-> ZeroCnt, refused |-> FALSE]

TcpBased(t) == t \in {"tcp", "tls", "btcp", "btls"}
TlsRecMax == 16384      \* plaintext bytes per TLS record
Other(e) == 3 - e

Init == /\ l = 1 /\ tp = "none" /\ raw = FALSE
        /\ eps = <<NewEp("none", "model"), NewEp("none", "model")>>
        /\ frames = <<<<>>, <<>>>> /\ nrcv = <<0, 0>>
        /\ hist = <<NewHist, NewHist>> /\ mm = FALSE /\ nv = 0

\* ---- reporting -----------------------------------------------------------
\* a list of [c |-> condition that must hold, t |-> tag, x |-> expected, o |-> observed]
Chk(c, t, x, o) == [c |-> c, t |-> t, x |-> x, o |-> o]
Failed(cs) == SelectSeq(cs, LAMBDA r : ~r.c)
Report(ln, cs) ==
  LET f == Failed(cs) IN
  IF f = <<>> THEN TRUE
  ELSE \A i \in 1..Len(f) : PrintT(<<"@V", ln.x, ln.n, f[i].t, f[i].x, f[i].o>>)

IsMM(cs) == \E i \in 1..Len(cs) : ~cs[i].c /\ cs[i].t = "MM"

\* ---- credits from the log ------------------------------------------------
\* k = <<wu, wt, ru, rt, rlast>> kernel level; lg = <<wu, wt, ru, rt, frc, ferr, n>> L1 level
Cred(ln, e) ==
  LET s == IF eps[e].l1m = "logged" THEN ln.lg ELSE ln.k IN
  [wc |-> IF s[2] = 0 /\ ~Stream(tp) THEN INF ELSE s[1], werr |-> IF s[2] = 0 THEN EAGAIN ELSE s[2],
   rc |-> s[3], rterm |-> IF s[4] = 0 THEN EAGAIN ELSE s[4],
   wu |-> s[1], ru |-> s[3]]

NextHdr(e) == LET i == nrcv[e] + 1 IN
              IF i <= Len(frames[Other(e)]) THEN frames[Other(e)][i] ELSE 0

ZL == IF "zl_eof" \in Dev THEN "eof" ELSE "eproto"
TR == IF "ux_full_count" \in Dev THEN "full" ELSE "min"

\* ---- history part: predicates on the logged history only -----------------
ConnErr(err) == err \notin {0, EAGAIN, EMSGSIZE, EINVAL, 4}   \* 4 = EINTR: an interrupted blocking call

HistChecks(ln, e) ==
  LET h == hist[e]
      c == ln.c[e]
      isS == ln.op = "s"
      isR == ln.op = "r"
      isF == ln.op = "f"
      okS == isS /\ ln.ret >= 0
      okR == isR /\ ln.ret > 0
      msgT == ~Stream(tp)
  IN
  <<
   \* C02: once the sender has flushed (xcm_finish = 0 after its last send) and closed gracefully, the stream the receiver has
   \* obtained when it sees the end is the whole accepted stream (gl: accepted bytes that never came; -1: not applicable)
   Chk(~(isR /\ Stream(tp)) \/ ln.gl <= 0, "C02.lost_at_close", 0, ln.gl),
   \* C06: ... and that end is reported as the peer's close (0), not as a failure of the connection
   Chk(~(isR /\ Stream(tp) /\ ln.gl >= 0) \/ ln.ret = 0, "C06.close_as_error", 0, ln.err),
   \* C06 / C01: the end of the stream is shown only when the peer has closed (pcl = -1: a raw peer, not judged here); a 0
   \* from xcm_receive while the peer is still there ends the delivery of what the peer goes on sending
   Chk(~(ln.op \in {"r", "br1"} /\ ln.ret = 0 /\ ln.cap > 0 /\ ln.pcl = 0), "C06.spurious_eof", "peer still open", ln.pcl),
   Chk(~(ln.op \in {"r", "br1"} /\ ln.ret = 0 /\ ln.cap > 0 /\ ln.pcl = 0 /\ msgT), "C01.spurious_eof", "peer still open", ln.pcl),
   Chk(~(ln.op \in {"r", "br1"} /\ ln.ret = 0 /\ ln.cap > 0 /\ ln.pcl = 0 /\ ~msgT), "C02.spurious_eof", "peer still open", ln.pcl),
   \* C05: no waiting primitive inside a call on a non-blocking socket
   Chk(ln.w = 0, "C05.wait", 0, ln.w),
   \* C16: one stable descriptor, only ever readable
   Chk(ln.fdc[1] = 0 /\ ln.fdc[2] = 0, "C16.fd_changed", 0, ln.fdc),
   Chk(\A i \in 1..2 : ln.rd[i] \in {-1, 0, 1}, "C16.writable", 0, ln.rd),
   \* C17: monotone, ordered
   Chk(\A i \in 1..8 : c[i] = -1 \/ c[i] >= h.pc[i], "C17.decrease", h.pc, c),
   Chk(c[1] = -1 \/ (c[2] >= c[3] /\ c[4] >= c[1] /\ c[6] >= c[7] /\ c[8] >= c[5]), "C17.order", 0, c),
   \* C17/C03: a send refused without connection failure counts nothing
   Chk(~(isS /\ ln.ret = -1 /\ ln.err \in {EAGAIN, EMSGSIZE, EINVAL}) \/ (c[2] = h.pc[2] /\ c[6] = h.pc[6]),
       "C03.trace", h.pc, c),
   \* C17: a successful send counts exactly what was accepted
   Chk(~(okS /\ msgT) \/ (c[2] = h.pc[2] + ln.len /\ c[6] = h.pc[6] + 1), "C17.from_app", h.pc[2] + ln.len, c),
   Chk(~(okS /\ Stream(tp)) \/ c[2] = h.pc[2] + ln.ret, "C17.from_app", h.pc[2] + (IF isS THEN ln.ret ELSE 0), c),
   \* C17: a receive counts what was really delivered
   Chk(~okR \/ (c[1] = h.pc[1] + ln.ret /\ (Stream(tp) \/ c[5] = h.pc[5] + 1)) \/ ("ux_full_count" \in Dev /\ Seq1(tp)),
       "C17.to_app", h.pc[1] + (IF isR THEN ln.ret ELSE 0), c),
   Chk(~(isR /\ ln.ret <= 0) \/ (c[1] = h.pc[1] /\ c[5] = h.pc[5]), "C17.to_app", h.pc, c),
   \* C01 / C02: content, order, truncation
   \* ok: 1 intact, 0 altered, 2 altered and the unexpected bytes are those of a send that was refused with
   \* EAGAIN (history class "refused_bytes"), 3 not judged any more after a classified mismatch
   Chk(~okR \/ ln.ok \in {1, 3, 4}, IF Stream(tp) THEN "C02.content" ELSE "C01.content",
       IF ln.ok = 2 THEN "refused_bytes" ELSE "intact", ln.ok),
   \* ok = 4: the message is one whose xcm_send returned -1 (C03: a failed send is never delivered)
   Chk(~okR \/ ln.ok # 4, "C03.delivered_failed", 1, ln.ok),
   Chk(~okR \/ ln.ret <= ln.cap, IF Stream(tp) THEN "C02.range" ELSE "C01.trunc", ln.cap, ln.ret),
   Chk(~(okR /\ msgT /\ ln.ok = 1) \/ ln.mi = h.nok + 1, "C01.order", h.nok + 1, IF isR THEN ln.mi ELSE 0),
   Chk(~(okR /\ msgT /\ ln.ok = 1 /\ ~raw) \/ ln.ret = Min(ln.fl, ln.cap), "C01.len", 0, IF isR THEN ln.ret ELSE 0),
   Chk(~(isS /\ Stream(tp) /\ ln.len > 0) \/ ln.ret = -1 \/ (ln.ret >= 1 /\ ln.ret <= ln.len), "C02.range", ln.len, ln.ret),
   \* C02 (btls): a send that reports EAGAIN may leave at most ONE partly written TLS record behind (OpenSSL's captured
   \* record, the recorded finding btls_capture); complete records of the refused buffer on the wire are bytes of a
   \* failed call in the stream
   \* (judged only when no record was captured before this call: what OpenSSL does when a captured record is retried with
   \* another buffer belongs to the recorded finding)
   Chk(~(isS /\ tp = "btls" /\ ln.ret = -1 /\ ln.err = EAGAIN /\ ~h.wref) \/ ln.k[1] <= TlsRecMax + 512, "C02.refused_written", TlsRecMax + 512, ln.k[1]),
   \* ... and a send that failed has left a trace beyond that (C03)
   Chk(~(isS /\ tp = "btls" /\ ln.ret = -1 /\ ln.err = EAGAIN /\ ~h.wref) \/ ln.k[1] <= TlsRecMax + 512, "C03.refused_written", TlsRecMax + 512, ln.k[1]),
   \* C07: never an oversized or empty delivery
   Chk(~(isR /\ msgT) \/ ln.ret <= MaxMsg, "C07.oversize", MaxMsg, ln.ret),
   \* C06: terminal conditions stick
   Chk(~(h.eof /\ isR) \/ ln.ret = 0 \/ ("ux_no_sticky" \in Dev /\ Seq1(tp)), "C06.sticky", 0, ln.ret),
   Chk(~((h.eof \/ h.pipe) /\ isS /\ (ln.len > 0 \/ ~Stream(tp))) \/ (ln.ret = -1 /\ (ln.err = EPIPE \/ ln.err \in {EMSGSIZE, EINVAL})),
       "C06.sticky", EPIPE, IF isS THEN ln.err ELSE 0),
   Chk(~(h.err # 0 /\ (isS \/ isR)) \/ ln.ret = -1 \/ (isS /\ Stream(tp) /\ ln.len = 0) \/ ("ux_no_sticky" \in Dev /\ Seq1(tp)),
       "C06.sticky", -1, ln.ret),
   Chk(~(h.err # 0 /\ TcpBased(tp) /\ (isS \/ isR \/ isF) /\ ln.ret = -1) \/ ln.err = h.err \/ ln.err \in {EMSGSIZE, EINVAL},
       "C06.errno", h.err, ln.err)
  >>

HistNext(ln, e) ==
  LET h == hist[e]
      c == ln.c[e]
  IN [h EXCEPT
        !.pc = IF c[1] = -1 THEN @ ELSE c,
        !.nok = IF ln.op = "r" /\ ln.ret > 0 THEN @ + 1 ELSE @,
        !.eof = @ \/ (ln.op = "r" /\ ln.ret = 0 /\ ln.cap > 0),
        !.refused = (ln.op = "s" /\ ln.ret = -1 /\ ln.err \in {EAGAIN, EMSGSIZE, EINVAL}),
        \* wref: the last stream send was refused (EAGAIN); taint: a refused send was followed by different data
        \* (a zero-length send does not reach OpenSSL: a record captured before it is still captured after it)
        !.wref = IF ln.op = "s" /\ ln.len > 0 THEN (ln.ret = -1 /\ ln.err = EAGAIN) ELSE @,
        !.taint = @ \/ (ln.op = "s" /\ h.wref /\ ln.rty = 0),
        !.pipe = @ \/ (ln.op \in {"s", "f"} /\ ln.ret = -1 /\ ln.err = EPIPE),
        !.err = IF @ = 0 /\ ln.op \in {"s", "r", "f"} /\ ln.ret = -1 /\ ConnErr(ln.err)
                   /\ ~(ln.op \in {"s", "f"} /\ ln.err = EPIPE)
                THEN ln.err ELSE @]

\* counters of the endpoint that did not act must not move
IdleChecks(ln, e) ==
  LET o == Other(e) IN
  <<Chk(ln.c[o][1] = -1 \/ ln.c[o] = hist[o].pc, "C17.idle_changed", hist[o].pc, ln.c[o])>>

\* ---- model part ------------------------------------------------------------
\* expected readiness of both descriptors from the model state after the step
ReadyChecks(ln, neweps) ==
  LET refusedNow == ln.op = "s" /\ ln.ret = -1 /\ ln.err \in {EAGAIN, EMSGSIZE, EINVAL}
      \* (on the TLS transports a refused send legitimately changes what OpenSSL waits for, hence the registration)
      rtag(i) == IF refusedNow /\ i = ln.e /\ neweps[i].l1m # "logged" THEN "C03.trace" ELSE "MM"
      one(i) ==
        IF ln.rd[i] = -1 \/ ln.kr[i] = -1 \/ (neweps[i].l1m = "logged" /\ ~neweps[i].rk) THEN <<>>
        ELSE LET exp == Readable(neweps[i], ln.kr[i])
                 obs == ln.rd[i] = 1
                 quiet == neweps[1].sbuf = 0 /\ neweps[2].sbuf = 0 /\ ln.av[i] = 0
             IN <<Chk(~exp \/ obs, "C04.lost_wakeup", 1, ln.rd[i]),
                  Chk(exp \/ ~obs \/ ~quiet, "C16.spin", 0, ln.rd[i]),
                  Chk(exp \/ ~obs \/ quiet, "MM", 0, ln.rd[i]),
                  \* registration itself (conformance of update())
                  Chk(ln.em[i] = neweps[i].mask \/ neweps[i].bell, rtag(i), neweps[i].mask, ln.em[i]),
                  Chk((ln.bl[i] = 1) = neweps[i].bell, rtag(i), neweps[i].bell, ln.bl[i])>>
  IN one(1) \o one(2)

RetChecks(ln, res, tagRet) ==
  <<Chk(res.ret = ln.ret, tagRet, res.ret, ln.ret),
    Chk(res.ret # ln.ret \/ ln.ret >= 0 \/ res.err = ln.err, tagRet, res.err, ln.err)>>

\* C06: a protocol error is a terminal condition like the others: the call that discovers it, and every call after it, fails with
\* EPROTO - it is not reported as the peer's orderly close (0 / EPIPE) or as anything else
ProtoChecks(ln, res) ==
  <<Chk(~(res.ret = -1 /\ res.err = EPROTO) \/ (ln.ret = -1 /\ ln.err = EPROTO), "C06.proto_errno", EPROTO, <<ln.ret, ln.err>>)>>

\* from_app is "don't care" when the send failed together with the connection
CntChecks(ln, e, res, dcFromApp) ==
  LET c == ln.c[e]
      m == res.ep.cnt
      n == IF Stream(tp) THEN 4 ELSE 8
  IN <<Chk(\A i \in 1..n : c[i] = m[i] \/ (dcFromApp /\ i \in {2, 6}), "C17.value", m, c)>>

\* a flush that moves a different number of bytes than the model right after a
\* refused send: the refused call left a trace in the buffered state (C03)
UTag(e) == IF hist[e].refused THEN "C03.trace" ELSE "MM"

\* how the model's lower layer came to be closed when a receive reports end-of-stream with data left
Via(e, newep, cr) == IF eps[e].l1 = "closed" \/ (newep.l1 = "closed" /\ cr.werr = EPIPE) THEN "epipe" ELSE "other"

\* ---- the step ----------------------------------------------------------------
Reset(ln) ==
  /\ tp' = (IF ln.tp = "utlst" THEN "tls" ELSE IF ln.tp = "utls" THEN "ux" ELSE ln.tp)
  /\ raw' = (ln.mode = "raw")
  /\ LET t == IF ln.tp = "utlst" THEN "tls" ELSE IF ln.tp = "utls" THEN "ux" ELSE ln.tp
         m == IF t \in {"tls", "btls"} THEN "logged" ELSE "model"
     IN eps' = <<NewEp(t, m), NewEp(t, m)>>
  /\ frames' = <<<<>>, <<>>>> /\ nrcv' = <<0, 0>>
  /\ hist' = <<NewHist, NewHist>>
  \* btls (OpenSSL's record layer between the API and the kernel) has no model part: history part only
  /\ mm' = (ln.up = 0 \/ ln.tp = "btls")
  /\ nv' = nv

Keep == UNCHANGED <<tp, raw>>

\* TLS: what the SSL_read / SSL_write calls of this API call left behind (process_ssl_event), then btls' update
SslNext(ln, ep) ==
  IF ln.ssl[1] = 0 THEN ep
  ELSE LET c == IF ln.ssl[2] = 1 THEN RECEIVABLE ELSE SENDABLE IN
       IF ln.ssl[3] = 2 THEN [ep EXCEPT !.sc = c, !.sw = RECEIVABLE]
       ELSE IF ln.ssl[3] = 3 THEN [ep EXCEPT !.sc = c, !.sw = SENDABLE]
       ELSE [ep EXCEPT !.sc = 0, !.sw = 0]
Upd(ln, ep) ==
  IF ep.l1m = "logged"
  THEN LET e1 == [SslNext(ln, ep) EXCEPT !.ck = @ \/ ln.op = "a", !.sk = @ \/ ln.ssl[1] > 0] IN
       IF ln.ssl[4] = -1 \/ ~e1.ck \/ ~e1.sk THEN [e1 EXCEPT !.rk = FALSE]
       ELSE UpdateTls([e1 EXCEPT !.rk = TRUE], ln.ssl[4] = 1)
  ELSE Update(ep)

\* after a blocking-mode call the SSL state is not logged: readiness of a TLS endpoint is not predicted until its next call
UpdB(ep) == IF ep.l1m = "logged" THEN [ep EXCEPT !.rk = FALSE, !.ck = FALSE, !.sk = FALSE] ELSE Update(ep)

\* apply a model result; cs = checks of the model part for this step
Apply(ln, e, newep, newframes, newnrcv, hcs, mcs) ==
  LET ne == [eps EXCEPT ![e] = Upd(ln, newep)]
      all == hcs \o (IF mm THEN <<>> ELSE mcs \o ReadyChecks(ln, ne))
      bad == IsMM(all) \/ \E i \in 1..Len(all) : ~all[i].c /\ all[i].t # "MM" /\ i > Len(hcs)
  IN /\ Report(ln, all)
     /\ eps' = ne
     /\ frames' = newframes
     /\ nrcv' = newnrcv
     /\ hist' = [hist EXCEPT ![e] = HistNext(ln, e)]
     /\ mm' = (mm \/ bad)
     /\ nv' = nv + Len(Failed(all))
     /\ Keep

StepSend(ln) ==
  LET e == ln.e
      cr == Cred(ln, e)
      hcs == HistChecks(ln, e) \o IdleChecks(ln, e)
  IN
  IF Framing(tp) THEN
    LET res == TcpSend(eps[e], ln.len, cr.wc, cr.werr)
        nf == IF res.started THEN [frames EXCEPT ![e] = Append(@, ln.len)] ELSE frames
        tag == IF res.ret = -1 /\ res.err \in {EMSGSIZE, EINVAL} THEN "C03.size"
               ELSE IF eps[e].bad \/ eps[e].l1 # "ready" THEN "C06.sticky"
               ELSE IF res.ret = -1 /\ ConnErr(res.err) THEN "C06.errno"
               ELSE "MM"
    IN Apply(ln, e, res.ep, nf, nrcv, hcs,
             RetChecks(ln, res, tag) \o ProtoChecks(ln, res) \o <<Chk(res.used = cr.wu, UTag(e), res.used, cr.wu)>>
             \o CntChecks(ln, e, res, res.started /\ res.ret = -1))
  ELSE IF Stream(tp) THEN
    LET res == BtcpSend(eps[e], ln.len, cr.wc, cr.werr)
        tag == IF eps[e].l1 # "ready" THEN "C06.sticky"
               ELSE IF res.ret = -1 /\ ConnErr(res.err) THEN "C06.errno" ELSE "C02.range"
    IN Apply(ln, e, res.ep, frames, nrcv, hcs,
             RetChecks(ln, res, tag) \o <<Chk(res.used = cr.wu, UTag(e), res.used, cr.wu)>>
             \o CntChecks(ln, e, res, FALSE))
  ELSE
    LET res == UxSend(eps[e], ln.len, cr.wc, cr.werr)
        nf == IF res.ret = 0 THEN [frames EXCEPT ![e] = Append(@, ln.len)] ELSE frames
        tag == IF res.ret = -1 /\ res.err \in {EMSGSIZE, EINVAL} THEN "C03.size"
               ELSE IF res.ret = -1 /\ ConnErr(res.err) THEN "C06.errno" ELSE "MM"
    IN Apply(ln, e, res.ep, nf, nrcv, hcs,
             RetChecks(ln, res, tag) \o <<Chk(res.used = cr.wu, UTag(e), res.used, cr.wu)>>
             \o CntChecks(ln, e, res, FALSE))

StepReceive(ln) ==
  LET e == ln.e
      cr == Cred(ln, e)
      hcs == HistChecks(ln, e) \o IdleChecks(ln, e)
  IN
  IF Framing(tp) THEN
    LET h == NextHdr(e)
        res == TcpReceive(eps[e], ln.cap, cr.wc, cr.werr, cr.rc, cr.rterm, h, ZL)
        nn == IF res.delivered THEN [nrcv EXCEPT ![e] = @ + 1] ELSE nrcv
        tag == IF eps[e].bad THEN "C07.eproto"
               ELSE IF eps[e].l1 # "ready" THEN "C06.sticky"
               ELSE IF res.ret = -1 /\ res.err = EPROTO THEN "C07.eproto"
               ELSE IF res.ret = -1 /\ ConnErr(res.err) THEN "C06.errno"
               ELSE IF res.ret = 0 THEN "C06.drain"
               ELSE IF res.delivered THEN "C01.count"
               ELSE IF ln.ret > 0 THEN "C06.partial_delivered"
               ELSE "MM"
    IN Apply(ln, e, res.ep, frames, nn, hcs,
             RetChecks(ln, res, tag) \o ProtoChecks(ln, res)
             \o <<Chk(res.wused = cr.wu, UTag(e), res.wused, cr.wu),
                  Chk(res.rused = cr.ru, "MM", res.rused, cr.ru),
                  \* C06: end-of-stream is reported only after every complete message that had arrived
                  \* (kernel byte counts say nothing about plaintext under TLS: model mode only)
                  Chk(~(eps[e].l1m = "model" /\ ln.ret = 0 /\ h \in 1..MaxMsg /\ ln.av[e] >= 0 /\ res.ep.rbuf + ln.av[e] >= HdrLen + h),
                      "C06.drain", Via(e, res.ep, cr), ln.av[e])>>
             \o CntChecks(ln, e, res, FALSE))
  ELSE IF Stream(tp) THEN
    LET res == BtcpReceive(eps[e], ln.cap, cr.rc, cr.rterm)
        tag == IF eps[e].l1 # "ready" THEN "C06.sticky"
               ELSE IF res.ret = -1 /\ ConnErr(res.err) THEN "C06.errno"
               ELSE IF res.ret = 0 THEN "C06.drain" ELSE "C02.prefix"
    IN Apply(ln, e, res.ep, frames, nrcv, hcs,
             RetChecks(ln, res, tag) \o <<Chk(res.used = cr.ru, "MM", res.used, cr.ru),
                  Chk(~(tp = "btcp" /\ ln.ret = 0 /\ ln.av[e] > 0), "C06.drain", Via(e, res.ep, cr), ln.av[e])>>
             \o CntChecks(ln, e, res, FALSE))
  ELSE
    LET L == IF cr.ru >= 1 THEN ln.k[5] ELSE 0
        \* the counters are owed the length of the datagram the peer's send accepted, not what recv(2) chose to report
        \* (without MSG_TRUNC a truncating receive reports the buffer size): C17
        Lm == IF cr.ru >= 1 /\ NextHdr(e) > 0 THEN NextHdr(e) ELSE L
        res == UxReceive(eps[e], ln.cap, cr.rc, cr.rterm, Lm, TR)
        nn == IF res.ret > 0 THEN [nrcv EXCEPT ![e] = @ + 1] ELSE nrcv
        tag == IF res.ret = -1 /\ ConnErr(res.err) THEN "C06.errno"
               ELSE IF res.ret = 0 THEN "C06.drain" ELSE "C01.count"
    IN Apply(ln, e, res.ep, frames, nn, hcs,
             RetChecks(ln, res, tag)
             \o <<Chk(res.used = cr.ru, "MM", res.used, cr.ru),
                  \* the datagram handed over is the next one the peer's send accepted
                  Chk(cr.ru = 0 \/ L = NextHdr(e), "C01.len", NextHdr(e), L)>>
             \o CntChecks(ln, e, res, FALSE))

StepFinish(ln) ==
  LET e == ln.e
      cr == Cred(ln, e)
      hcs == HistChecks(ln, e) \o IdleChecks(ln, e)
      res == IF Framing(tp) THEN TcpFinish(eps[e], cr.wc, cr.werr, [rc |-> ln.lg[5], e |-> ln.lg[6]])
             ELSE IF Stream(tp) THEN BtcpFinish(eps[e]) ELSE UxFinish(eps[e])
      tag == IF eps[e].bad \/ eps[e].l1 # "ready" THEN "C06.sticky"
             ELSE IF res.ret = -1 /\ ConnErr(res.err) THEN "C06.errno"
             \* C03 ("... provided the sender lets the socket finish its outstanding work"): xcm_finish says 0 although,
             \* by the bytes the lower layer took in every call so far, part of an accepted frame is still in the send buffer
             ELSE IF Framing(tp) /\ ln.ret = 0 /\ res.ret = -1 /\ res.err = EAGAIN /\ res.ep.sbuf > 0 /\ res.used = cr.wu
                  THEN "C03.finish_early"
             ELSE "MM"
  IN Apply(ln, e, res.ep, frames, nrcv, hcs,
           RetChecks(ln, res, tag) \o ProtoChecks(ln, res) \o <<Chk(res.used = cr.wu, UTag(e), res.used, cr.wu)>>
           \o CntChecks(ln, e, res, FALSE))

StepAwait(ln) ==
  LET e == ln.e
      hcs == HistChecks(ln, e) \o IdleChecks(ln, e)
      ok == ln.cond \in 0..3
      newep == IF ok THEN [eps[e] EXCEPT !.cond = ln.cond] ELSE eps[e]
      res == [ep |-> newep, ret |-> IF ok THEN 0 ELSE -1, err |-> IF ok THEN 0 ELSE EINVAL]
  IN Apply(ln, e, newep, frames, nrcv, hcs, RetChecks(ln, res, "MM") \o CntChecks(ln, e, res, FALSE))

\* close, raw write, probe: no API result; observe readiness of what is left
StepEnv(ln) ==
  LET cs == IF mm THEN <<>> ELSE ReadyChecks(ln, eps)
      hc == <<Chk(ln.fdc[1] = 0 /\ ln.fdc[2] = 0, "C16.fd_changed", 0, ln.fdc),
              Chk(\A i \in 1..2 : ln.c[i][1] = -1 \/ ln.c[i] = hist[i].pc, "C17.idle_changed", 0, ln.c)>>
            \o (IF ln.op = "c" THEN <<Chk(ln.w = 0, "C05.wait", 0, ln.w)>> ELSE <<>>)
      all == hc \o cs
  IN /\ Report(ln, all)
     /\ mm' = (mm \/ IsMM(all))
     /\ nv' = nv + Len(Failed(all))
     /\ UNCHANGED <<eps, nrcv, hist>>
     /\ frames' = (IF ln.op = "Wh" THEN [frames EXCEPT ![2] = Append(@, ln.len)] ELSE frames)
     /\ Keep

\* end of an event-loop run (harness command L): two applications that trust nothing but poll(xcm_fd) have
\* run until their goals were met or until both descriptors stayed quiet (stk = 1).  C04: if the run got
\* stuck while both ends were alive and something was still owed - a message accepted but not delivered,
\* a send still wanted, a close not yet seen - a wake-up was lost.
StepQuiesce(ln) ==
  LET cs == IF mm THEN <<>> ELSE ReadyChecks(ln, eps)
      both == ln.alive[1] = 1 /\ ln.alive[2] = 1
      owedData == both /\ (ln.und[1] + ln.und[2] + ln.td[1] + ln.td[2] > 0)
      owedClose == \E e \in 1..2 : ln.clsd[e] = 1 /\ ln.alive[Other(e)] = 1 /\ ln.eofs[Other(e)] = 0
      hc == <<Chk(ln.fdc[1] = 0 /\ ln.fdc[2] = 0, "C16.fd_changed", 0, ln.fdc),
              Chk(~(ln.stk = 1 /\ owedData), "C04.lost_wakeup", <<"und", ln.und, "todo", ln.td>>, ln.cnd),
              Chk(~(ln.stk = 1 /\ owedClose), "C04.lost_wakeup", <<"close", ln.clsd>>, ln.eofs)>>
      all == hc \o cs
  IN /\ Report(ln, all)
     /\ mm' = (mm \/ IsMM(all))
     /\ nv' = nv + Len(Failed(all))
     /\ UNCHANGED <<eps, nrcv, hist, frames>>
     /\ Keep

StepCrash(ln) ==
  /\ PrintT(<<"@V", ln.x, ln.n, "CRASH", 0, ln.why>>)
  /\ nv' = nv + 1
  /\ mm' = TRUE
  /\ UNCHANGED <<eps, frames, nrcv, hist>> /\ Keep

\* after a blocking call the awaited condition is whatever its last internal wait left behind: it is
\* not logged, so it is inferred from the registration observed (em), as the guidance allows for unlogged variables
CondFromEm(ep, em) ==
  IF em < 0 \/ (ep.l1 # "ready" /\ ~Seq1(ep.tp)) THEN ep
  ELSE [ep EXCEPT !.cond = (IF HasBit(em, EPIN) THEN RECEIVABLE ELSE 0) +
                            (IF HasBit(em, EPOUT) /\ ep.sbuf = 0 THEN SENDABLE ELSE 0)]

\* ---- blocking-mode calls (xcm_send / xcm_receive on a blocking socket, run in a helper thread) -------
\* They are validated as one big step: the loop of transport calls and waits in xcm.c must have the
\* same net effect as a single call under the accumulated credits.  bs0 / br0 mark the start (the
\* frame of a blocking send occupies the wire layout from then on), bs1 / br1 carry the result.
EINTR == 4

StepBlkSend0(ln) ==
  LET e == ln.e
      nf == IF ~Stream(tp) /\ ln.len \in 1..MaxMsg THEN [frames EXCEPT ![e] = Append(@, ln.len)] ELSE frames
  IN /\ frames' = nf
     /\ UNCHANGED <<eps, nrcv, hist, mm, nv>> /\ Keep

StepBlkSend1(ln) ==
  LET e == ln.e
      ls == [ln EXCEPT !.op = IF ln.rty = 1 THEN "f" ELSE "s"]
      hcs == IF ln.ret = -2 THEN <<>> ELSE HistChecks(ls, e) \o IdleChecks(ln, e)
      sizeErr == ln.ret = -1 /\ ln.err \in {EMSGSIZE, EINVAL}
      okret == IF Stream(tp) THEN ln.len ELSE 0
      \* xcm_set_blocking(true) first finishes outstanding work (socket_finish): the pending frame is flushed
      ep0 == IF Framing(tp) /\ ~eps[e].bad THEN Flush(eps[e], INF, EAGAIN).ep ELSE eps[e]
      res == IF Framing(tp) THEN TcpSend(ep0, ln.len, IF sizeErr THEN 0 ELSE INF, EAGAIN)
             ELSE IF Stream(tp) THEN BtcpSend(eps[e], ln.len, INF, EAGAIN) @@ [started |-> FALSE]
             ELSE UxSend(eps[e], ln.len, 1, EAGAIN) @@ [started |-> FALSE]
      judged == ln.rty = 0 /\ ((ln.ret = okret /\ (ln.len > 0 \/ Stream(tp))) \/ sizeErr)
      mcs == IF judged
             THEN RetChecks(ln, res, IF sizeErr THEN "C03.size" ELSE "MM") \o CntChecks(ln, e, res, FALSE)
             ELSE <<>>
      \* mi = 1 on a failed blocking send: the peer had already been handed this very message
      \* C01: an interrupted blocking send that reports failure (EINTR) has not accepted the message: by the library's own
      \* account (from_app_msgs) nothing was taken from the application, so nothing of it will reach the peer
      took == ~Stream(tp) /\ ln.rty = 0 /\ ln.ret = -1 /\ ln.err = EINTR /\ ln.c[e][1] # -1 /\ hist[e].pc[1] # -1
              /\ ln.c[e][6] > hist[e].pc[6]
      \* (byte stream: mi = 1 says that the peer had read bytes of this buffer while the call was in progress;
      \* a call that then reports -1 has put bytes of a failed call into the stream, C02 as well as C03)
      all == hcs \o <<Chk(~(ln.ret = -1 /\ ln.mi = 1), "C03.delivered_failed", 0, ln.mi),
                      Chk(~(Stream(tp) /\ ln.ret = -1 /\ ln.mi = 1), "C02.failed_in_stream", 0, ln.mi),
                      Chk(~took, "C01.failed_accepted", <<"from_app_msgs", hist[e].pc[6]>>, ln.c[e][6])>>
             \o (IF mm THEN <<>> ELSE mcs)
  IN /\ Report(ln, all)
     /\ eps' = [eps EXCEPT ![e] = IF judged /\ ~mm THEN UpdB(CondFromEm(res.ep, ln.em[e])) ELSE @]
     /\ hist' = [hist EXCEPT ![e] = IF ln.ret = -2 THEN @ ELSE HistNext(ls, e)]
     \* a blocking send that failed with the connection, was interrupted or hung: the model part stops here
     /\ mm' = (mm \/ ~judged \/ IsMM(all) \/ \E i \in 1..Len(all) : ~all[i].c /\ i > Len(hcs) + 3)
     /\ nv' = nv + Len(Failed(all))
     /\ UNCHANGED <<frames, nrcv>> /\ Keep

StepBlkRecv1(ln) ==
  LET e == ln.e
      \* (rty = 1: xcm_set_blocking itself failed, a finish-like call; the receive was never made)
      lr == [ln EXCEPT !.op = IF ln.rty = 1 THEN "f" ELSE "r"]
      hcs == IF ln.ret = -2 THEN <<>> ELSE HistChecks(lr, e) \o IdleChecks(ln, e)
      cr == Cred(ln, e)
      h == NextHdr(e)
      intr == ln.ret = -1 /\ ln.err = EINTR
      \* (the flush of the pending frame by xcm_set_blocking(true) and by the receive itself share the credit)
      \* the loop in xcm_receive may take several transport calls: a short read (EAGAIN from the framing
      \* layer itself) followed by the terminal answer of the lower layer is two of them
      rt2 == IF intr THEN EAGAIN ELSE cr.rterm
      Rcv(ep, rc, rt) ==
             IF Framing(tp) THEN TcpReceive(ep, ln.cap, cr.wc, cr.werr, rc, rt, h, ZL)
             ELSE IF Stream(tp)
             THEN LET b == BtcpReceive(ep, ln.cap, rc, rt)
                  IN [ep |-> b.ep, ret |-> b.ret, err |-> b.err, wused |-> 0, rused |-> b.used, delivered |-> b.ret > 0]
             ELSE LET u == UxReceive(ep, ln.cap, rc, rt, IF cr.ru >= 1 THEN ln.k[5] ELSE 0, TR)
                  IN [ep |-> u.ep, ret |-> u.ret, err |-> u.err, wused |-> 0, rused |-> u.used, delivered |-> u.ret > 0]
      p1 == Rcv(eps[e], cr.rc, EAGAIN)
      res == IF p1.ret = -1 /\ p1.err = EAGAIN /\ rt2 # EAGAIN THEN Rcv(p1.ep, cr.rc - p1.rused, rt2) ELSE p1
      nn == IF res.delivered /\ ~Stream(tp) THEN [nrcv EXCEPT ![e] = @ + 1] ELSE nrcv
      \* hung although a complete message / byte is there for it (C04: blocking calls return)
      owed == IF Framing(tp) THEN eps[e].l1m = "model" /\ h \in 1..MaxMsg /\ ln.av[e] >= 0 /\ eps[e].rbuf + ln.av[e] >= HdrLen + h
              ELSE ln.av[e] > 0
      mcs == IF ln.ret = -2 THEN <<Chk(~owed, "C04.blocked", 0, ln.av[e])>>
             ELSE IF intr \/ ln.rty = 1 THEN <<>>
             ELSE RetChecks(ln, res, IF res.delivered THEN "C01.count" ELSE IF res.ret = 0 THEN "C06.drain" ELSE "MM")
                  \o CntChecks(ln, e, res, FALSE)
      all == hcs \o (IF mm THEN <<>> ELSE mcs)
  IN /\ Report(ln, all)
     /\ eps' = [eps EXCEPT ![e] = IF ln.ret = -2 \/ mm THEN @ ELSE UpdB(CondFromEm(res.ep, ln.em[e]))]
     /\ nrcv' = (IF ln.ret = -2 \/ mm THEN nrcv ELSE nn)
     /\ hist' = [hist EXCEPT ![e] = IF ln.ret = -2 THEN @ ELSE HistNext(lr, e)]
     /\ mm' = (mm \/ ln.ret = -2 \/ ln.rty = 1 \/ IsMM(all) \/ \E i \in 1..Len(all) : ~all[i].c /\ i > Len(hcs))
     /\ nv' = nv + Len(Failed(all))
     /\ UNCHANGED frames /\ Keep

Next ==
  /\ l <= NL
  /\ l' = l + 1
  /\ LET ln == Trace[l] IN
     CASE ln.op = "X" -> Reset(ln)
       [] ln.op = "s" -> StepSend(ln)
       [] ln.op = "r" -> StepReceive(ln)
       [] ln.op = "f" -> StepFinish(ln)
       [] ln.op = "a" -> StepAwait(ln)
       [] ln.op \in {"c", "p", "w", "Wh"} -> StepEnv(ln)
       [] ln.op = "bs0" -> StepBlkSend0(ln)
       [] ln.op = "bs1" -> StepBlkSend1(ln)
       [] ln.op = "br1" -> StepBlkRecv1(ln)
       [] ln.op = "q" -> StepQuiesce(ln)
       [] ln.op = "crash" -> StepCrash(ln)
       [] OTHER -> UNCHANGED <<tp, raw, eps, frames, nrcv, hist, mm, nv>>

Spec == Init /\ [][Next]_vars

\* the whole trace was consumed (a line the specification cannot process stops it early)
Consumed == l = NL + 1
Accepted == TLCGet("stats").diameter = NL + 1
=============================================================================
