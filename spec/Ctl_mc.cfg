\* bounded model check of the design (Dev = {}): every invariant must hold
SPECIFICATION Spec
CONSTANTS
  Sess = {1, 2, 3}
  Kinds = {"get", "key", "all", "bad", "odd"}
  MaxClients = 2
  BacklogCap = 3
  MaxReq = 2
  MaxTotal = 3
  MaxApp = 1
  Dev = {}
VIEW View
INVARIANTS TypeOK BoundedSessions FifoReplies FirstRequestAny KeyNeverDisclosed WellBehavedStay Passive FilesGone SettledServes
PROPERTY PassiveStep
CHECK_DEADLOCK FALSE
