----------------------------- MODULE RelayTrace -----------------------------
(***************************************************************************)
(* Trace specification for C20.  It validates the histories the two        *)
(* applications recorded on either side of the real xcmrelay               *)
(* (harness/relay_exec.c) against the property operators of RelayProps -   *)
(* the operators Relay.tla states its invariants with.  The relay's        *)
(* internals are not logged; the monitor works on the application-level    *)
(* histories only.  One line per step, many executions per run ("rst").    *)
(*                                                                         *)
(* Units are messages (messaging service) or bytes (byte stream); the      *)
(* harness identifies every received unit from its content and             *)
(* run-length encodes consecutive intact units: "rcv" a c = units a ..     *)
(* a+c-1 of the sender's accepted sequence, intact.                        *)
(*                                                                         *)
(* Mismatches: "@V " \o ToJson(<<x, n, tag, detail, expected, observed>>). *)
(* Tags "C20.*" violate the property statement; "NOTE.*" are observations  *)
(* the statement does not settle (e.g. an end shown after an unclean       *)
(* close); "INTERNAL" is a broken log.                                     *)
(***************************************************************************)
EXTENDS Integers, Sequences, TLC, Json, IOUtils, RelayProps

TraceLines == ndJsonDeserialize(IOEnv.TRACE)
NL == Len(TraceLines)
MAXK == 6

VARIABLES l,     \* next line
          cs,    \* per relayed connection of the current execution
          asked, \* the harness asked the relay to stop
          nv,    \* mismatches reported so far
          st     \* statistics of the whole batch (vacuity)
vars == <<l, cs, asked, nv, st>>

NewConn == [up |-> FALSE,
            acc |-> <<0, 0>>,             \* units accepted from application 1 (c), 2 (s)
            got |-> <<0, 0>>,             \* units handed to application 1, 2 (in order)
            open |-> <<TRUE, TRUE>>,      \* the application has not closed
            sfail |-> <<FALSE, FALSE>>,   \* one of its sends / flushes failed with the connection
            term |-> <<FALSE, FALSE>>,    \* it was shown the end on receive
            clean |-> <<FALSE, FALSE>>,   \* it closed after a successful flush ...
            quiet |-> <<FALSE, FALSE>>,   \* ... having read everything the other side had sent (an orderly close)
            oacc |-> <<0, 0>>,            \* what the other side had accepted when it closed
            slack |-> <<0, 0>>]           \* units offered in its latest send call if that was refused
St0 == [x |-> 0, con |-> 0, snd |-> 0, rcv |-> 0, units |-> 0, full |-> 0, endchk |-> 0, endskip |-> 0,
        tmo |-> 0, cls |-> 0, rly |-> 0, late |-> 0]

Init == /\ l = 1 /\ cs = [k \in 1..MAXK |-> NewConn] /\ asked = FALSE /\ nv = 0 /\ st = St0

Other(e) == 3 - e

\* ---- reporting ------------------------------------------------------------------
Chk(c, t, d, x, o) == [c |-> c, t |-> t, d |-> d, x |-> x, o |-> o]
Failed(q) == SelectSeq(q, LAMBDA r : ~r.c)
Report(ln, q) ==
  LET f == Failed(q) IN
  IF f = <<>> THEN TRUE
  ELSE \A i \in 1..Len(f) : PrintT("@V " \o ToJson(<<ln.x, ln.n, f[i].t, f[i].d, f[i].x, f[i].o>>))

Max(a, b) == IF a > b THEN a ELSE b

\* ---- steps ----------------------------------------------------------------------
\* a send step: units a .. a+c-1 were accepted; res "ok" | "again" | "err"
SndChecks(ln, c) ==
  LET e == ln.ep
      o == Other(e)
  IN <<Chk(ln.a = c.acc[e] + 1, "INTERNAL", "snd numbering", c.acc[e] + 1, ln.a),
       \* RelayAlive: a send refused with the connection while neither application has closed
       Chk(ln.res # "err" \/ EndAllowed(c.open[e], c.open[o]), "C20.alive", "send failed",
           "both applications open: the relayed connection stays", <<"errno", ln.err>>)>>
SndNext(ln, c) ==
  LET e == ln.ep IN
  [c EXCEPT !.acc[e] = @ + ln.c, !.sfail[e] = @ \/ ln.res = "err" \/ ln.fin = 2, !.slack[e] = ln.bl]

\* a receive step
RcvChecks(ln, c) ==
  LET e == ln.ep
      o == Other(e)
      g == c.got[e]
      g1 == IF ln.c > 0 THEN Max(g, ln.a + ln.c - 1) ELSE g
      ended == ln.res \in {"eof", "err"}
      \* CloseAfterData applies to an orderly close observed by a healthy receiver
      eligible == /\ ~c.open[o] /\ c.clean[o] /\ c.quiet[o] /\ ~c.sfail[e] /\ ln.fin = 0
      late == c.acc[e] > c.oacc[o]
  IN <<\* Transparent
       Chk(ln.c = 0 \/ InOrder(g, ln.a), OrderTag(g, ln.a), "order", <<"next unit", g + 1>>, <<"unit", ln.a, "run", ln.c>>),
       Chk(ln.c = 0 \/ NotInventedSlack(ln.a - 1, ln.c, c.acc[o], c.slack[o]), "C20.invent", "never accepted",
           <<"accepted", c.acc[o], "refused last", c.slack[o]>>, <<"unit", ln.a, "run", ln.c>>),
       Chk(ln.res # "bad" \/ ln.bad \notin {3, 5}, "C20.corrupt", IF ln.bad = 5 THEN "alien" ELSE "damaged",
           "intact", <<"unit", ln.bi, "len", ln.bl, "full", ln.fl>>),
       Chk(ln.res # "bad" \/ ln.bad # 4, "C20.trunc", "short", <<"len", ln.fl>>, <<"unit", ln.bi, "len", ln.bl>>),
       Chk(ln.res # "bad" \/ ln.bad # 6, "C20.overrun", "buffer", "nothing beyond the capacity", <<"unit", ln.bi>>),
       \* RelayAlive: the end is shown although neither application has closed
       Chk(~ended \/ EndAllowed(c.open[e], c.open[o]), "C20.alive", "end shown",
           "both applications open: the relayed connection stays", <<ln.res, ln.err, "got", g1, "of", c.acc[o]>>),
       \* CloseAfterData
       Chk(~(ended /\ eligible) \/ CloseOKSlack(g1, c.acc[o], c.slack[o]), "C20.close_loss",
           IF late THEN "late_send" ELSE IF c.acc[o] - g1 = 1 /\ ln.str = 0 THEN "last_unit" ELSE "tail",
           <<"all", c.acc[o]>>, <<"got", g1, ln.res, ln.err>>),
       Chk(~(ended /\ ~eligible /\ ~c.open[o]) \/ CloseOKSlack(g1, c.acc[o], c.slack[o]), "NOTE.end_after_unclean_close", "",
           <<"all", c.acc[o]>>, <<"got", g1, "clean", c.clean[o], "quiet", c.quiet[o], "sfail", c.sfail[e], "fin", ln.fin>>),
       \* NoStall: nothing arrived for the generous limit although something is owed, both legs live
       Chk(~(ln.res = "to" /\ Owed(g1, c.acc[o]) /\ ~c.sfail[e] /\ ~c.sfail[o] /\ (c.open[o] \/ c.clean[o])),
           "C20.stall", IF c.open[o] THEN "both open" ELSE "after close",
           <<"unit", g1 + 1, "of", c.acc[o]>>, <<"waited ms", ln.w>>),
       \* after an orderly close the end must eventually be shown
       Chk(~(ln.res = "to" /\ ~Owed(g1, c.acc[o]) /\ ~c.open[o] /\ c.clean[o] /\ ~c.sfail[e]),
           "C20.stall", "end not shown", "eof", <<"waited ms", ln.w>>)>>
RcvNext(ln, c) ==
  LET e == ln.ep
      g == c.got[e]
      g1 == IF ln.c > 0 THEN Max(g, ln.a + ln.c - 1) ELSE g
      g2 == IF ln.res = "bad" THEN Max(g1, ln.bi) ELSE g1
  IN [c EXCEPT !.got[e] = g2, !.term[e] = @ \/ ln.res \in {"eof", "err"}]

ClsNext(ln, c) ==
  LET e == ln.ep
      o == Other(e)
  IN [c EXCEPT !.open[e] = FALSE, !.clean[e] = (ln.fin = 0), !.quiet[e] = ~Owed(c.got[e], c.acc[o]),
               !.oacc[e] = c.acc[o]]

\* relay process status
RlyChecks(ln) ==
  <<Chk(ln.st = 1 \/ ln.res = "stop" \/ asked, "C20.exit", "relay process ended", "running", <<"status", ln.xs, "live", ln.c>>),
    Chk(ln.res # "stop" \/ ln.xs = 0, "NOTE.exit_status", "", 0, ln.xs)>>

Checks(ln) ==
  CASE ln.ev = "snd" -> SndChecks(ln, cs[ln.k])
    [] ln.ev = "rcv" -> RcvChecks(ln, cs[ln.k])
    [] ln.ev = "rly" -> RlyChecks(ln)
    [] ln.ev = "con" -> <<Chk(ln.res = "ok", "C20.accept", "connection through the relay", "established", <<ln.res, ln.err>>)>>
    [] ln.ev \in {"rst", "cls"} -> <<>>
    [] OTHER -> <<Chk(FALSE, "INTERNAL", "event", "known", ln.ev)>>

NextCs(ln) ==
  CASE ln.ev = "rst" -> [k \in 1..MAXK |-> NewConn]
    [] ln.ev = "con" -> IF ln.res = "ok" THEN [cs EXCEPT ![ln.k] = [NewConn EXCEPT !.up = TRUE]] ELSE cs
    [] ln.ev = "snd" -> [cs EXCEPT ![ln.k] = SndNext(ln, @)]
    [] ln.ev = "rcv" -> [cs EXCEPT ![ln.k] = RcvNext(ln, @)]
    [] ln.ev = "cls" -> [cs EXCEPT ![ln.k] = ClsNext(ln, @)]
    [] OTHER -> cs

B(b) == IF b THEN 1 ELSE 0
Count(ln) ==
  LET c == IF ln.k \in 1..MAXK THEN cs[ln.k] ELSE NewConn
      ended == ln.ev = "rcv" /\ ln.res \in {"eof", "err"}
      o == Other(ln.ep)
      elig == ended /\ ~c.open[o] /\ c.clean[o] /\ c.quiet[o] /\ ~c.sfail[ln.ep] /\ ln.fin = 0
  IN [st EXCEPT !.x = @ + B(ln.ev = "rst"), !.con = @ + B(ln.ev = "con" /\ ln.res = "ok"),
                !.snd = @ + B(ln.ev = "snd"), !.rcv = @ + B(ln.ev = "rcv"),
                !.units = @ + (IF ln.ev = "rcv" /\ ln.str = 0 THEN ln.c ELSE 0),
                !.full = @ + B(ln.ev = "snd" /\ ln.res = "again"),
                !.endchk = @ + B(elig), !.endskip = @ + B(ended /\ ~elig /\ ~c.open[o]),
                !.late = @ + B(elig /\ c.acc[ln.ep] > c.oacc[o]),
                !.tmo = @ + B(ln.ev = "rcv" /\ ln.res = "to"), !.cls = @ + B(ln.ev = "cls"),
                !.rly = @ + B(ln.ev = "rly")]

Next ==
  /\ l <= NL
  /\ l' = l + 1
  /\ LET ln == TraceLines[l]
         q == Checks(ln)
     IN /\ Report(ln, q)
        /\ nv' = nv + Len(Failed(q))
        /\ cs' = NextCs(ln)
        /\ asked' = IF ln.ev = "rst" THEN FALSE ELSE (asked \/ (ln.ev = "rly" /\ ln.res = "stop"))
        /\ st' = Count(ln)
        /\ (l < NL \/ PrintT("@STAT " \o ToJson(Count(ln))))

Spec == Init /\ [][Next]_vars

\* the whole trace was consumed (a line the specification cannot process stops it early)
Accepted == TLCGet("stats").diameter = NL + 1
=============================================================================
