--------------------------------- MODULE Xcm ---------------------------------
(***************************************************************************)
(* One XCM connection: two endpoints built from the operators of XcmCore,  *)
(* joined by two kernel pipes, under an adversarial lower layer that may   *)
(* cut every write and every read at any byte, refuse (EAGAIN) at any      *)
(* point and - in the configurations that allow it - fail with an errno.   *)
(* Checked exhaustively for small constants; every transition is also      *)
(* emitted as a replay path for the real library (ghost variable path).    *)
(***************************************************************************)
EXTENDS XcmCore, SequencesExt, Json

CONSTANTS TP,          \* "tcp" | "btcp" | "ux"
          Lens,        \* message / buffer lengths the application offers
          Caps,        \* receive capacities
          MaxSends,    \* sends per endpoint
          MaxRecvs,    \* receive calls per endpoint
          InjErr,      \* errnos the adversary may inject (may be {})
          Conds,       \* conditions the application may await
          EmitPaths,   \* "none" | "state" (one replay path per distinct state) | "transition" (one per transition)
          ZeroLen,     \* "eproto" (design) | "eof" (what the code did before the fix)
          HdrVals,     \* hostile configurations: header values a raw peer (endpoint 2) may write; {} = honest peer
          Senders, Receivers, Closers,  \* which endpoints may send / receive / close (bounds who is addressed)
          PipeErr      \* TRUE: a write after the peer closed may be answered EPIPE (named deviation
                       \* "epipe_closes": the code then stops reading although data may be queued)

E == {1, 2}
P(e) == 3 - e

VARIABLES eps,     \* endpoint state (XcmCore records)
          open,    \* the application has not closed the socket
          frames,  \* frames[e]: <<[len, ok]>> frames e started (wire layout); ok: send returned success
          wr,      \* wire units e has written into its kernel pipe (bytes; messages for ux)
          rdp,     \* wire units e has read from the pipe of its peer
          nrcv,    \* frames completely received by e
          dlv,     \* dlv[e]: <<[idx, ret, cap]>> what e's receive calls delivered
          acc,     \* acc[e]: byte stream: number of bytes accepted; messaging: number of successful sends
          ns, nr,  \* calls made (bounds)
          last,    \* the last API call: [e, op, ret, err, pre, post]
          term,    \* term[e]: first terminal observation [kind, err]
          path     \* ghost: the replay path (not part of the VIEW)

vars == <<eps, open, frames, wr, rdp, nrcv, dlv, acc, ns, nr, last, term, path>>
view == <<eps, open, frames, wr, rdp, nrcv, dlv, acc, ns, nr, last, term>>

Msg == Framing(TP) \/ Seq1(TP)
Avail(e) == wr[P(e)] - rdp[e]
PeerClosed(e) == ~open[P(e)]

NoLast == [e |-> 0, op |-> "none", ret |-> 0, err |-> 0, pre |-> NewEp(TP, "model"), post |-> NewEp(TP, "model"), len |-> 0, cap |-> 0]
NoTerm == [kind |-> "none", err |-> 0]

Init ==
  /\ eps = [e \in E |-> NewEp(TP, "model")]
  /\ open = [e \in E |-> TRUE]
  /\ frames = [e \in E |-> <<>>]
  /\ wr = [e \in E |-> 0] /\ rdp = [e \in E |-> 0] /\ nrcv = [e \in E |-> 0]
  /\ dlv = [e \in E |-> <<>>]
  /\ acc = [e \in E |-> 0]
  /\ ns = [e \in E |-> 0] /\ nr = [e \in E |-> 0]
  /\ last = NoLast
  /\ term = [e \in E |-> NoTerm]
  /\ path = <<>>

\* what the kernel answers once the write credit is exhausted
\* (AF_UNIX: once the peer is gone every write is answered EPIPE)
WErrs(e) == IF Seq1(TP) /\ PeerClosed(e) THEN {EPIPE}
            ELSE {EAGAIN} \cup InjErr \cup (IF PeerClosed(e) /\ PipeErr THEN {EPIPE} ELSE {})
\* what the kernel answers when a read finds nothing (more)
RTerm(e, rc) == IF rc < Avail(e) THEN {EAGAIN} \cup (InjErr \ {EPIPE})
                ELSE IF PeerClosed(e) THEN {EOFMARK} ELSE {EAGAIN} \cup (InjErr \ {EPIPE})

RawWire(f) == HdrLen + Min(f.len, MaxMsg + 2)
SumWire0(fs) == LET RECURSIVE S(_) S(i) == IF i = 0 THEN 0 ELSE RawWire(fs[i]) + S(i - 1) IN S(Len(fs))

HdrOf(e) == LET i == nrcv[e] + 1 IN IF i <= Len(frames[P(e)]) THEN frames[P(e)][i].len ELSE 0

\* a step of the path: script command for harness/conn_exec (credits: -1 = unlimited)
Cut(c, need) == IF c >= need THEN -1 ELSE c
Inj(x) == IF x \in {EAGAIN, EOFMARK} THEN 0 ELSE x

NoteTerm(e, res, op) ==
  IF term[e].kind # "none" THEN term[e]
  ELSE IF op = "r" /\ res.ret = 0 THEN [kind |-> "closed", err |-> 0]
  ELSE IF res.ret = -1 /\ res.err \notin {EAGAIN, EMSGSIZE, EINVAL} /\ ~(op \in {"s", "f"} /\ res.err = EPIPE)
       THEN [kind |-> "bad", err |-> res.err]
  ELSE term[e]

Send(e, len, wc, werr) ==
  /\ open[e] /\ ns[e] < MaxSends
  /\ LET res == IF Framing(TP) THEN TcpSend(eps[e], len, wc, werr)
                ELSE IF Stream(TP) THEN BtcpSend(eps[e], len, wc, werr) @@ [started |-> FALSE]
                ELSE UxSend(eps[e], len, wc, werr) @@ [started |-> FALSE]
         started == IF Framing(TP) THEN res.started ELSE (Seq1(TP) /\ res.ret = 0)
         need == (IF eps[e].sbuf # 0 THEN HdrLen + eps[e].sbuf - eps[e].sent ELSE 0) + HdrLen + len
     IN /\ eps' = [eps EXCEPT ![e] = Update(res.ep)]
        /\ frames' = IF started THEN [frames EXCEPT ![e] = Append(@, [len |-> len, ok |-> res.ret = 0])] ELSE frames
        /\ wr' = [wr EXCEPT ![e] = @ + res.used]
        /\ acc' = [acc EXCEPT ![e] = IF Stream(TP) THEN @ + Max(res.ret, 0) ELSE IF res.ret = 0 THEN @ + 1 ELSE @]
        /\ ns' = [ns EXCEPT ![e] = @ + 1]
        /\ last' = [e |-> e, op |-> "s", ret |-> res.ret, err |-> res.err, pre |-> eps[e], post |-> res.ep, len |-> len, cap |-> 0]
        /\ term' = [term EXCEPT ![e] = NoteTerm(e, res, "s")]
        /\ path' = Append(path, <<"s", e, len, Cut(wc, need), Inj(werr), res.ret, res.err>>)
  /\ UNCHANGED <<open, rdp, nrcv, dlv, nr>>

Receive(e, cap, wc, werr, rc, rterm) ==
  /\ open[e] /\ nr[e] < MaxRecvs
  /\ LET res == IF Framing(TP)
                THEN TcpReceive(eps[e], cap, wc, werr, rc, rterm, HdrOf(e), ZeroLen)
                ELSE IF Stream(TP)
                THEN LET b == BtcpReceive(eps[e], cap, rc, rterm)
                     IN [ep |-> b.ep, ret |-> b.ret, err |-> b.err, wused |-> 0, rused |-> b.used, delivered |-> b.ret > 0]
                ELSE LET u == UxReceive(eps[e], cap, rc, rterm, HdrOf(e), "min")
                     IN [ep |-> u.ep, ret |-> u.ret, err |-> u.err, wused |-> 0, rused |-> u.used, delivered |-> u.ret > 0]
         wneed == IF eps[e].sbuf # 0 THEN HdrLen + eps[e].sbuf - eps[e].sent ELSE 0
     IN /\ eps' = [eps EXCEPT ![e] = Update(res.ep)]
        /\ wr' = [wr EXCEPT ![e] = @ + res.wused]
        /\ rdp' = [rdp EXCEPT ![e] = @ + res.rused]
        /\ nrcv' = [nrcv EXCEPT ![e] = IF res.delivered /\ Msg THEN @ + 1 ELSE @]
        /\ dlv' = [dlv EXCEPT ![e] = IF res.delivered THEN Append(@, [idx |-> nrcv[e] + 1, ret |-> res.ret, cap |-> cap]) ELSE @]
        /\ nr' = [nr EXCEPT ![e] = @ + 1]
        /\ last' = [e |-> e, op |-> "r", ret |-> res.ret, err |-> res.err, pre |-> eps[e], post |-> res.ep, len |-> 0, cap |-> cap]
        /\ term' = [term EXCEPT ![e] = NoteTerm(e, res, "r")]
        /\ path' = Append(path, <<"r", e, cap, IF rc >= Avail(e) THEN -1 ELSE rc, Inj(rterm), Cut(wc, wneed), Inj(werr), res.ret, res.err>>)
  /\ UNCHANGED <<open, frames, acc, ns>>

Finish(e, wc, werr) ==
  /\ open[e]
  /\ LET res == IF Framing(TP) THEN TcpFinish(eps[e], wc, werr, [rc |-> 0, e |-> 0])
                ELSE IF Stream(TP) THEN BtcpFinish(eps[e]) ELSE UxFinish(eps[e])
         wneed == IF eps[e].sbuf # 0 THEN HdrLen + eps[e].sbuf - eps[e].sent ELSE 0
     IN /\ eps' = [eps EXCEPT ![e] = Update(res.ep)]
        /\ wr' = [wr EXCEPT ![e] = @ + res.used]
        /\ last' = [e |-> e, op |-> "f", ret |-> res.ret, err |-> res.err, pre |-> eps[e], post |-> res.ep, len |-> 0, cap |-> 0]
        /\ term' = [term EXCEPT ![e] = NoteTerm(e, res, "f")]
        /\ path' = Append(path, <<"f", e, Cut(wc, wneed), Inj(werr), res.ret, res.err>>)
        \* a finish that changes nothing is not worth a transition
        /\ (res.ep # eps[e] \/ last.op # "f" \/ last.e # e)
  /\ UNCHANGED <<open, frames, rdp, nrcv, dlv, acc, ns, nr>>

Await(e, c) ==
  /\ open[e] /\ eps[e].cond # c
  /\ eps' = [eps EXCEPT ![e] = Update([@ EXCEPT !.cond = c])]
  /\ last' = [e |-> e, op |-> "a", ret |-> 0, err |-> 0, pre |-> eps[e], post |-> eps'[e], len |-> 0, cap |-> 0]
  /\ path' = Append(path, <<"a", e, c>>)
  /\ UNCHANGED <<open, frames, wr, rdp, nrcv, dlv, acc, ns, nr, term>>

Close(e) ==
  /\ open[e]
  /\ open' = [open EXCEPT ![e] = FALSE]
  /\ last' = [NoLast EXCEPT !.e = e, !.op = "c"]
  /\ path' = Append(path, <<"c", e, 0>>)
  /\ UNCHANGED <<eps, frames, wr, rdp, nrcv, dlv, acc, ns, nr, term>>

\* Hostile peer (C07): endpoint 2 is a raw socket.  It starts a frame announcing h and writes k bytes of
\* header + payload (a conforming payload has h bytes; it never writes more than MaxMsg + 2 of them).
\* Once it has left a frame incomplete it writes nothing more.
RawFull(h) == HdrLen + Min(h, MaxMsg + 2)
RawStuck == Len(frames[2]) > 0 /\ wr[2] < SumWire0(frames[2])
RawFrame(h, k) ==
  /\ open[2] /\ ns[2] < MaxSends /\ ~RawStuck
  /\ frames' = [frames EXCEPT ![2] = Append(@, [len |-> h, ok |-> TRUE])]
  /\ wr' = [wr EXCEPT ![2] = @ + k]
  /\ ns' = [ns EXCEPT ![2] = @ + 1]
  /\ last' = [NoLast EXCEPT !.e = 2, !.op = "W"]
  /\ path' = Append(path, <<"W", h, k>>)
  /\ UNCHANGED <<eps, open, rdp, nrcv, dlv, acc, nr, term>>

WNeed(e, len) == (IF eps[e].sbuf # 0 THEN HdrLen + eps[e].sbuf - eps[e].sent ELSE 0) + (IF len > 0 THEN HdrLen + len ELSE 0)
\* credits worth distinguishing: every cut inside a header, just before / at the end, nothing, everything
Cuts(n) == {c \in 0..n : c <= HdrLen + 1 \/ c >= n - 1 \/ c \in {HdrLen + MaxMsg - 1, HdrLen + MaxMsg, HdrLen + MaxMsg + 1}}
WCredits(e, len) == IF Seq1(TP) THEN (IF PeerClosed(e) THEN {0} ELSE {0, 1}) ELSE IF Stream(TP) THEN 0..len ELSE Cuts(WNeed(e, len))
RNeed(e, cap) == IF Seq1(TP) THEN 1
                 ELSE IF Stream(TP) THEN cap
                 ELSE (IF eps[e].rbuf < HdrLen THEN HdrLen - eps[e].rbuf ELSE 0) +
                      (IF nrcv[e] < Len(frames[P(e)]) THEN HdrLen + HdrOf(e) - Max(eps[e].rbuf, HdrLen) ELSE 0)
RCredits(e, cap) == 0..Min(Avail(e), RNeed(e, cap))

Next ==
  \E e \in E :
     \/ e \in Senders /\ \E len \in Lens : \E wc \in WCredits(e, len) : \E werr \in WErrs(e) :
           (wc = WNeed(e, len) => werr = EAGAIN) /\ Send(e, len, wc, werr)
     \/ e \in Receivers /\ \E cap \in Caps : \E wc \in WCredits(e, 0) : \E werr \in WErrs(e) : \E rc \in RCredits(e, cap) : \E rt \in RTerm(e, rc) :
           (wc = WNeed(e, 0) => werr = EAGAIN) /\ Receive(e, cap, wc, werr, rc, rt)
     \/ \E wc \in WCredits(e, 0) : \E werr \in WErrs(e) :
           (wc = WNeed(e, 0) => werr = EAGAIN) /\ Finish(e, wc, werr)
     \/ \E c \in Conds : Await(e, c)
     \/ e \in Closers /\ Close(e)
     \/ e = 2 /\ \E h \in HdrVals : \E k \in Cuts(RawFull(h)) : RawFrame(h, k)

Spec == Init /\ [][Next]_vars

Emit == EmitPaths = "transition" => PrintT(<<"@P", ToJson(path')>>)
EmitState == EmitPaths = "state" => PrintT(<<"@P", ToJson(path)>>)

(***************************************************************************)
(* Properties                                                              *)
(***************************************************************************)
FrameWire(f) == IF Seq1(TP) THEN 1 ELSE IF HdrVals # {} THEN RawWire(f) ELSE HdrLen + f.len
SumWire(fs, n) == LET RECURSIVE S(_) S(i) == IF i = 0 THEN 0 ELSE FrameWire(fs[i]) + S(i - 1) IN S(n)
SumLen(fs, n) == LET RECURSIVE S(_) S(i) == IF i = 0 THEN 0 ELSE fs[i].len + S(i - 1) IN S(n)

\* the wire really carries what the ghost layout says
WireLayout ==
  \A e \in E : Msg =>
    /\ Framing(TP) /\ (HdrVals = {} \/ e = 1) => wr[e] = SumWire(frames[e], Len(frames[e])) -
                        (IF eps[e].sbuf # 0 THEN HdrLen + eps[e].sbuf - eps[e].sent ELSE 0)
    /\ HdrVals # {} /\ e = 2 => wr[e] <= SumWire(frames[e], Len(frames[e]))
    /\ Framing(TP) => rdp[e] = SumWire(frames[P(e)], nrcv[e]) + eps[e].rbuf
    /\ rdp[e] <= wr[P(e)]

\* C01: what the receiver got is, index by index, a prefix of what the peer's successful sends accepted
C01_Prefix ==
  Msg => \A e \in E : \A i \in 1..Len(dlv[e]) :
     /\ dlv[e][i].idx = i
     /\ i <= Len(frames[P(e)])
     /\ frames[P(e)][i].ok
     /\ dlv[e][i].ret = Min(frames[P(e)][i].len, dlv[e][i].cap)

\* C01: never a partial message: a delivery consumes exactly one whole frame
C01_NoPartial ==
  Framing(TP) => \A e \in E : eps[e].rbuf < HdrLen + MaxMsg + 1 /\ (last.op = "r" /\ last.e = e /\ last.ret > 0 => eps[e].rbuf = 0)

\* C02: byte streams: delivered bytes are a prefix of the accepted ones; return value ranges
C02_Prefix == Stream(TP) => \A e \in E : rdp[e] <= acc[P(e)] /\ acc[e] = wr[e]
C02_Range == Stream(TP) =>
   /\ (last.op = "s" /\ last.len > 0 => last.ret = -1 \/ last.ret \in 1..last.len)
   /\ (last.op = "r" => last.ret <= last.cap)

\* C03: a refused send leaves no trace
C03_NoTrace ==
  last.op = "s" /\ last.ret = -1 =>
     /\ last.err \in {EMSGSIZE, EINVAL} => last.post = last.pre
     /\ last.err = EAGAIN => last.post = [last.pre EXCEPT !.sent = last.post.sent] /\ last.post.sent >= last.pre.sent
\* C03: a message whose send failed is never delivered; nothing is delivered twice (C01_Prefix gives idx = i)
C03_FailNotDelivered ==
  Msg => \A e \in E : \A i \in 1..Len(frames[e]) : ~frames[e][i].ok => nrcv[P(e)] < i

\* C06: terminal conditions stick
C06_Sticky ==
  \A e \in E :
    LET t == term[e] IN
    /\ (t.kind = "closed" /\ last.e = e /\ last.op = "r" => last.ret = 0)
    /\ (t.kind = "closed" /\ last.e = e /\ last.op = "s" => (last.ret = -1 /\ last.err \in {EPIPE, EMSGSIZE, EINVAL}) \/ (Stream(TP) /\ last.len = 0))
    /\ (t.kind = "bad" /\ last.e = e /\ last.op \in {"s", "r"} => last.ret = -1 \/ (Stream(TP) /\ last.op = "s" /\ last.len = 0))
    /\ (t.kind = "bad" /\ last.e = e /\ last.op \in {"s", "r", "f"} /\ last.ret = -1 /\ ~Seq1(TP)
           => last.err \in {t.err, EMSGSIZE, EINVAL})
\* C06: a receive reports end-of-stream only after everything complete that had arrived was delivered
C06_DrainFirst ==
  Framing(TP) /\ last.op = "r" /\ last.ret = 0 =>
     LET e == last.e IN ~(nrcv[e] < Len(frames[P(e)]) /\ Avail(e) + last.pre.rbuf >= HdrLen + frames[P(e)][nrcv[e] + 1].len
                           /\ frames[P(e)][nrcv[e] + 1].len \in 1..MaxMsg /\ InjErr = {})

\* C07 (also in the honest configurations): never an empty or oversized delivery, bounded buffering
C07_Bounds ==
  Framing(TP) => /\ \A e \in E : eps[e].rbuf <= HdrLen + MaxMsg
                 /\ (last.op = "r" /\ last.ret > 0 => last.ret <= MaxMsg)

\* C07: exactly the well-formed frames preceding the first malformed one are delivered; afterwards EPROTO for good
FirstBad(fs) == LET bad == {i \in 1..Len(fs) : fs[i].len = 0 \/ fs[i].len > MaxMsg} IN
                IF bad = {} THEN Len(fs) + 1 ELSE CHOOSE i \in bad : \A j \in bad : i <= j
C07_WellFormedPrefix ==
  HdrVals # {} => /\ nrcv[1] < FirstBad(frames[2])
                  /\ \A i \in 1..Len(dlv[1]) : dlv[1][i].ret >= 1 /\ dlv[1][i].ret <= MaxMsg
C07_Eproto ==
  HdrVals # {} /\ eps[1].bad => /\ eps[1].badwhy = EPROTO
                                /\ (last.e = 1 /\ last.op \in {"s", "r", "f"} /\ last.pre.bad => last.ret = -1 /\ last.err \in {EPROTO, EMSGSIZE, EINVAL})

\* C07: once the header of a frame with an illegal length has been read the connection reports EPROTO
C07_IllegalIsEproto ==
  HdrVals # {} /\ FirstBad(frames[2]) <= Len(frames[2]) /\ nrcv[1] = FirstBad(frames[2]) - 1 /\ eps[1].rbuf >= HdrLen
     => eps[1].bad /\ eps[1].badwhy = EPROTO

\* C17: counters agree with the ghost histories
C17_Counters ==
  \A e \in (IF HdrVals = {} THEN E ELSE {1}) :
    LET c == eps[e].cnt IN
    /\ c[FROM_APP] >= c[TO_LOWER] /\ c[FROM_LOWER] >= c[TO_APP]
    /\ Msg => c[FROM_APP + 4] >= c[TO_LOWER + 4] /\ c[FROM_LOWER + 4] >= c[TO_APP + 4]
    /\ Msg => c[TO_APP + 4] = Len(dlv[e]) /\ c[FROM_LOWER + 4] = nrcv[e]
    /\ Msg => c[FROM_LOWER] = SumLen(frames[P(e)], nrcv[e])
    /\ Framing(TP) => c[TO_LOWER + 4] = Len(frames[e]) - (IF eps[e].sbuf # 0 THEN 1 ELSE 0)
    /\ Stream(TP) => c[FROM_APP] = acc[e] /\ c[TO_LOWER] = wr[e] /\ c[FROM_LOWER] = rdp[e] /\ c[TO_APP] = rdp[e]
\* C17: at quiescence both ends agree
C17_Quiescent ==
  HdrVals = {} => \A e \in E : (eps[e].sbuf = 0 /\ eps[P(e)].rbuf = 0 /\ Avail(P(e)) = 0 /\ eps[e].l1 = "ready" /\ eps[P(e)].l1 = "ready")
     => eps[e].cnt[TO_LOWER] = eps[P(e)].cnt[FROM_LOWER] /\ (Msg => eps[e].cnt[TO_LOWER + 4] = eps[P(e)].cnt[FROM_LOWER + 4])

\* C04 (safety form) / C16: readiness.  The kernel side: readable iff data or EOF, always writable.
KR(e) == (IF Avail(e) > 0 \/ PeerClosed(e) THEN 1 ELSE 0) + 4
Owed(e) ==
  \/ eps[e].l1 # "ready"                                              \* unreported terminal state of the lower layer
  \/ (Framing(TP) /\ eps[e].sbuf # 0)                                  \* a frame can be flushed (the kernel is writable)
  \/ (HasBit(eps[e].cond, RECEIVABLE) /\ (Avail(e) > 0 \/ PeerClosed(e)))
  \/ (HasBit(eps[e].cond, SENDABLE) /\ eps[e].l1 = "ready")
C04_NoLostWakeup == \A e \in E : open[e] /\ Owed(e) => Readable(eps[e], KR(e))
C16_Quiet ==
  \A e \in E : open[e] /\ eps[e].l1 = "ready" /\ eps[e].sbuf = 0 /\ Avail(e) = 0 /\ ~PeerClosed(e) /\ eps[e].cond \in {0, RECEIVABLE}
     => ~Readable(eps[e], KR(e))
C16_Immediate ==
  last.op = "a" => LET e == last.e IN
     (HasBit(eps[e].cond, SENDABLE) /\ eps[e].l1 = "ready") \/ (HasBit(eps[e].cond, RECEIVABLE) /\ Avail(e) > 0)
        => Readable(eps[e], KR(e))
=============================================================================
