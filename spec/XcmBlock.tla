------------------------------- MODULE XcmBlock -------------------------------
(***************************************************************************)
(* Blocking-mode xcm_send / xcm_receive (libxcm/core/xcm.c) as loops over  *)
(* the non-blocking transport operations of XcmCore:                       *)
(*                                                                         *)
(*   xcm_send:    msg_bsend: { send; EAGAIN -> await SENDABLE; poll }      *)
(*                then socket_finish: { finish; EAGAIN -> await 0; poll }  *)
(*   xcm_receive: { await RECEIVABLE; poll; receive; EAGAIN -> again }     *)
(*                                                                         *)
(* poll() may be interrupted by a signal (EINTR) at any wait.  Endpoint 1  *)
(* is the blocking application, endpoint 2 a non-blocking peer that reads  *)
(* (and writes) whenever it likes; the lower layer cuts and refuses at     *)
(* will.                                                                   *)
(*                                                                         *)
(* C03: if xcm_send returns -1 the message is never delivered; if it       *)
(*      returns 0 it is delivered exactly once (so re-sending after a      *)
(*      failure never duplicates).  The window that matters is a signal    *)
(*      during the flush wait AFTER the message was accepted.              *)
(* C04: blocking calls return once the awaited event has happened          *)
(*      (temporal, under fairness).                                        *)
(***************************************************************************)
EXTENDS XcmCore, Sequences

CONSTANTS MsgLen,    \* length of the messages endpoint 1 sends
          NCalls,    \* blocking send calls endpoint 1 makes
          NSig,      \* signals that may hit endpoint 1 while it waits
          Broken     \* "none" | "eintr_after_accept" (a signal during the flush wait makes xcm_send return -1)
                     \* | "no_flush_wait" (xcm_send returns without waiting for the flush: harmless for C03, used as a control)

VARIABLES eps, wr, rdp, frames, nrcv,
          pc,       \* where endpoint 1 is inside its blocking call
          calls,    \* calls started
          sigs,     \* signals delivered
          res,      \* res[i]: result of the i-th xcm_send: "none" | "ok" | "fail"
          fidx,     \* fidx[i]: index in frames[1] of the frame the i-th call started (0 = none)
          kw        \* kernel send buffer of endpoint 1 takes data

vars == <<eps, wr, rdp, frames, nrcv, pc, calls, sigs, res, fidx, kw>>

E == {1, 2}
P(e) == 3 - e
Avail(e) == wr[P(e)] - rdp[e]
KR(e) == (IF Avail(e) > 0 THEN 1 ELSE 0) + (IF e = 2 \/ kw THEN 4 ELSE 0)
HdrOf(e) == LET i == nrcv[e] + 1 IN IF i <= Len(frames[P(e)]) THEN frames[P(e)][i] ELSE 0

Init ==
  /\ eps = [e \in E |-> Update([NewEp("tcp", "model") EXCEPT !.cond = IF e = 2 THEN RECEIVABLE ELSE 0])]
  /\ wr = [e \in E |-> 0] /\ rdp = [e \in E |-> 0] /\ frames = [e \in E |-> <<>>] /\ nrcv = [e \in E |-> 0]
  /\ pc = "idle" /\ calls = 0 /\ sigs = 0
  /\ res = [i \in 1..NCalls |-> "none"] /\ fidx = [i \in 1..NCalls |-> 0]
  /\ kw = TRUE

WNeed == (IF eps[1].sbuf # 0 THEN HdrLen + eps[1].sbuf - eps[1].sent ELSE 0)
WCredits(extra) == IF ~kw THEN {0} ELSE 0..(WNeed + extra)

\* ---- endpoint 1: the blocking xcm_send ------------------------------------------
Call == /\ pc = "idle" /\ calls < NCalls
        /\ calls' = calls + 1 /\ pc' = "send_try"
        /\ UNCHANGED <<eps, wr, rdp, frames, nrcv, sigs, res, fidx, kw>>

\* msg_bsend: one xcm_tp_socket_send
SendTry ==
  /\ pc = "send_try"
  /\ \E wc \in WCredits(HdrLen + MsgLen) :
       LET r == TcpSend(eps[1], MsgLen, wc, EAGAIN) IN
       /\ wr' = [wr EXCEPT ![1] = @ + r.used]
       /\ frames' = IF r.started THEN [frames EXCEPT ![1] = Append(@, MsgLen)] ELSE frames
       /\ fidx' = IF r.started THEN [fidx EXCEPT ![calls] = Len(frames[1]) + 1] ELSE fidx
       /\ IF r.ret = 0
          THEN /\ eps' = [eps EXCEPT ![1] = Update(r.ep)]
               /\ IF Broken = "no_flush_wait" THEN pc' = "idle" /\ res' = [res EXCEPT ![calls] = "ok"]
                  ELSE pc' = "fin_try" /\ res' = res
          ELSE /\ eps' = [eps EXCEPT ![1] = Update([r.ep EXCEPT !.cond = SENDABLE])]     \* socket_wait(SENDABLE): await ...
               /\ pc' = "send_wait" /\ res' = res
  /\ UNCHANGED <<rdp, nrcv, calls, sigs, kw>>

\* ... and poll(): returns when the descriptor is readable
SendWake == /\ pc = "send_wait" /\ Readable(eps[1], KR(1)) /\ pc' = "send_try"
            /\ UNCHANGED <<eps, wr, rdp, frames, nrcv, calls, sigs, res, fidx, kw>>

\* socket_finish: one xcm_tp_socket_finish
FinTry ==
  /\ pc = "fin_try"
  /\ \E wc \in WCredits(0) :
       LET r == TcpFinish(eps[1], wc, EAGAIN, [rc |-> 0, e |-> 0]) IN
       /\ wr' = [wr EXCEPT ![1] = @ + r.used]
       /\ IF r.ret = 0
          THEN eps' = [eps EXCEPT ![1] = Update(r.ep)] /\ pc' = "idle" /\ res' = [res EXCEPT ![calls] = "ok"]
          ELSE eps' = [eps EXCEPT ![1] = Update([r.ep EXCEPT !.cond = 0])] /\ pc' = "fin_wait" /\ res' = res
  /\ UNCHANGED <<rdp, frames, nrcv, calls, sigs, fidx, kw>>

FinWake == /\ pc = "fin_wait" /\ Readable(eps[1], KR(1)) /\ pc' = "fin_try"
           /\ UNCHANGED <<eps, wr, rdp, frames, nrcv, calls, sigs, res, fidx, kw>>

\* a signal interrupts poll(): EINTR
Signal ==
  /\ sigs < NSig /\ pc \in {"send_wait", "fin_wait"}
  /\ sigs' = sigs + 1
  /\ IF pc = "send_wait"
     THEN pc' = "idle" /\ res' = [res EXCEPT ![calls] = "fail"]            \* nothing was accepted: -1 / EINTR
     ELSE IF Broken = "eintr_after_accept"
     THEN pc' = "idle" /\ res' = [res EXCEPT ![calls] = "fail"]            \* the message WAS accepted, and yet -1
     ELSE pc' = "fin_try" /\ res' = res                                    \* the interrupted wait is resumed
  /\ UNCHANGED <<eps, wr, rdp, frames, nrcv, calls, fidx, kw>>

\* ---- endpoint 2: a non-blocking peer that receives whenever it likes ------------
PeerReceive ==
  /\ \E rc \in 0..Avail(2) :
       LET r == TcpReceive(eps[2], MsgLen, 0, EAGAIN, rc, EAGAIN, HdrOf(2), "eproto") IN
       /\ eps' = [eps EXCEPT ![2] = Update(r.ep)]
       /\ rdp' = [rdp EXCEPT ![2] = @ + r.rused]
       /\ nrcv' = [nrcv EXCEPT ![2] = IF r.delivered THEN @ + 1 ELSE @]
       /\ (r.rused > 0 \/ r.delivered)
  /\ UNCHANGED <<wr, frames, pc, calls, sigs, res, fidx, kw>>

KFull  == kw /\ kw' = FALSE /\ UNCHANGED <<eps, wr, rdp, frames, nrcv, pc, calls, sigs, res, fidx>>
KDrain == ~kw /\ kw' = TRUE /\ UNCHANGED <<eps, wr, rdp, frames, nrcv, pc, calls, sigs, res, fidx>>

Next == Call \/ SendTry \/ SendWake \/ FinTry \/ FinWake \/ Signal \/ PeerReceive \/ KFull \/ KDrain
Spec == Init /\ [][Next]_vars

\* fairness: the kernel buffer drains, the peer keeps reading, a retried operation eventually gets full credit
FullSend == SendTry /\ pc' # "send_wait"
FullFin  == FinTry /\ pc' = "idle"
FairSpec == Spec /\ WF_vars(KDrain) /\ WF_vars(PeerReceive) /\ SF_vars(SendWake) /\ SF_vars(FinWake)
                 /\ SF_vars(FullSend) /\ SF_vars(FullFin) /\ WF_vars(Call)

(***************************************************************************)
(* Properties                                                              *)
(***************************************************************************)
\* C03: a send that reported failure is never delivered (its frame, if any was started, never reaches the peer)
C03_FailNotDelivered == \A i \in 1..NCalls : res[i] = "fail" /\ fidx[i] # 0 => nrcv[2] < fidx[i]
\* stronger, and what makes re-sending safe: a failed send has not even started a frame
C03_FailNoTrace == \A i \in 1..NCalls : res[i] = "fail" => fidx[i] = 0
\* C03: delivered exactly once: frames are delivered in order, each at most once (nrcv counts frames), and every
\* successful send has its own frame
C03_OkHasFrame == \A i \in 1..NCalls : res[i] = "ok" => fidx[i] # 0
\* C03 / C04 (temporal): a successful send is eventually delivered; every blocking call eventually returns
OkDelivered == \A i \in 1..NCalls : [](res[i] = "ok" => <>(nrcv[2] >= fidx[i]))
Returns == []<>(pc = "idle")
=============================================================================
