SPECIFICATION TSpec
CONSTANTS
  Alphabet = {}
  MaxLen = 0
  EmitVec = FALSE
POSTCONDITION Accepted
CHECK_DEADLOCK FALSE
