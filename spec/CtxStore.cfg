\* A bounded configuration of CtxStore.tla for running TLC by hand:
\*   cd /verif/spec && tlc -workers 4 -config CtxStore.cfg CtxStore.tla
\* (lib/check_c18.py generates its configurations - MC_QUICK / MC_THOROUGH / MC_DEV - into build/cfg.)
\* Updates of the trusted-CA file and flips of the directory link at every point of one call's
\* hash -> load -> re-hash loop, a second socket sharing or not sharing the context.
SPECIFICATION Spec
CONSTANTS
  Socks = {1, 2}
  Threads = {1}
  ConnProfiles = {"fL", "f1"}
  ServProfiles = {}
  AccOverrides = {}
  UpdKinds = {"put", "flipL"}
  UpdDirs = {"d1"}
  UpdItems = {"tc"}
  BadKinds = {}
  EnvSet = {}
  MaxUpd = 2
  MaxOpens = 2
  MaxEnv = 0
  Dev = {}
  EmitPaths = "none"
VIEW view
INVARIANTS Fresh Eproto NoMix Distinct Released Mutex
PROPERTY EstablishedUnaffected
CHECK_DEADLOCK FALSE
