------------------------------- MODULE AttrMC -------------------------------
(***************************************************************************)
(* Bounded models over Attr (properties C10, C11).                          *)
(*                                                                         *)
(* Mode = "vec": TLC enumerates the attribute vectors                       *)
(*   (socket kind x transport x life point) x attribute x accessor x        *)
(*   capacity class            for reads  ("@G" lines),                     *)
(*   ... x type x length class x value class for writes ("@W" lines),       *)
(*   checks the laws of Attr (WriteBound, Overflow, SetErrors) on each and   *)
(*   prints it with the outcome class the specification expects for a value  *)
(*   of nominal size; harness/attr_exec runs every vector on a real socket   *)
(*   and AttrTrace validates the result with the measured sizes.             *)
(*                                                                         *)
(* Mode = "life": TLC enumerates behaviours of one connection (create with  *)
(*   an attribute map, writes while connecting / established / after the    *)
(*   peer closed, establishment, accept from a server socket with           *)
(*   overrides), checks InForce and the get-after-set law on every state     *)
(*   and prints the behaviours ("@P" lines) as replay paths.                 *)
(***************************************************************************)
EXTENDS Attr, Json

CONSTANTS
  Mode,        \* "vec" | "life"
  TpSet,       \* vec: transports of this run
  BadNames,    \* vec: names outside the table, as tuples of character codes
  Reduced,     \* vec: TRUE = fewer capacity classes for the typed / formatted accessors (quick tier)
  LightTps,    \* vec: transports of which only the server socket and established connections are visited (quick tier)
  LTp,         \* life: the transport
  MaxSets,     \* life: bound on the number of writes after creation
  MaxSteps,    \* life: bound on the length of a behaviour
  EmitPaths    \* life: "state" (one path per distinct state) | "transition" | "none"

VARIABLES stage, cur,          \* vec
          lst, path, nset      \* life: state record of Attr part 3, ghost replay path, writes so far

vars == <<stage, cur, lst, path, nset>>
view == <<stage, cur, lst, nset>>

\* ============================ vectors ==========================================
Sits == {s \in Kinds \X TpSet \X Lives : SitOk(s[1], s[2], s[3]) /\ (s[2] \in LightTps => s[3] \in {"server", "established"})}
FreshSits == {s \in Kinds \X TpSet \X {"fresh"} : s[1] = "server" => s[2] # "utlsx"}

NomSize(n) == IF FixedSize(Table[n].t) > 0 THEN FixedSize(Table[n].t) ELSE 20
ErrName(e) == CASE e = ENOENT -> "ENOENT" [] e = EACCES -> "EACCES" [] e = EINVAL -> "EINVAL"
                [] e = EOVERFLOW -> "EOVERFLOW" [] e = 0 -> "ok" [] OTHER -> "other"

Vec(s, op, n, nb, ic, acc, cc, ty, lc, vc, x) ==
  [sit |-> s, op |-> op, n |-> n, nb |-> nb, ic |-> ic, acc |-> acc, cc |-> cc, ty |-> ty, lc |-> lc, vc |-> vc, x |-> x]
NoVec == Vec(<<"", "", "">>, "", "", <<>>, "", "", "", 0, "", "", "")

ICs(n) == IF IsListElem(n) THEN {"0", "l", "n"} ELSE {"-"}
FullAcc == {"gen", "gen0", "fgen", "str", "bin", "fstr", "fbin"}
CapsFor(a) == IF Reduced /\ a \notin {"gen", "str"} THEN {"0", "sz-1", "sz", "4096"} ELSE CapClasses

GetX(n, ic, a, cc) ==
  IF ic = "n" THEN "ENOENT"
  ELSE LET nn == NomSize(n)
           cap == IF AccCap(a) >= 0 THEN AccCap(a) ELSE CapOf(cc, nn)
           e == ExpectGet(Table[n].t, nn, a, cap)
       IN IF e.ret >= 0 THEN "ok" ELSE ErrName(e.first)
BadX(b) == LET sy == Syn(b) IN IF sy = "valid" THEN "ENOENT" ELSE IF sy = "invalid" THEN "EINVAL" ELSE "any"

\* names outside the table are looked up in the tree of a server socket and of an established connection
\* of every transport (the other life points have the same trees or smaller ones)
BadHere(s) == s[3] = "server" \/ (s[1] = "conn" /\ s[3] = "established")
GetVecs(s) ==
  LET pres == {n \in Names : Present(s[1], s[2], s[3], n)}
  IN UNION {UNION {{Vec(s, "g", n, <<>>, ic, a, cc, 0, "", "", GetX(n, ic, a, cc)) : cc \in CapsFor(a)} : a \in FullAcc, ic \in ICs(n)}
            : n \in pres}
     \cup UNION {{Vec(s, "g", n, <<>>, ic, a, "sz", 0, "", "", GetX(n, ic, a, "sz")) :
                        a \in {"bool", "int64", "double", "fbool", "fint64", "fdouble"}, ic \in ICs(n)}
                 : n \in pres}
     \cup {Vec(s, "g", n, <<>>, "-", a, "4096", 0, "", "", "ENOENT") : n \in Names \ pres, a \in {"gen", "str", "bool"}}
     \cup {Vec(s, "g", n, <<>>, "-", a, cc, 0, "", "", "EACCES") : n \in Interior, a \in {"gen", "str"}, cc \in {"0", "4096"}}
     \cup (IF BadHere(s) THEN UNION {{Vec(s, "g", "", b, "-", a, cc, 0, "", "", BadX(b)) : a \in {"gen", "bool", "fstr"}, cc \in {"0", "4096"}} : b \in BadNames}
           ELSE {})

SetX(s, n, syn, ty, lc, vc) == ErrName(SetFirst(s[1], s[2], s[3], n, syn, ty, lc, vc))
VcsFor(t, lc) == IF lc = "ok" THEN ValClassesOf(t) ELSE IF lc = "nonul" THEN {"alt", "junk"} ELSE {"alt"}
\* switching to blocking mode finishes outstanding work first: on a socket whose connect or handshake is held
\* pending that would wait for ever
Hangs(s, n, vc) == n = "xcm.blocking" /\ vc = "alt" /\ s[3] \in {"connecting", "handshaking"}
OddSets == {<<TInt, "ok">>, <<TStr, "ok">>, <<TStr, "nonul">>, <<TBool, "zero">>}

SetVecs(s) ==
  LET pres == {n \in Names : Present(s[1], s[2], s[3], n)}
  IN UNION {UNION {{Vec(s, "s", n, <<>>, ic, "", "", Table[n].t, lc, vc, SetX(s, n, "valid", Table[n].t, lc, vc))
                    : vc \in {w \in VcsFor(Table[n].t, lc) : ~Hangs(s, n, w)}} : lc \in LenClassesOf(Table[n].t), ic \in ICs(n) \ {"n"}}
            : n \in pres}
     \cup UNION {{Vec(s, "s", n, <<>>, ic, "", "", ty, "ok", "alt", SetX(s, n, "valid", ty, "ok", "alt"))
                  : ty \in Types \ {Table[n].t}, ic \in ICs(n) \ {"n"}} : n \in pres}
     \cup {Vec(s, "s", n, <<>>, "-", "", "", o[1], o[2], "alt", SetX(s, n, "valid", o[1], o[2], "alt")) : n \in (Names \ pres) \cup Interior, o \in OddSets}
     \cup (IF BadHere(s) THEN UNION {{Vec(s, "s", "", b, "-", "", "", o[1], o[2], "alt", SetX(s, "", Syn(b), o[1], o[2], "alt")) : o \in OddSets} : b \in BadNames}
           ELSE {})

\* writes through the map of the creating call: every type and length class; of the well-formed ones only
\* the value classes whose outcome the entry decides on its own
FreshVcs(s, n, lc) ==
  LET t == Table[n].t IN
  IF lc # "ok" THEN (IF lc = "nonul" THEN {"alt", "junk"} ELSE {"alt"})
  ELSE {vc \in (ValClassesOf(t) \ {"cur"}) \cup (IF t = TBool THEN {"zero"} ELSE {}) : FreshDemand(s[1], s[2], n, vc) # "skip"}
FreshX(s, n, ty, lc, vc) ==
  IF SetErrnos(s[1], s[2], "fresh", n, "valid", ty, lc, vc) # {} THEN "refused"
  ELSE IF ty = Table[n].t THEN FreshDemand(s[1], s[2], n, vc) ELSE "refused"
FreshVecs(s) ==
  LET pres == {n \in Names : Present(s[1], s[2], "fresh", n) /\ ~IsListElem(n)}
  IN UNION {UNION {{Vec(s, "s", n, <<>>, "-", "", "", Table[n].t, lc, vc, FreshX(s, n, Table[n].t, lc, vc)) : vc \in FreshVcs(s, n, lc)}
                   \* (xcm_attr_map_add itself insists on the size of the fixed-size types: property C19)
                   : lc \in IF FixedSize(Table[n].t) > 0 THEN {"ok"} ELSE LenClassesOf(Table[n].t) \ (IF Table[n].t = TBin THEN {"zero"} ELSE {})}
            : n \in pres}
     \cup UNION {{Vec(s, "s", n, <<>>, "-", "", "", ty, "ok", "alt", "refused") : ty \in Types \ {Table[n].t}} : n \in pres}
     \cup {Vec(s, "s", n, <<>>, "-", "", "", o[1], o[2], "alt", "refused") : n \in {m \in Names \ pres : ~IsListElem(m)}, o \in {<<TInt, "ok">>, <<TStr, "ok">>}}

VecsOf(s) == IF s[3] = "fresh" THEN FreshVecs(s) ELSE GetVecs(s) \cup SetVecs(s)

VInit == stage = "root" /\ cur = NoVec
PickSit == /\ stage = "root"
           /\ stage' = "sit"
           /\ \E s \in Sits \cup FreshSits : cur' = [NoVec EXCEPT !.sit = s]
           /\ UNCHANGED <<lst, path, nset>>
PickVec == /\ stage = "sit"
           /\ stage' = "vec"
           /\ cur' \in VecsOf(cur.sit)
           /\ UNCHANGED <<lst, path, nset>>

\* the laws on every enumerated vector, for every size a value may have
Sizes == {0, 1, 2, 7, 8, 9, 20, 4095, 4096, 4097}
InvWriteBound ==
  (stage = "vec" /\ cur.op = "g" /\ cur.n \in Names) =>
    \A n \in Sizes : LET cap == IF AccCap(cur.acc) >= 0 THEN AccCap(cur.acc) ELSE CapOf(cur.cc, n) IN
                      LawWriteBound(Table[cur.n].t, n, cur.acc, cap)
InvOverflow ==
  (stage = "vec" /\ cur.op = "g" /\ cur.n \in Names) =>
    \A n \in Sizes : LET cap == IF AccCap(cur.acc) >= 0 THEN AccCap(cur.acc) ELSE CapOf(cur.cc, n) IN
                      LawOverflow(Table[cur.n].t, n, cur.acc, cap)
InvSetErrors ==
  (stage = "vec" /\ cur.op = "s") =>
    LawSetErrors(cur.sit[1], cur.sit[2], cur.sit[3], cur.n, IF cur.n = "" THEN Syn(cur.nb) ELSE "valid", cur.ty, cur.lc, cur.vc)
\* creation-only attributes are never writable after creation; read-only ones never
InvCreationOnly ==
  stage = "sit" =>
    \A n \in Names : /\ (Table[n].mode = "create" /\ cur.sit[3] # "fresh") => ~WritableAt(cur.sit[1], cur.sit[2], cur.sit[3], n)
                     /\ Table[n].mode = "r" => ~WritableAt(cur.sit[1], cur.sit[2], cur.sit[3], n)
EmitVec == stage = "vec" => PrintT((IF cur.op = "g" THEN "@G " ELSE "@W ") \o ToJson(cur))

\* ============================ life ==============================================
TcpAlt == <<0, 2, 5, 7, 9>>          \* another admissible value of each option
TcpBad == <<0, 0, 40000, -1, 3000000>>   \* an inadmissible one (index 1: a boolean has none; 40000 needs a descriptor to be refused)
TcpVals(i) == {TcpDefault[i], TcpAlt[i]} \cup (IF i = 1 THEN {} ELSE {TcpBad[i]})

NB == <<"xcm.blocking", 0>>
\* what every map of a creating call starts with: non-blocking (a blocking call would need the peer to act
\* concurrently), and the service a byte-stream transport insists on
Base == IF ByteStream(LTp) THEN <<NB, <<"xcm.service", 3>>>> ELSE <<NB>>
With(e) == Base \o <<e>>
ConnMaps ==
  {Base}
  \cup {With(<<TcpAttrs[i], TcpAlt[i]>>) : i \in 1..5}
  \cup {With(<<TcpAttrs[2], 0>>), With(<<TcpAttrs[5], 3000000>>)}
  \cup (IF IsTcp(LTp) THEN {Base \o <<<<TcpAttrs[5], 9>>, <<TcpAttrs[3], 5>>>>} ELSE {})
  \cup {<<NB, <<"xcm.service", c>>>> : c \in 1..4} \cup {<<NB>>}
  \cup {With(<<"xcm.local_addr", 2>>)}
  \cup (IF IsTls(LTp) THEN {} ELSE {<<>>, <<<<"xcm.blocking", 1>>>>, <<<<"xcm.service", 1>>>>})
  \cup {With(<<"tls.auth", 0>>), With(<<"tls.check_time", 0>>)}
SrvMaps ==
  {Base}
  \cup (IF IsTls(LTp) THEN {} ELSE {<<>>, <<<<"xcm.service", 1>>>>})
  \cup {<<NB, <<"xcm.service", c>>>> : c \in 1..4} \cup {<<NB>>}
  \cup {With(<<TcpAttrs[2], 2>>), With(<<"xcm.local_addr", 2>>)}
  \cup (IF IsTls(LTp) THEN {With(<<"tls.auth", 0>>), With(<<"tls.check_time", 0>>),
                            Base \o <<<<"tls.verify_peer_name", 1>>, <<"tls.peer_names", 1>>>>,
                            Base \o <<<<"tls.check_time", 0>>, <<"tls.auth", 0>>>>} ELSE {})
AccMaps ==
  {<<>>}
  \cup (IF IsTcp(LTp) THEN {<<<<TcpAttrs[i], TcpAlt[i]>>>> : i \in 1..5} \cup {<<<<TcpAttrs[4], -1>>>>} ELSE {})
  \cup {<<<<"xcm.blocking", 0>>>>, <<<<"xcm.local_addr", 2>>>>, <<<<"xcm.service", 1>>>>, <<<<"xcm.service", 4>>>>}
  \cup (IF IsTls(LTp) THEN {<<<<"tls.check_time", 0>>>>, <<<<"tls.check_time", 1>>>>, <<<<"tls.auth", 1>>>>, <<<<"tls.peer_names", 2>>>>}
        ELSE {<<<<"xcm.blocking", 1>>>>})
\* creation-only attributes probed after creation: <<name, value code>>
\* (xcm.service is left to the write vectors: its setter has no state to tell creation from later)
COConn == {<<"xcm.local_addr", 2>>}
          \cup (IF IsTcp(LTp) THEN {<<"tcp.connect_timeout", 7>>, <<"ipv6.scope", 0>>} ELSE {})
          \cup (IF IsTls(LTp) THEN {<<"tls.auth", 0>>, <<"tls.check_time", 0>>, <<"tls.client", 0>>} ELSE {})
COSrv == (IF IsTcp(LTp) THEN {<<"ipv6.scope", 0>>} ELSE {})
         \cup (IF IsTls(LTp) THEN {<<"tls.auth", 0>>, <<"tls.check_time", 0>>, <<"tls.verify_peer_name", 1>>, <<"tls.client", 1>>} ELSE {})

LInit == lst = St0(LTp) /\ path = <<>> /\ nset = 0
Room == Len(path) < MaxSteps
Connect(hold, m) == /\ lst.ph = "init" /\ Room
                    /\ lst' = StepConnect(lst, hold, m).st
                    /\ path' = Append(path, <<"c", IF hold THEN 1 ELSE 0, m>>)
                    /\ UNCHANGED <<stage, cur, nset>>
Server(m) == /\ lst.ph = "init" /\ Room
             /\ lst' = StepServer(lst, m).st
             /\ path' = Append(path, <<"S", m>>)
             /\ UNCHANGED <<stage, cur, nset>>
ServerSet(e) == /\ lst.ph = "server" /\ Room /\ nset < MaxSets
                /\ lst' = StepSetCreationOnly(lst).st
                /\ nset' = nset + 1
                /\ path' = Append(path, <<"T", e[1], e[2]>>)
                /\ UNCHANGED <<stage, cur>>
Accept(m) == /\ lst.ph = "server" /\ Room
             \* a blocking accept that has to wait for a TLS handshake would need the client to run concurrently
             /\ (IsTls(LTp) => lst.srv.blk = 0)
             /\ LET r == StepAccept(lst, m) IN
                lst' = IF r.ok THEN r.st ELSE [lst EXCEPT !.ph = "dead"]
             /\ path' = Append(path, <<"A", m>>)
             /\ UNCHANGED <<stage, cur, nset>>
SetTcp(i, v) == /\ lst.ph \in {"connecting", "established", "peer_closed"} /\ Room /\ nset < MaxSets
                /\ lst.role \in {"conn", "acc"}
                /\ (lst.blk = 0 \/ lst.ph # "connecting")
                \* a value the library takes but the kernel refuses is only tried when the kernel is asked at once
                /\ (HasFd(lst) \/ TcpValOk(i, v) \/ ~TcpValLibOk(i, v))
                /\ lst' = StepSetTcp(lst, i, v).st
                /\ nset' = nset + 1
                /\ path' = Append(path, <<"t", TcpAttrs[i], v>>)
                /\ UNCHANGED <<stage, cur>>
SetBlk(v, how) == /\ lst.ph = "established" /\ Room /\ nset < MaxSets
                  /\ lst' = StepSetBlocking(lst, v)
                  /\ nset' = nset + 1
                  /\ path' = Append(path, IF how = "attr" THEN <<"t", "xcm.blocking", v>> ELSE <<"b", v>>)
                  /\ UNCHANGED <<stage, cur>>
SetCO(e) == /\ lst.ph \in {"connecting", "established", "peer_closed"} /\ Room /\ nset < MaxSets
            /\ lst' = StepSetCreationOnly(lst).st
            /\ nset' = nset + 1
            /\ path' = Append(path, <<"o", e[1], e[2]>>)
            /\ UNCHANGED <<stage, cur>>
Establish == /\ lst.ph = "connecting" /\ Room
             /\ lst' = StepEstablish(lst)
             /\ path' = Append(path, <<"e">>)
             /\ UNCHANGED <<stage, cur, nset>>
PeerClose == /\ lst.ph = "established" /\ Room /\ lst.blk = 0
             /\ lst' = StepPeerClose(lst)
             /\ path' = Append(path, <<"p">>)
             /\ UNCHANGED <<stage, cur, nset>>

LNext == \/ \E m \in ConnMaps : \E hold \in (IF IsTcp(LTp) /\ m # <<>> /\ m[1] = NB THEN BOOLEAN ELSE {FALSE}) : Connect(hold, m)
         \/ \E m \in SrvMaps : Server(m)
         \/ \E e \in COSrv : ServerSet(e)
         \/ \E m \in AccMaps : Accept(m)
         \/ \E i \in 1..5 : \E v \in TcpVals(i) : SetTcp(i, v)
         \/ \E v \in {0, 1}, how \in {"attr", "api"} : SetBlk(v, how)
         \/ \E e \in COConn : SetCO(e)
         \/ Establish
         \/ PeerClose

Init == IF Mode = "vec" THEN VInit /\ lst = St0("tcp") /\ path = <<>> /\ nset = 0
        ELSE LInit /\ stage = "life" /\ cur = NoVec
Next == IF Mode = "vec" THEN PickSit \/ PickVec ELSE LNext
Spec == Init /\ [][Next]_vars

\* ---- properties of the life model -------------------------------------------------------
\* a value accepted at any point of the socket's life is in force as soon as a descriptor exists
InvInForce == Mode = "life" => InForce(lst)
\* before establishment nothing is in force yet, and the snapshot taken at connect never runs ahead
InvNoKernBeforeFd == (Mode = "life" /\ ~HasFd(lst)) => lst.kern = NoKern
\* what xcm_attr_get must report is always an admissible value
InvWantOk == Mode = "life" => \A i \in 1..5 : TcpValLibOk(i, lst.want[i])
\* an accepted socket whose map did not name a TLS setting has the server socket's
InvInherit == (Mode = "life" /\ lst.role = "acc" /\ lst.ph # "dead" /\ Len(path) > 0 /\ path[Len(path)][1] = "A") =>
                 \A i \in 1..4 : ~InMap(path[Len(path)][2], TlsAttrs[i]) => lst.tls[i] = lst.srv.tls[i]
\* the refused writes of creation-only attributes leave the state alone
CreationOnlyKeeps == [][(Mode = "life" /\ Len(path') > Len(path) /\ path'[Len(path')][1] \in {"o", "T"}) =>
                         (lst' = lst)]_vars

EmitT == (Mode = "life" /\ EmitPaths = "transition") => PrintT("@P " \o ToJson(path'))
EmitS == (Mode = "life" /\ EmitPaths = "state" /\ path # <<>>) => PrintT("@P " \o ToJson(path))
=============================================================================
