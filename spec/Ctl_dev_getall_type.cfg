\* the code as it was found (candidate 15): TLC is expected to violate FirstRequestAny
SPECIFICATION Spec
CONSTANTS
  Sess = {1, 2}
  Kinds = {"get", "all"}
  MaxClients = 2
  BacklogCap = 3
  MaxReq = 2
  MaxTotal = 2
  MaxApp = 0
  Dev = {"getall_type"}
VIEW View
INVARIANTS FirstRequestAny
CHECK_DEADLOCK FALSE
