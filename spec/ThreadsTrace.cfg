SPECIFICATION TraceSpec
CONSTANTS
  Threads = {t0}
  Rounds = 0
  MaxUsers = 100
  Keys = {0}
  Broken = "none"
  Scope = {"id", "afd", "ctx"}
  NoOne = NoOne
POSTCONDITION Accepted
CHECK_DEADLOCK FALSE
