--------------------------- MODULE LifecycleTrace ---------------------------
(***************************************************************************)
(* Trace validation for C08: every line recorded by harness/life_exec      *)
(* (API call boundaries, lower-layer calls seen by shim/shim_life.c,       *)
(* harness observations) is given to Lifecycle!Step, the same monitor the  *)
(* design model is checked against.  Every objection is printed as          *)
(*     "@V [x, n, tag, expected, observed]"                                 *)
(* C08.* are violations of the property, NOTE.* / MODEL.* remarks,          *)
(* INTERNAL / HANG machinery trouble.  Many executions per run, each        *)
(* starting with a reset line.                                              *)
(***************************************************************************)
EXTENDS Lifecycle, Json, IOUtils

TraceLines == ndJsonDeserialize(IOEnv.TRACE)
NL == Len(TraceLines)

VARIABLES l, cnt
tvars == <<l, cnt, ms, viol, g>>

Cnt0 == [execs |-> 0, sys |-> 0, created |-> 0, failed |-> 0, injected |-> 0, closed |-> 0, calls |-> 0, failedcalls |-> 0,
         afd |-> 0, forks |-> 0, aborts |-> 0, finals |-> 0, childends |-> 0, probes |-> 0, objections |-> 0]

TInit == l = 1 /\ cnt = Cnt0 /\ ms = MS0 /\ viol = {} /\ g = G0

Count(e) ==
  CASE e.ev = "reset" -> [cnt EXCEPT !.execs = @ + 1]
    [] e.ev = "sys" -> [cnt EXCEPT !.sys = @ + 1,
                                   !.created = @ + (IF e.il = 1 /\ e.call \in CreateCalls /\ e.res >= 0 THEN 1 ELSE 0),
                                   !.failed = @ + (IF e.il = 1 /\ e.cls # 0 /\ e.res < 0 THEN 1 ELSE 0),
                                   !.injected = @ + e.inj,
                                   !.afd = @ + (IF e.call \in AfdCalls THEN 1 ELSE 0),
                                   !.closed = @ + (IF e.il = 1 /\ e.call = "close" THEN 1 ELSE 0)]
    [] e.ev = "end" -> [cnt EXCEPT !.calls = @ + 1, !.failedcalls = @ + (IF e.ret < 0 /\ e.op \in CreateOps THEN 1 ELSE 0)]
    [] e.ev = "fork" -> [cnt EXCEPT !.forks = @ + 1]
    [] e.ev = "abort" -> [cnt EXCEPT !.aborts = @ + 1]
    [] e.ev = "final" -> [cnt EXCEPT !.finals = @ + 1]
    [] e.ev = "childend" -> [cnt EXCEPT !.childends = @ + 1]
    [] e.ev = "probe" -> [cnt EXCEPT !.probes = @ + 1]
    [] OTHER -> cnt

Report(e, vs) == \A i \in 1..Len(vs) : PrintT("@V " \o ToJson(<<e.x, e.n, vs[i][1], vs[i][2], vs[i][3]>>))

TNext ==
  /\ UNCHANGED <<viol, g>>
  /\ l <= NL
  /\ l' = l + 1
  /\ LET e == TraceLines[l]
         r == Step(ms, e)
         c == [Count(e) EXCEPT !.objections = @ + Len(r.v)]
     IN /\ Report(e, r.v)
        /\ ms' = r.s
        /\ cnt' = c
        /\ (l < NL \/ PrintT("@STAT " \o ToJson(c)))

TraceSpec == TInit /\ [][TNext]_tvars

\* the whole trace was consumed (a line the specification cannot process stops it early)
Accepted == TLCGet("stats").diameter = NL + 1
=============================================================================
