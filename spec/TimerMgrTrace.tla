--------------------------- MODULE TimerMgrTrace ---------------------------
(***************************************************************************)
(* Validates executions of the real libxcm/core/timer_mgr.c recorded by    *)
(* harness/timer_exec in real time against the step function of            *)
(* TimerMgr.tla.  Times are microseconds since the execution began.  The   *)
(* library reads the clock between the two readings the harness took       *)
(* around each call, so an expiry is an interval; an observation that      *)
(* falls within TOL of an expiry decides nothing.                          *)
(***************************************************************************)
EXTENDS TimerMgr, IOUtils

TraceLog == ndJsonDeserialize(IOEnv.TRACE)
NL == Len(TraceLog)
UNIT == 20000        \* one tick of the scripts, in microseconds (UNIT_MS of the harness)
TOL == 6000          \* kernel timer slack, a stalled virtual CPU, poll latency: allowed before "must be readable"
EPS == 3             \* double -> timespec rounding of a programmed time

VARIABLES l, ms, nv
tvars == <<l, ms, nv>>
TInit == l = 1 /\ ms = T0 /\ nv = 0 /\ Init

Chk(c, t, x, o) == [c |-> c, t |-> t, x |-> x, o |-> o]
Failed(cs) == SelectSeq(cs, LAMBDA r : ~r.c)
Report(ln, cs) ==
  LET f == Failed(cs) IN
  IF f = <<>> THEN TRUE ELSE \A i \in 1..Len(f) : PrintT("@V " \o ToJson(<<ln.x, ln.n, f[i].t, f[i].x, f[i].o>>))

SetOk(v, iv) == IF iv[1] < 0 THEN v = -1 ELSE (v >= iv[1] - EPS /\ v <= iv[2] + EPS)

TStep(ln) ==
  LET o == ln.op[1]
      rel == IF ln.op[2] <= 0 THEN 0 ELSE ln.op[2] * UNIT + UNIT \div 2     \* REL() of the harness
      op == [o |-> o, a |-> IF o \in {"sch", "res"} THEN rel ELSE ln.op[2], b |-> ln.op[3], tb |-> ln.tb, ta |-> ln.ta]
      r == Step(ms, op)
      s1 == r.s
      cs == <<Chk(ln.crash = 0, "C04.timer_abort", "no assert in a legal call sequence", ln.op),
              Chk(ln.crash = 1 \/ ~s1.dead, "INTERNAL", "script respects the interface", ln.op),
              Chk(ln.crash = 1 \/ o \notin {"sch", "res"} \/ ln.ret = r.ret, "C04.timer_id", r.ret, ln.ret),
              Chk(ln.crash = 1 \/ o \notin {"can", "ack"} \/ ln.ret = -1, "C04.timer_id", -1, ln.ret),
              Chk(ln.crash = 1 \/ o # "exp" \/ r.ret = 2 \/ ln.ret = r.ret, "C04.timer_expired", r.ret, <<ln.ret, ln.tb, ln.ta>>),
              \* the timerfd is (re)programmed for the earliest pending expiry, or disarmed
              Chk(ln.crash = 1 \/ (Len(ln.set) = Len(r.out) /\ \A k \in 1..Len(r.out) : SetOk(ln.set[k], r.out[k])),
                  "C04.timer_arm", r.out, ln.set),
              \* a pending timer has certainly expired: the descriptor is readable (else the wake-up is lost)
              Chk(ln.crash = 1 \/ ~MustWake(s1, ln.p1 - TOL) \/ ln.rd = 1, "C04.timer_wake", <<"readable at", ln.p1>>, s1.tm),
              \* no pending timer can have expired: the descriptor is quiet
              Chk(ln.crash = 1 \/ ~MustBeQuiet(s1, ln.p2 + TOL) \/ ln.rd = 0, "C16.timer_quiet", <<"quiet at", ln.p2>>, s1.tm),
              Chk(ArmedRight(s1), "INTERNAL", "model invariant", ln.n)>>
  IN /\ Report(ln, cs)
     /\ nv' = nv + Len(Failed(cs))
     /\ ms' = s1

TNext ==
  /\ l <= NL
  /\ l' = l + 1
  /\ LET ln == TraceLog[l] IN
     IF ln.op[1] = "X" THEN ms' = T0 /\ nv' = nv ELSE TStep(ln)

TSpec == TInit /\ [][TNext /\ UNCHANGED vars]_<<tvars, vars>>
Accepted == TLCGet("stats").diameter = NL + 1
=============================================================================
