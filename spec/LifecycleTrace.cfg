SPECIFICATION TraceSpec
CONSTANTS
  PoolMax = 100
  MaxSock = 1
  MaxFail = 0
  MaxOps = 0
  TPs = {}
  CtlChoice = {}
  App = FALSE
  Dev = {}
POSTCONDITION Accepted
CHECK_DEADLOCK FALSE
