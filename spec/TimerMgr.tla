------------------------------ MODULE TimerMgr ------------------------------
(***************************************************************************)
(* libxcm/core/timer_mgr.c: the timers of one socket (connect time-out,    *)
(* happy-eyeballs delays, DNS time-out) multiplexed onto ONE timerfd that   *)
(* is registered (EPOLLIN) in the socket's epoll instance.                  *)
(*                                                                         *)
(* A deterministic step function over a state record, mirroring the code:  *)
(* schedule / cancel / ack / reschedule / has_expired, each followed by     *)
(* update_epoll() = timerfd_settime(earliest expiry) or disarm.  It yields  *)
(* the value returned and the timerfd_settime calls made.  A timer's        *)
(* expiry is kept as an interval [lo, hi]: in the bounded model lo = hi;    *)
(* in trace validation the library reads the clock somewhere inside the     *)
(* call, between the two readings the harness took around it.               *)
(*                                                                         *)
(* What the users of timer_mgr (tconnect, the resolver) rely on:            *)
(*   Armed     the timerfd is armed for the earliest pending expiry, and    *)
(*             disarmed when no timer is pending                            *)
(*   Wakes     hence the socket's descriptor becomes readable once some     *)
(*             pending timer has expired, stays readable until that timer   *)
(*             is acknowledged or cancelled, and is quiet when none has     *)
(*   Ids       ids are handed out once; cancel / ack of one timer leaves    *)
(*             the others alone                                             *)
(*   Expired   has_expired(id) is true only after the expiry time           *)
(***************************************************************************)
EXTENDS Integers, Sequences, FiniteSets, TLC, Json

Drop(f, S) == [k \in DOMAIN f \ S |-> f[k]]
Put(f, k, v) == [x \in DOMAIN f \cup {k} |-> IF x = k THEN v ELSE f[x]]
MinS(S) == CHOOSE x \in S : \A y \in S : x <= y
Max0(a) == IF a < 0 THEN 0 ELSE a

\* tm: id -> [lo, hi] pending timers; next: next id; arm: what the last update_epoll asked of the timerfd:
\* <<-1, -1>> disarmed, else the interval in which the programmed absolute time lies; dead: an assert was hit
T0 == [tm |-> [i \in {} |-> 0], next |-> 0, arm |-> <<-1, -1>>, dead |-> FALSE]

\* update_epoll(): one timerfd_settime per call, whether or not the earliest expiry changed
Earliest(tm) == IF DOMAIN tm = {} THEN <<-1, -1>>
                ELSE <<MinS({tm[i].lo : i \in DOMAIN tm}), MinS({tm[i].hi : i \in DOMAIN tm})>>
Update(s) == [s |-> [s EXCEPT !.arm = Earliest(s.tm)], out |-> <<Earliest(s.tm)>>]

R(s, ret, out) == [s |-> s, ret |-> ret, out |-> out]

\* the clock reading of the call lies in [tb, ta]
Schedule(s, rel, tb, ta) ==
  LET id == s.next
      u == Update([s EXCEPT !.tm = Put(@, id, [lo |-> tb + Max0(rel), hi |-> ta + Max0(rel)]), !.next = @ + 1])
  IN R(u.s, id, u.out)
Cancel(s, id) ==
  IF id \in DOMAIN s.tm THEN LET u == Update([s EXCEPT !.tm = Drop(@, {id})]) IN R(u.s, -1, u.out)
  ELSE R(s, -1, <<>>)
Ack(s, id) ==
  IF id \notin DOMAIN s.tm THEN R([s EXCEPT !.dead = TRUE], -1, <<>>)       \* assert(existed)
  ELSE Cancel(s, id)
Reschedule(s, rel, id, tb, ta) ==
  LET c == IF id >= 0 THEN Cancel(s, id) ELSE R(s, -1, <<>>)
      n == Schedule(c.s, rel, tb, ta)
  IN R(n.s, n.ret, c.out \o n.out)
\* now > expiry: certainly true after hi, certainly false up to lo; ret 1 / 0 / 2 = either (the reading fell inside)
HasExpired(s, id, tb, ta) ==
  IF id \notin DOMAIN s.tm THEN R([s EXCEPT !.dead = TRUE], -1, <<>>)       \* NULL dereference in the code
  ELSE R(s, IF tb > s.tm[id].hi THEN 1 ELSE IF ta <= s.tm[id].lo THEN 0 ELSE 2, <<>>)

Step(s, op) ==
  CASE op.o = "sch" -> Schedule(s, op.a, op.tb, op.ta)
    [] op.o = "can" -> Cancel(s, op.a)
    [] op.o = "ack" -> Ack(s, op.a)
    [] op.o = "res" -> Reschedule(s, op.a, op.b, op.tb, op.ta)
    [] op.o = "exp" -> HasExpired(s, op.a, op.tb, op.ta)
    [] OTHER -> R(s, 0, <<>>)

\* the timerfd (hence the socket's descriptor) at time t: certainly readable / certainly quiet
MustWake(s, t) == \E i \in DOMAIN s.tm : s.tm[i].hi <= t
MustBeQuiet(s, t) == \A i \in DOMAIN s.tm : s.tm[i].lo > t
ArmedRight(s) == s.arm = Earliest(s.tm)

\* ---- the bounded model: exact clock readings (tb = ta = now), time advances in ticks --------------
CONSTANTS MaxOps, MaxTime, Rels, EmitPaths, Broken
VARIABLES st, now, fd, last, path       \* fd: the timerfd as the kernel has it: [arm, fired]
vars == <<st, now, fd, last, path>>

Op(o, a, b) == [o |-> o, a |-> a, b |-> b, tb |-> now, ta |-> now]
\* the kernel: settime(abs) re-arms and clears the expiration count; an absolute time that has passed fires at once
Kernel(f, out, t) ==
  IF out = <<>> THEN f
  ELSE LET v == out[Len(out)][1] IN [arm |-> v, fired |-> v >= 0 /\ v <= t]
BStep(s, op) ==
  LET r == Step(s, op) IN
  CASE Broken = "latest" /\ r.out # <<>> /\ DOMAIN r.s.tm # {} ->        \* arms for the LAST expiry instead of the first
         LET m == CHOOSE x \in {r.s.tm[i].lo : i \in DOMAIN r.s.tm} : \A y \in {r.s.tm[i].lo : i \in DOMAIN r.s.tm} : y <= x
         IN R([r.s EXCEPT !.arm = <<m, m>>], r.ret, <<<<m, m>>>>)
    [] Broken = "no_rearm" /\ op.o \in {"can", "ack"} -> R([r.s EXCEPT !.arm = s.arm], r.ret, <<>>)   \* cancel forgets update_epoll
    [] OTHER -> r

Init == st = T0 /\ now = 0 /\ fd = [arm |-> -1, fired |-> FALSE] /\ last = R(T0, 0, <<>>) /\ path = <<>>
Ids(s) == DOMAIN s.tm
Call == /\ Len(path) < MaxOps
        /\ \E op \in {Op("sch", r, 0) : r \in Rels} \cup {Op("can", i, 0) : i \in Ids(st) \cup {st.next}}
                    \cup {Op("ack", i, 0) : i \in Ids(st)} \cup {Op("res", r, i) : r \in Rels, i \in Ids(st) \cup {-1}}
                    \cup {Op("exp", i, 0) : i \in Ids(st)} :
             /\ last' = BStep(st, op)
             /\ st' = last'.s
             /\ fd' = Kernel(fd, last'.out, now)
             /\ path' = Append(path, <<op.o, op.a, op.b>>)
        /\ now' = now
Tick == /\ now < MaxTime /\ Len(path) < MaxOps
        /\ now' = now + 1
        /\ fd' = [fd EXCEPT !.fired = @ \/ (fd.arm >= 0 /\ fd.arm <= now + 1)]
        /\ path' = Append(path, <<"tk", 1, 0>>)
        /\ UNCHANGED <<st, last>>
Next == Call \/ Tick
Spec == Init /\ [][Next]_vars

InvArmed == ArmedRight(st) /\ fd.arm = st.arm[1]
\* the descriptor is readable exactly while some pending timer has expired
InvWakes == fd.fired = MustWake(st, now)
InvQuiet == MustBeQuiet(st, now) => ~fd.fired
InvNoAbort == ~st.dead
InvIds == [][\A i \in DOMAIN st.tm : (i \in DOMAIN st'.tm) => st'.tm[i] = st.tm[i]]_vars /\ [][st'.next >= st.next]_vars
InvExpired == (path # <<>> /\ path[Len(path)][1] = "exp") => (last.ret = 1) = (now > st.tm[path[Len(path)][2]].lo)

Emit == (EmitPaths = "transition" /\ path' # path) => PrintT("@P " \o ToJson(path'))
view == <<st, now, fd, last>>
=============================================================================
