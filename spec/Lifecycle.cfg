\* default bounded configuration of the design model (lib/check_c08.py generates its own under build/cfg)
SPECIFICATION Spec
CONSTANTS
  PoolMax = 2
  MaxSock = 3
  MaxFail = 1
  MaxOps = 4
  TPs = {"btcp"}
  CtlChoice = {FALSE}
  App = FALSE
  Dev = {}
INVARIANTS NoStrayClose NoForeignCtl FailedCallLeaksNothing ErrnoNotAbort CleanupIsLocal MonitorAgrees PoolRefcount AllClosedClean ForeignUntouched
CHECK_DEADLOCK FALSE
