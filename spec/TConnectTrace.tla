---------------------------- MODULE TConnectTrace ----------------------------
(***************************************************************************)
(* Trace specification for C13 (and the "C05.wait" history check):          *)
(* validates executions of the real library recorded by harness/tconn_exec  *)
(* against the operators of TConnect.  Monitor style: one line per step.    *)
(*                                                                         *)
(*  model part   - the model runs next to the execution (same scenario,     *)
(*                 same schedule) and everything it predicts is compared:   *)
(*                 bind/connect calls of every API call, return value and   *)
(*                 errno, readiness of the descriptor, time, the listener   *)
(*                 that got the connection.  Differences are notes ("MM.*", *)
(*                 the model says more than the property), except a missing *)
(*                 wake-up while the model is in step with the execution    *)
(*                 ("C13.hang": the application would wait for ever).       *)
(*  history part - the statement of C13 evaluated on what was observed      *)
(*                 alone (the state H is rebuilt from the records, the      *)
(*                 predicates are the ones TLC checks on the model):        *)
(*                 C13.order, C13.outcome, C13.eligible, C13.errno,         *)
(*                 C13.local, C13.budget, C13.hang, C13.crash.              *)
(* Mismatches are printed as  "@V [x, n, tag, expected, observed]".         *)
(***************************************************************************)
EXTENDS TConnect, Json, IOUtils

Trace == ndJsonDeserialize(IOEnv.TRACE)
NL == Len(Trace)

VARIABLES l,      \* next line
          sc,     \* scenario of the current execution
          L, now, rel,   \* the model
          mm,     \* the model is out of step with the execution (model part off)
          H,      \* history of the current execution
          st      \* statistics of the batch
vars == <<l, sc, L, now, rel, mm, H, st>>

NoScn == [mode |-> "vt", kind |-> "conn", tp |-> "tcp", alg |-> "none", res |-> "sync", loc |-> "none", cto |-> 0,
          dto |-> 0, ue |-> 0, blk |-> 0, rot |-> 0, ips |-> <<>>]
OptPart(o, a, b) == IF Len(o) = 15 THEN SubSeq(o, a, b) ELSE <<>>
ScOf(t) == [mode |-> t[1], kind |-> t[2], tp |-> t[3], alg |-> t[4], res |-> t[5], loc |-> t[6], cto |-> t[7],
            dto |-> t[8], ue |-> t[9], blk |-> t[10], rot |-> t[11], ips |-> t[12]]

NewH == [order |-> <<>>,     \* indices of the connect() calls seen
         ok |-> FALSE,       \* an API call reported the connection as established
         fail |-> 0,         \* errno of the first API call that failed for good
         tv |-> -1,          \* time of the verdict
         late |-> 0,         \* timers that passed while the descriptor was readable
         prd |-> 0,          \* readiness after the previous step
         trel |-> -1,        \* time the resolver's answer arrived
         bound |-> {},       \* families whose socket was seen being bound to the local address
         hang |-> FALSE, crash |-> FALSE, bad |-> FALSE, nosock |-> FALSE]
St0 == [scn |-> 0, api |-> 0, aux |-> 0, env |-> 0, ok |-> 0, fail |-> 0, multi |-> 0, late |-> 0, diverged |-> 0, wait |-> 0,
        blocking |-> 0, server |-> 0]

Init == l = 1 /\ sc = NoScn /\ L = Fresh /\ now = 0 /\ rel = FALSE /\ mm = FALSE /\ H = NewH /\ st = St0

\* ---- reporting ------------------------------------------------------------------
Chk(c, t, x, o) == [c |-> c, t |-> t, x |-> x, o |-> o]
Failing(cs) == SelectSeq(cs, LAMBDA r : ~r.c)
Report(ln, cs) ==
  LET f == Failing(cs) IN
  IF f = <<>> THEN TRUE
  ELSE \A i \in 1..Len(f) : PrintT("@V " \o ToJson(<<ln.x, ln.n, f[i].t, f[i].x, f[i].o>>))
HasTag(cs, p) == \E i \in 1..Len(cs) : ~cs[i].c /\ cs[i].t = p
\* differences that put the model out of step with the execution
MMTags == {"MM.result", "MM.sys", "MM.time", "MM.release"}
AnyMM(cs) == \E i \in 1..Len(cs) : ~cs[i].c /\ cs[i].t \in MMTags

\* ---- observations ----------------------------------------------------------------
\* bind and connect calls of the record (the disconnects between attempts are not part of the model)
\* (and neither are calls on sockets of other families: utls tries its AF_UNIX leg first)
ObsSys(ln) == SelectSeq(ln.sys, LAMBDA e : e[1] \in {1, 2} /\ e[5] \in {4, 6})
ConnIdx(sys) == LET c == SelectSeq(sys, LAMBDA e : e[1] = 2) IN [k \in 1..Len(c) |-> c[k][2]]
Binds(sys) == SelectSeq(sys, LAMBDA e : e[1] = 1)

\* history part, on every record of a library call
CommonChecks(ln) ==
  <<Chk(ln.nb = 0 \/ ln.w = 0, "C05.wait", 0, <<ln.op, ln.w>>),
    Chk(ln.hg = 0, "C13.hang", "the call returns", IF ln.hg = 2 THEN "busy loop inside the call" ELSE "waits for nothing"),
    Chk(ln.un = 0, "INCONCLUSIVE", 0, "kernel did not settle")>>

Scan(ln) == BoundScan(ObsSys(ln), 1, H.bound, TRUE, <<>>)
HistSys(ln) ==
  LET o == ObsSys(ln) IN
  <<Chk(LocFam(sc) = 0 \/ Scan(ln).ok, "C13.local", "every connect from a socket bound to the local address", o),
    Chk(\A k \in 1..Len(o) : o[k][1] = 2 => o[k][2] # 0, "C13.order", "addresses of the answer", o)>>

\* the verdict an API result carries
IsOkVerdict(ln) == \/ (ln.op = "finish" /\ ln.ret = 0)
                   \/ (ln.op = "send" /\ ln.ret > 0)
                   \/ (ln.op = "connect" /\ ln.ret = 0 /\ sc.blk = 1)
IsFailVerdict(ln) == ln.ret < 0 /\ ln.err # EAGAIN /\ ln.op \in {"connect", "finish", "send", "receive"}

HUpdate(ln) ==
  LET decided == H.ok \/ H.fail # 0
      ok2 == IF ~decided /\ IsOkVerdict(ln) THEN TRUE ELSE H.ok
      fail2 == IF ~decided /\ IsFailVerdict(ln) /\ ln.hg = 0 THEN ln.err ELSE H.fail
  IN [H EXCEPT !.order = @ \o ConnIdx(ObsSys(ln)), !.ok = ok2, !.fail = fail2, !.bound = Scan(ln).bound,
               !.tv = IF ~decided /\ (ok2 \/ fail2 # 0) THEN ln.t ELSE @,
               !.prd = ln.rd, !.hang = @ \/ ln.hg # 0,
               !.nosock = @ \/ (ln.op = "connect" /\ ln.ret < 0)]

\* ---- model part: comparisons --------------------------------------------------------
ResChecks(ln, E) ==
  <<Chk(ln.ret = E.ret /\ ln.err = E.err, "MM.result", <<E.ret, E.err>>, <<ln.op, ln.ret, ln.err>>)>>
SysChecks(ln, E) ==
  <<Chk(Scan(ln).canon = E.sys, "MM.sys", E.sys, ObsSys(ln))>>
\* a wake-up the model owes and the descriptor does not show: the application would never call again
WakeChecks(ln, wk) ==
  IF wk = -1 \/ ln.rd = -1 THEN <<>>
  ELSE <<Chk(wk # 1 \/ ln.rd = 1, "C13.hang", "descriptor readable", <<ln.op, "not readable", ln.t>>),
         Chk(wk # 0 \/ ln.rd = 0, "MM.spurious", "not readable", ln.op)>>
TimeChecks(ln, t) == <<Chk(ln.t = t, "MM.time", t, ln.t)>>

\* ---- steps ------------------------------------------------------------------------------
Bump(f) == [st EXCEPT ![f] = @ + 1]

StepScn(ln) ==
  /\ sc' = ScOf(ln.sc) /\ L' = Fresh /\ now' = 0 /\ rel' = FALSE /\ mm' = FALSE /\ H' = NewH
  /\ st' = [st EXCEPT !.scn = @ + 1, !.blocking = @ + (IF ln.sc[10] = 1 THEN 1 ELSE 0),
                      !.server = @ + (IF ln.sc[2] = "server" THEN 1 ELSE 0)]

StepConnect(ln) ==
  LET r == ConnectCall(sc, now, rel)
      cm == IF mm THEN <<>> ELSE SysChecks(ln, r.L) \o ResChecks(ln, r.L) \o TimeChecks(ln, r.now)
      \* the wake-up is owed only while the model is in step with the execution, this call included
      cs == CommonChecks(ln) \o HistSys(ln) \o cm \o
            (IF mm \/ AnyMM(cm) THEN <<>>
             ELSE <<Chk(~r.hang, "C13.design", "model returns", "model hangs")>> \o
                  WakeChecks(ln, Wake(sc, r.now, r.rel, r.L)))
  IN /\ Report(ln, cs)
     /\ L' = r.L /\ now' = r.now /\ rel' = r.rel
     /\ mm' = (mm \/ AnyMM(cs))
     /\ H' = HUpdate(ln)
     /\ st' = [Bump("api") EXCEPT !.wait = @ + (IF ln.w > 0 THEN 1 ELSE 0)]
     /\ UNCHANGED sc

StepPoll(ln) ==
  LET E == PollCall(sc, now, rel, [L EXCEPT !.sys = <<>>], ln.op)
      cm == IF mm THEN <<>> ELSE SysChecks(ln, E) \o ResChecks(ln, E)
      cs == CommonChecks(ln) \o HistSys(ln) \o cm \o
            (IF mm \/ AnyMM(cm) THEN <<>> ELSE WakeChecks(ln, Wake(sc, now, rel, E)))
  IN /\ Report(ln, cs)
     /\ L' = E
     /\ mm' = (mm \/ AnyMM(cs))
     /\ H' = HUpdate(ln)
     /\ st' = Bump("api")
     /\ UNCHANGED <<sc, now, rel>>

StepServer(ln) ==
  LET e == ServerCall(sc)
      cs == CommonChecks(ln) \o
            <<Chk(ln.hg # 0 \/ (ln.ret = e[1] /\ ln.err = e[2]),
                  IF ln.ret = e[1] THEN "C13.errno" ELSE "C13.outcome", <<e[1], e[2]>>, <<"xcm_server", ln.ret, ln.err>>),
              Chk(ln.hg # 0 \/ ln.t <= e[3] + 4, "C13.budget", e[3], ln.t)>>
  IN /\ Report(ln, cs)
     /\ H' = [H EXCEPT !.hang = @ \/ ln.hg # 0]
     /\ st' = Bump("api")
     /\ UNCHANGED <<sc, L, now, rel, mm>>

\* an API call the model has nothing to say about (close, the C05 probes): only the common checks
StepOther(ln) ==
  /\ Report(ln, CommonChecks(ln))
  /\ st' = [Bump(IF ln.ev = "aux" THEN "aux" ELSE "api") EXCEPT !.wait = @ + (IF ln.w > 0 THEN 1 ELSE 0)]
  /\ UNCHANGED <<sc, L, now, rel, mm, H>>

StepAdvance(ln) ==
  LET nt == NextTimer(L, now)
      wasLate == H.prd = 1
      cm == IF mm THEN <<>> ELSE <<Chk(nt # -1 /\ ln.t = nt + 1, "MM.time", nt + 1, ln.t)>>
      cs == cm \o (IF mm \/ AnyMM(cm) THEN <<>> ELSE WakeChecks(ln, Wake(sc, ln.t, rel, L)))
  IN /\ Report(ln, cs)
     /\ now' = ln.t
     /\ mm' = (mm \/ AnyMM(cs))
     /\ H' = [H EXCEPT !.late = @ + (IF wasLate THEN 1 ELSE 0), !.prd = ln.rd]
     /\ st' = Bump("env")
     /\ UNCHANGED <<sc, L, rel>>

StepRelease(ln) ==
  LET can == CanRelease(sc, rel, L)
      cm == IF mm THEN <<>> ELSE <<Chk(ln.ret = (IF can THEN 1 ELSE 0), "MM.release", IF can THEN 1 ELSE 0, ln.ret)>>
      cs == cm \o (IF mm \/ AnyMM(cm) THEN <<>> ELSE WakeChecks(ln, Wake(sc, now, TRUE, L)))
  IN /\ Report(ln, cs)
     /\ rel' = TRUE
     /\ mm' = (mm \/ AnyMM(cs))
     /\ H' = [H EXCEPT !.trel = IF ln.ret > 0 /\ @ = -1 THEN ln.t ELSE @, !.prd = ln.rd]
     /\ st' = Bump("env")
     /\ UNCHANGED <<sc, L, now>>

StepStuck(ln) ==
  /\ Report(ln, <<Chk(FALSE, "C13.hang", "a verdict", "no verdict and nothing left that could wake the application")>>)
  /\ H' = [H EXCEPT !.hang = TRUE]
  /\ st' = Bump("env")
  /\ UNCHANGED <<sc, L, now, rel, mm>>

StepCrash(ln) ==
  /\ Report(ln, <<Chk(FALSE, "C13.crash", "no crash", ln.op)>>)
  /\ H' = [H EXCEPT !.crash = TRUE]
  /\ st' = st
  /\ UNCHANGED <<sc, L, now, rel, mm>>

\* ---- the end of an execution: the statement of C13 on the observed history ---------------------
\* the resolver's answer was there before dns.timeout ran out: the connect algorithm must run ...
MustResolve == \/ sc.res \in {"ip", "sync"}
               \/ (sc.res = "later" /\ sc.blk = 1)          \* (in a blocking call the answer arrives at the first wait)
               \/ (sc.res = "later" /\ H.trel # -1 /\ H.trel <= Dto(sc))
\* ... it never came: ENOENT is the only verdict ...
CannotResolve == \/ sc.res \in {"fail", "faillater", "silent"}
                 \/ (sc.res = "later" /\ sc.blk = 0 /\ H.trel = -1)
\* ... it came after the deadline: both are fine
ResolvedObs == IF MustResolve THEN TRUE ELSE IF CannotResolve THEN FALSE ELSE H.fail # ENOENT
HState(ln) ==
  [ph |-> IF H.fail # 0 THEN (IF H.nosock THEN "gone" ELSE "bad") ELSE IF H.ok THEN "ready" ELSE "connecting",
   conn |-> ln.acc, order |-> H.order, why |-> H.fail, err |-> H.fail, resolved |-> ResolvedObs]

EndChecksConn(ln) ==
  LET hs == HState(ln)
      prompt == H.late = 0
      quiet == H.hang \/ H.crash     \* already reported; what follows would only repeat it
      expAcc == IF L.ph = "ready" THEN L.conn ELSE 0
  IN
  <<Chk(quiet \/ Decided(hs), "C13.hang", "a verdict", "the schedule ended without one"),
    Chk(POrder(sc, hs), "C13.order", <<EffAlg(sc), "candidates", NCand(sc)>>, H.order),
    Chk(quiet \/ POutcome(sc, hs, prompt), "C13.outcome", IF ExpectOk(sc) THEN "connected" ELSE "failure",
        <<hs.ph, H.fail>>),
    Chk(quiet \/ hs.ph # "ready" \/ (ln.acc >= 1 /\ ln.acc <= Len(sc.ips) /\ ln.dat = 1), "C13.outcome",
        "an established connection to a listener of the answer", <<"acc", ln.acc, "data", ln.dat>>),
    Chk(quiet \/ ln.acc < 1 \/ ln.acc > Len(sc.ips) \/ PWhich(sc, hs, prompt), "C13.eligible",
        IF Accepting(sc) = {} THEN 0 ELSE MinOf(Accepting(sc)), ln.acc),
    Chk(quiet \/ PErrno(sc, hs, prompt), "C13.errno",
        IF ~ResolvedObs \/ sc.loc = "namex" THEN ENOENT ELSE IF NCand(sc) = 0 THEN 0 ELSE ErrOf(sc, NCand(sc)), H.fail),
    Chk(quiet \/ hs.ph # "ready" \/ LocFam(sc) = 0 \/ ln.src = 1, "C13.local", "source is the local address", ln.src),
    \* the resolver's answer was there before dns.timeout ran out: ENOENT ("resolution fails or exceeds dns.timeout") is not
    \* the verdict, however late the application makes its next call (the answer is read before the deadline is looked at)
    Chk(quiet \/ ~MustResolve \/ sc.loc \in {"namex", "name4"} \/ NCand(sc) = 0 \/ H.fail # ENOENT, "C13.errno",
        <<"resolved: the answer arrived at", H.trel, "dns.timeout", Dto(sc)>>, H.fail),
    \* C11: the TCP options of the connection that came out of the multi-address connect: what xcm_attr_get reports is
    \* what was configured, and it is what the kernel has on the connection (whichever of the track's sockets it is)
    Chk(Len(ln.opt) # 15 \/ \A i \in 1..5 : ln.opt[i] = -1 \/ ln.opt[i] = ln.opt[5 + i], "C11.reported",
        <<"configured", OptPart(ln.opt, 1, 5)>>, <<"reported", OptPart(ln.opt, 6, 10)>>),
    Chk(Len(ln.opt) # 15 \/ OptPart(ln.opt, 6, 10) = OptPart(ln.opt, 11, 15), "C11.in_force",
        <<"reported (keepalive, time, interval, count, user time-out)", OptPart(ln.opt, 6, 10)>>, <<"kernel", OptPart(ln.opt, 11, 15)>>),
    Chk(quiet \/ ~Decided(hs) \/ H.tv <= Budget(sc) + H.late, "C13.budget", Budget(sc), H.tv),
    Chk(quiet \/ H.fail # ETIMEDOUT \/ H.tv > sc.cto, "C13.budget", <<"ETIMEDOUT after", sc.cto>>, H.tv)>> \o
  \* model part
  (IF mm \/ quiet THEN <<>>
   ELSE <<Chk(ln.acc = expAcc, "MM.acc", expAcc, ln.acc),
          Chk(~Decided(L) \/ (POrder(sc, L) /\ POutcome(sc, L, prompt) /\ PWhich(sc, L, prompt) /\ PErrno(sc, L, prompt)),
              "C13.design", "the properties hold on the model", <<L.ph, L.conn, L.order>>)>>)

StepEnd(ln) ==
  LET cs == IF sc.kind = "server" THEN <<>> ELSE EndChecksConn(ln)
      hs == HState(ln)
  IN /\ Report(ln, cs)
     /\ st' = [st EXCEPT !.ok = @ + (IF hs.ph = "ready" THEN 1 ELSE 0),
                         !.fail = @ + (IF H.fail # 0 THEN 1 ELSE 0),
                         !.multi = @ + (IF Len(H.order) > 1 THEN 1 ELSE 0),
                         !.late = @ + (IF H.late > 0 THEN 1 ELSE 0),
                         !.diverged = @ + (IF mm THEN 1 ELSE 0)]
     /\ UNCHANGED <<sc, L, now, rel, mm, H>>

Next ==
  /\ l <= NL
  /\ l' = l + 1
  /\ LET ln == Trace[l] IN
     /\ CASE ln.ev = "scn" -> StepScn(ln)
          [] ln.ev = "api" /\ ln.op = "connect" -> StepConnect(ln)
          [] ln.ev = "api" /\ ln.op \in {"finish", "send", "receive"} -> StepPoll(ln)
          [] ln.ev = "api" /\ ln.op = "server" -> StepServer(ln)
          [] ln.ev = "env" /\ ln.op = "advance" -> StepAdvance(ln)
          [] ln.ev = "env" /\ ln.op = "release" -> StepRelease(ln)
          [] ln.ev = "env" /\ ln.op = "stuck" -> StepStuck(ln)
          [] ln.ev = "end" -> StepEnd(ln)
          [] ln.ev = "crash" -> StepCrash(ln)
          [] OTHER -> StepOther(ln)
     /\ (l < NL \/ PrintT("@STAT " \o ToJson(st')))

Spec == Init /\ [][Next]_vars

\* the whole trace was consumed (a line the specification cannot process stops it early)
Accepted == TLCGet("stats").diameter = NL + 1
=============================================================================
