------------------------------- MODULE AddrMC -------------------------------
(***************************************************************************)
(* Bounded model over Addr: TLC enumerates                                  *)
(*   - parser inputs: every string <prefix><tail> with the tail over a      *)
(*     small alphabet of class representatives up to a length bound, plus   *)
(*     boundary strings (all host texts x port texts x transports, names    *)
(*     at and beyond the limits),                                           *)
(*   - constructor calls (transport, host, port, capacity),                  *)
(* checks the laws of Addr on every one of them (invariants) and prints     *)
(* them ("@S", "@B", "@M" lines) so that the orchestrator can run the same   *)
(* cases against the real library.                                          *)
(***************************************************************************)
EXTENDS Addr, Json

CONSTANTS
  Prefixes,      \* subset of TSet \cup {"none", "unknown", "upper", "long"}: what precedes the tail
  DeepPrefixes,  \* prefixes whose tails go up to MaxTail (the others: MaxTailOther)
  Alphabet,      \* bytes the tail is made of
  Junk,          \* bytes after which a string is not extended further
  MaxTail, MaxTailOther,
  Boundary,      \* TRUE: also the boundary strings
  MkT,           \* transports for constructor calls
  MkHosts,       \* host names (HostOf) for constructor calls
  PortLo, PortHi, PortExtra,   \* ports: PortLo..PortHi \cup PortExtra
  CapMode,       \* "all": 0..len+2, "edge": {0,1,len-1..len+2}, "near": len-1..len+2
  AllCapHosts,   \* hosts for which every capacity 0..len+2 is enumerated whatever CapMode says
  BoundaryT,     \* transports for the full host text x port text product (the others: a reduced product)
  Compat,        \* TRUE: also the obsolete constructors (api 1, 2)
  Emit           \* TRUE: print the cases

VARIABLES pfx, tail, mk
vars == <<pfx, tail, mk>>

NoMk == [stage |-> 0, t |-> "", h |-> "", port |-> 0, cap |-> 0, api |-> 0]

\* ---- strings -----------------------------------------------------------------
A(n) == Rep(97, n)
PrefixBytes(p) ==
  IF p \in TSet THEN PBytes(p) \o <<COLON>>
  ELSE CASE p = "none" -> <<>>
         [] p = "unknown" -> <<120, 99, 109, COLON>>          \* "xcm:"
         [] p = "upper" -> <<84, 67, 80, COLON>>               \* "TCP:"
         [] p = "long" -> A(33) \o <<COLON>>                  \* longer than any protocol

Str == PrefixBytes(pfx) \o tail

\* ---- hosts for constructor calls ------------------------------------------------
N253 == A(63) \o <<DOT>> \o A(63) \o <<DOT>> \o A(63) \o <<DOT>> \o A(61)
HostOf(n) ==
  CASE n = "ip4lo"   -> [k |-> "ip4", b |-> <<127, 0, 0, 1>>]
    [] n = "ip4any"  -> [k |-> "ip4", b |-> <<0, 0, 0, 0>>]
    [] n = "ip4max"  -> [k |-> "ip4", b |-> <<255, 255, 255, 255>>]
    [] n = "ip4mid"  -> [k |-> "ip4", b |-> <<192, 168, 1, 42>>]
    [] n = "ip6lo"   -> [k |-> "ip6", b |-> Rep(0, 15) \o <<1>>]
    [] n = "ip6any"  -> [k |-> "ip6", b |-> Rep(0, 16)]
    [] n = "ip6full" -> [k |-> "ip6", b |-> Rep(255, 16)]
    [] n = "ip6map"  -> [k |-> "ip6", b |-> Rep(0, 10) \o <<255, 255, 1, 2, 3, 4>>]
    [] n = "ip6compat" -> [k |-> "ip6", b |-> Rep(0, 12) \o <<1, 2, 3, 4>>]
    [] n = "ip6mid"  -> [k |-> "ip6", b |-> <<32, 1, 13, 184, 0, 0, 0, 0, 0, 1, 0, 0, 0, 0, 0, 1>>]
    [] n = "ip6tail" -> [k |-> "ip6", b |-> <<254, 128>> \o Rep(0, 14)]
    [] n = "n1"      -> [k |-> "name", b |-> A(1)]
    [] n = "n63"     -> [k |-> "name", b |-> A(63)]
    [] n = "n64"     -> [k |-> "name", b |-> A(31) \o <<DOT>> \o A(32)]
    [] n = "l64"     -> [k |-> "name", b |-> A(64)]                        \* one label beyond 63
    [] n = "n253"    -> [k |-> "name", b |-> N253]
    [] n = "ndots"   -> [k |-> "name", b |-> <<97, DOT, 98, 45, 99, DOT, 69, 57>>]   \* a.b-c.E9
    [] n = "badfam"  -> [k |-> "badfam", b |-> <<0>>]
    [] n = "ux0"     -> [k |-> "ux", b |-> <<>>]
    [] n = "ux1"     -> [k |-> "ux", b |-> A(1)]
    [] n = "uxpath"  -> [k |-> "ux", b |-> <<47, 116, 109, 112, 47, 97, COLON, 98>>]     \* /tmp/a:b
    [] n = "ux107"   -> [k |-> "ux", b |-> A(107)]
    [] n = "ux108"   -> [k |-> "ux", b |-> A(108)]
    [] n = "ux109"   -> [k |-> "ux", b |-> A(109)]

HostFits(t, n) == IsUxT(t) <=> HostOf(n).k = "ux"
Ports == (PortLo..PortHi) \cup PortExtra
CompOf(m) == [k |-> HostOf(m.h).k, b |-> HostOf(m.h).b, port |-> m.port]
LenOf(m) == IF HasText(m.t, CompOf(m)) THEN Len(Full(m.t, CompOf(m))) ELSE 20
Caps(m) ==
  LET n == LenOf(m) IN
  CASE CapMode = "all" \/ m.h \in AllCapHosts -> 0..(n + 2)
    [] CapMode = "edge" -> {0, 1} \cup {c \in (n - 1)..(n + 2) : c >= 0}
    [] CapMode = "near" -> {c \in (n - 1)..(n + 2) : c >= 0}
Apis(m) ==
  {0} \cup (IF ~Compat THEN {}
            ELSE (IF m.t \in {"tcp", "tls", "utls", "sctp"} /\ HostOf(m.h).k \in {"ip4", "ip6"} THEN {1} ELSE {})
                 \cup (IF m.t \in {"tcp", "tls", "utls"} /\ HostOf(m.h).k = "ip4" THEN {2} ELSE {})
                 \cup (IF m.t = "ux" THEN {1} ELSE {}))

\* ---- boundary strings -------------------------------------------------------------
S2B(n) == Dec(n)      \* decimal text of a small number
HostTexts ==
  {HostText(HostOf(n)) : n \in {"ip4lo", "ip4any", "ip4max", "ip6lo", "ip6any", "ip6full", "ip6map", "ip6compat",
                                 "ip6mid", "ip6tail", "n1", "n63", "n64", "l64", "n253", "ndots"}}
  \cup {<<STAR>>, <<LBR, STAR, RBR>>,
        N253 \o <<97>>, N253 \o <<97, 97>>,                                   \* 254, 255 characters
        A(63) \o <<DOT>> \o A(64),                                            \* a label of 64
        <<LBR, 48, COLON, 48, COLON, 48, COLON, 48, COLON, 48, COLON, 48, COLON, 48, COLON, 49, RBR>>,  \* [0:0:0:0:0:0:0:1]
        <<LBR, 70, 69, 56, 48, COLON, COLON, 65, RBR>>,                        \* [FE80::A]
        <<LBR, COLON, COLON, 49>>, <<COLON, COLON, 49>>, <<LBR, RBR>>,          \* [::1   ::1   []
        <<LBR, 49, COLON, COLON, 50, COLON, COLON, 51, RBR>>,                   \* [1::2::3]
        <<LBR, 49, 50, 51, 52, 53, COLON, COLON, RBR>>,                         \* [12345::]
        <<LBR, 103, COLON, COLON, RBR>>,                                       \* [g::]
        <<49, DOT, 50, DOT, 51>>, <<50, 53, 54, DOT, 49, DOT, 49, DOT, 49>>,      \* 1.2.3   256.1.1.1
        <<48, 49, DOT, 50, DOT, 51, DOT, 52>>,                                  \* 01.2.3.4
        <<>>, <<97, 95, 98>>, <<45, 97>>, <<97, DOT, DOT, 98>>, <<97, DOT>>}      \* ""  a_b  -a  a..b  a.
PortTexts ==
  {S2B(n) : n \in {0, 1, 9, 10, 80, 4711, 9999, 10000, 65535}}
  \cup {<<54, 53, 53, 51, 54>>, <<57, 57, 57, 57, 57>>, <<49, 48, 48, 48, 48, 48>>,       \* 65536 99999 100000
        <<52, 50, 57, 52, 57, 54, 55, 50, 57, 54>>,                                   \* 4294967296 = 2^32
        <<52, 50, 57, 52, 57, 54, 55, 51, 55, 54>>,                                   \* 4294967376 = 2^32 + 80
        <<49, 56, 52, 52, 54, 55, 52, 52, 48, 55, 51, 55, 48, 57, 53, 53, 49, 54, 57, 54>>,   \* 2^64 + 80
        <<>>, <<48, 48, 56, 48>>, <<PLUS, 56, 48>>, <<MINUS, 48>>, <<MINUS, 49>>,           \* ""  0080  +80  -0  -1
        <<56, 48, 97>>, <<48, 120, 53, 48>>, <<56, 48, 32>>, <<32, 56, 48>>, <<9, 56, 48>>}  \* 80a 0x50 "80 " " 80" "\t80"
HPT == TSet \ {"ux", "uxf"}
BoundaryStrings ==
  IF ~Boundary THEN {}
  ELSE {PBytes(t) \o <<COLON>> \o h \o <<COLON>> \o p : t \in BoundaryT, h \in HostTexts, p \in PortTexts}
       \cup {PBytes(t) \o <<COLON>> \o h \o <<COLON, 56, 48>> : t \in HPT, h \in HostTexts}
       \cup {PBytes(t) \o <<COLON, 97, COLON>> \o p : t \in HPT, p \in PortTexts}
       \cup {PBytes(t) \o <<COLON>> \o h : t \in HPT, h \in {HostText(HostOf("ip4lo")), HostText(HostOf("ip6lo")), A(3)}}
       \cup {PBytes(t) \o <<COLON>> \o A(n) : t \in {"ux", "uxf"}, n \in {0, 1, 2, 106, 107, 108, 109, 400}}
       \cup {PBytes(t) \o <<COLON>> \o HostOf("uxpath").b : t \in {"ux", "uxf"}}
       \cup {PBytes(t) \o <<COLON>> \o <<97, 32, 98>> : t \in {"ux", "uxf"}}
       \cup {PBytes("tcp") \o <<COLON>> \o A(n) \o <<COLON, 56, 48>> : n \in {512, 513, 571, 572, 573, 600}}
       \cup {PBytes("ux") \o <<COLON>> \o A(n) : n \in {574, 575, 576, 577}}
       \cup {A(n) \o <<COLON>> \o A(2) : n \in {31, 32, 33, 63, 64, 65}}
       \cup {<<>>, <<COLON>>, A(3), PBytes("tcp"), PBytes("ux")}

\* ---- behaviour ------------------------------------------------------------------------
Init == pfx = "root" /\ tail = <<>> /\ mk = NoMk

GenStart == /\ pfx = "root"
            /\ pfx' \in Prefixes
            /\ UNCHANGED <<tail, mk>>
GenBoundary == /\ pfx = "root"
               /\ pfx' = "boundary"
               /\ tail' \in BoundaryStrings
               /\ UNCHANGED mk
Dead == \E i \in 1..Len(tail) : tail[i] \in Junk
GenStep == /\ pfx \in Prefixes
           /\ Len(tail) < (IF pfx \in DeepPrefixes THEN MaxTail ELSE MaxTailOther)
           /\ ~Dead
           /\ \E c \in Alphabet : tail' = Append(tail, c)
           /\ UNCHANGED <<pfx, mk>>
MkHost == /\ pfx = "root"
          /\ pfx' = "mk"
          /\ \E t \in MkT, h \in MkHosts : HostFits(t, h) /\ mk' = [NoMk EXCEPT !.stage = 1, !.t = t, !.h = h]
          /\ UNCHANGED tail
MkPort == /\ mk.stage = 1
          /\ \E p \in (IF IsUxT(mk.t) THEN {0} ELSE Ports) : mk' = [mk EXCEPT !.stage = 2, !.port = p]
          /\ UNCHANGED <<pfx, tail>>
MkCap == /\ mk.stage = 2
         /\ \E c \in Caps(mk), a \in Apis(mk) : mk' = [mk EXCEPT !.stage = 3, !.cap = c, !.api = a]
         /\ UNCHANGED <<pfx, tail>>

Next == GenStart \/ GenBoundary \/ GenStep \/ MkHost \/ MkPort \/ MkCap
Spec == Init /\ [][Next]_vars

\* ---- invariants: the laws on everything enumerated ----------------------------------------
IsStr == pfx \in Prefixes \/ pfx = "boundary"
TheStr == IF pfx = "boundary" THEN tail ELSE Str
InvDispatch  == IsStr => LawDispatch(TheStr)
InvParseMake == IsStr => LawParseMake(TheStr)
InvMakeParse == mk.stage = 3 => LawMakeParse(mk.t, CompOf(mk), mk.cap)

\* ---- emission ---------------------------------------------------------------------------------
EmitCases ==
  \/ ~Emit
  \/ (IsStr /\ PrintT((IF pfx = "boundary" THEN "@B " ELSE "@S ") \o ToJson(TheStr)))
  \/ (mk.stage = 3 /\ PrintT("@M " \o ToJson([t |-> mk.t, k |-> HostOf(mk.h).k, b |-> HostOf(mk.h).b, h |-> mk.h,
                                               port |-> mk.port, cap |-> mk.cap, api |-> mk.api])))
  \/ TRUE
=============================================================================
