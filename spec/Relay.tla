------------------------------- MODULE Relay -------------------------------
(***************************************************************************)
(* C20 - xcmrelay is transparent.                                          *)
(*                                                                         *)
(* Per relayed connection k: a client application "c", a server-side       *)
(* application "s" and, between them, the relay holding two XCM            *)
(* connections ("legs"; leg x is the one whose far end is application x).  *)
(* A leg is the abstract XCM connection established by Xcm.tla: per        *)
(* direction a FIFO of bounded capacity (the two kernels' buffers),        *)
(*    Send    -> ok | EAGAIN (full) | EPIPE (far end closed)               *)
(*    Receive -> unit | EAGAIN | 0 (far end closed and the queue drained)  *)
(* and, on the relay's sending side when LBuf, the one-message buffer of   *)
(* the tcp/tls transports (xcm_send accepts a message although the kernel  *)
(* is full; it leaves with a later call; xcm_close drops it).  The fd of a *)
(* leg is active according to the awaited condition (xcm_await).           *)
(*                                                                         *)
(* The relay is transcribed from tools/xcmrelay/xrelay.c + rserver.c:      *)
(*   hold[d]   xfwd.data / data_len of direction d ("cs": c -> s)          *)
(*   cond[x]   xrelay.cond0 / cond1 (the condition awaited on leg x,       *)
(*             shared by the two directions: RECEIVABLE belongs to the     *)
(*             direction reading from x, SENDABLE to the one writing to x) *)
(*   Poll      libevent collects the active descriptors; every active      *)
(*             descriptor queues BOTH xfwd_active callbacks (src_event of  *)
(*             one direction, dst_event of the other)                      *)
(*   RunCb     one xfwd_active(fd) call; queued callbacks run in any order *)
(*             and also when the fd is no longer active; the applications  *)
(*             (other processes) may act between two callbacks             *)
(*   Terminate rserver_terminate_relay: xrelay_stop (event_del drops the   *)
(*             queued callbacks) + xrelay_destroy (xcm_close on both legs) *)
(*                                                                         *)
(* Deviations of the code from the intended design are named flags in Dev  *)
(* (DESIGN 6.4).  With Dev = {} the module describes the intended design   *)
(* and the properties below must hold; with a flag it describes what the   *)
(* code does and TLC exhibits the counterexample (the first two were       *)
(* reproduced on the real tool by lib/check_c20.py: classes                *)
(* C20.close_loss/late_send and C20.close_loss/last_unit):                 *)
(*   "relay_close_loss"  a send (or flush) answered EPIPE/ECONNRESET in    *)
(*        one direction terminates the whole relayed connection            *)
(*        (xfwd_send -> xfwd_handle_term), dropping what the closing side  *)
(*        had sent and the relay still holds or has not yet read           *)
(*   "relay_noflush"     on 0 from the source the relay closes the         *)
(*        destination leg at once (xrelay_destroy -> xcm_close) although   *)
(*        the last forwarded message may still sit in the tcp/tls send     *)
(*        buffer (no xcm_finish)                                           *)
(*   "epipe_closes"      (library, C06) a flush answered EPIPE inside      *)
(*        xcm_receive makes it return 0 without reading what is queued     *)
(***************************************************************************)
EXTENDS Integers, Sequences, FiniteSets, TLC, Json, RelayProps

CONSTANTS NConn,     \* number of relayed connections
          MaxMsg,    \* messages an application may send per connection
          Cap,       \* capacity of each leg direction
          LBuf,      \* the relay's legs have a one-message send buffer (tcp, tls) or not (ux)
          Hup,       \* a closed far end makes the fd active whatever is awaited (ux) or not (tcp: FIN)
          Dev,       \* named deviations
          Quiet,     \* applications that never send, as {"1c", "2s", ..}
          NoClose,   \* applications that never close
          Mut,       \* design mutants (sharpness of the properties; {} everywhere else)
          Gen,       \* record the application-level history (scenario generation)
          EmitMod    \* scenario generation: print one path in EmitMod (1: all)

Conns == 1..NConn
Side == {"c", "s"}
Dir == {"cs", "sc"}
Other(x) == IF x = "c" THEN "s" ELSE "c"
Src(d) == IF d = "cs" THEN "c" ELSE "s"
Dst(d) == IF d = "cs" THEN "s" ELSE "c"
Rev(d) == IF d = "cs" THEN "sc" ELSE "cs"
From(x) == IF x = "c" THEN "cs" ELSE "sc"     \* the direction reading from leg x
To(x) == From(Other(x))                        \* the direction writing to leg x
Key(k, x) == ToString(k) \o x
MaxOf(k, x) == IF Key(k, x) \in Quiet THEN 0 ELSE MaxMsg

VARIABLES rc,      \* per relayed connection: legs, relay state, application observations
          pend,    \* callbacks libevent has queued: <<k, leg, direction>>
          ralive,  \* the relay process runs
          hist     \* application-level history (Gen only)
vars == <<rc, pend, ralive, hist>>

InitConn ==
  [st |-> "idle",                          \* "idle" not yet accepted, "run", "term"
   aopen |-> [x \in Side |-> TRUE],        \* application x has not closed
   qin |-> [x \in Side |-> <<>>],          \* leg x, application -> relay
   qout |-> [x \in Side |-> <<>>],         \* leg x, relay -> application
   lb |-> [x \in Side |-> 0],              \* leg x, relay's send buffer (0: empty)
   hold |-> [d \in Dir |-> 0],             \* message held by direction d (0: none)
   cond |-> [x \in Side |-> {}],           \* awaited on leg x, subset of {"R", "S"}
   dead |-> [d \in Dir |-> FALSE],         \* intended design: direction given up (destination gone)
   fin |-> [d \in Dir |-> FALSE],          \* intended design: source ended, flushing the destination
   nsent |-> [x \in Side |-> 0],           \* sends of application x that were accepted
   got |-> [x \in Side |-> <<>>],          \* what application x received
   seen |-> [x \in Side |-> "no"],         \* application x was shown the end: "no" | "eof"
   spipe |-> [x \in Side |-> FALSE]]       \* application x had a send refused with EPIPE

Init == /\ rc = [k \in Conns |-> InitConn] /\ pend = {} /\ ralive = TRUE /\ hist = <<>>

InFlight(c, d) == Len(c.qin[Src(d)]) + (IF c.hold[d] # 0 THEN 1 ELSE 0)
                  + (IF c.lb[Dst(d)] # 0 THEN 1 ELSE 0) + Len(c.qout[Dst(d)])
MaxInFlight == 2 * Cap + 1 + (IF LBuf THEN 1 ELSE 0)

Note(e) == IF Gen THEN Append(hist, e) ELSE hist
Ev(a, k, x, lv, m) == [a |-> a, k |-> k, x |-> x, lv |-> lv, m |-> m]

\* ---- the leg as the relay sees it -------------------------------------------------
\* the buffered message leaves for the kernel when there is room
Flush(c, x) == IF c.lb[x] # 0 /\ c.aopen[x] /\ Len(c.qout[x]) < Cap
               THEN [c EXCEPT !.qout[x] = Append(@, c.lb[x]), !.lb[x] = 0] ELSE c
\* xcm_send on leg x would not answer EAGAIN
SendRoom(c, x) == IF LBuf THEN c.lb[x] = 0 \/ Len(c.qout[x]) < Cap ELSE Len(c.qout[x]) < Cap

\* the fd of leg x is active (level triggered)
Active(c, x) ==
  \/ "R" \in c.cond[x] /\ (c.qin[x] # <<>> \/ ~c.aopen[x])
  \/ "S" \in c.cond[x] /\ (SendRoom(c, x) \/ ~c.aopen[x])
  \/ c.lb[x] # 0 /\ (Len(c.qout[x]) < Cap \/ ~c.aopen[x])    \* the library's own wish to flush
  \/ Hup /\ ~c.aopen[x]

\* ---- xrelay.c ---------------------------------------------------------------------
AwaitInput(c, d) == [c EXCEPT !.cond[Src(d)] = IF "no_rearm" \in Mut THEN @ ELSE @ \cup {"R"}, !.cond[Dst(d)] = @ \ {"S"}]
AwaitOutput(c, d) == [c EXCEPT !.cond[Dst(d)] = @ \cup {"S"}, !.cond[Src(d)] = IF "overwrite" \in Mut THEN @ ELSE @ \ {"R"}]

\* rserver_terminate_relay: both legs closed; what the relay holds, has buffered or has
\* not yet read is gone; what already sits in an application's kernel stays readable
Terminate(c) == [c EXCEPT !.st = "term", !.cond = [x \in Side |-> {}], !.qin = [x \in Side |-> <<>>],
                          !.lb = [x \in Side |-> 0], !.hold = [d \in Dir |-> 0]]

\* intended design: the destination of d is gone - give up this direction only
KillDir(c, d) ==
  LET c1 == [c EXCEPT !.hold[d] = 0, !.dead[d] = TRUE, !.lb[Dst(d)] = 0,
                      !.cond[Src(d)] = @ \ {"R"}, !.cond[Dst(d)] = @ \ {"S"}]
  IN IF c1.dead[Rev(d)] THEN Terminate(c1) ELSE c1

\* intended design: the source of d has ended and is drained - the opposite direction is
\* pointless; close once the destination has taken the last forwarded message
SrcEof(c, d) ==
  LET c1 == [c EXCEPT !.fin[d] = TRUE, !.dead[Rev(d)] = TRUE, !.hold[Rev(d)] = 0, !.lb[Src(d)] = 0,
                      !.cond = [x \in Side |-> {}]]
  IN IF c1.lb[Dst(d)] = 0 \/ ~c1.aopen[Dst(d)] THEN Terminate(c1) ELSE c1

SendFailed(c, d) == IF "relay_close_loss" \in Dev THEN Terminate(c) ELSE KillDir(c, d)
Eof(c, d) == IF "relay_noflush" \in Dev THEN Terminate(c) ELSE SrcEof(c, d)

\* xcm_send answered EAGAIN: the message stays held (mutant: it is dropped)
Refused(c, d) == IF "drop_on_eagain" \in Mut THEN AwaitInput([c EXCEPT !.hold[d] = 0], d) ELSE c

\* xfwd_send.  Each operator yields the set of possible outcomes.
XSend(c, d) ==
  LET y == Dst(d)
      m == c.hold[d]
  IN IF ~c.aopen[y]
     THEN {SendFailed(c, d)}                                        \* EPIPE | ECONNRESET
          \cup (IF LBuf THEN {AwaitInput([c EXCEPT !.hold[d] = 0], d)} ELSE {})  \* tcp: the first write after a FIN still succeeds (and is lost)
     ELSE LET c1 == Flush(c, y) IN
          IF LBuf
          THEN IF c1.lb[y] # 0 THEN {Refused(c1, d)}                             \* EAGAIN
               ELSE {AwaitInput(Flush([c1 EXCEPT !.lb[y] = m, !.hold[d] = 0], y), d)}
          ELSE IF Len(c1.qout[y]) >= Cap THEN {Refused(c1, d)}                   \* EAGAIN
               ELSE {AwaitInput([c1 EXCEPT !.qout[y] = Append(@, m), !.hold[d] = 0], d)}

\* xfwd_receive
XReceive(c, d) ==
  LET x == Src(d)
      c1 == Flush(c, x)
  IN IF ~c.aopen[x] /\ c.lb[x] # 0 /\ "epipe_closes" \in Dev THEN {Eof(c, d)}  \* flush EPIPE => 0
     ELSE IF ~c.aopen[x] /\ "early_close" \in Mut THEN {Eof(c, d)}
     ELSE IF c1.qin[x] # <<>>
          THEN {AwaitOutput([c1 EXCEPT !.hold[d] = Head(c1.qin[x]), !.qin[x] = Tail(@)], d)}
     ELSE IF ~c1.aopen[x] THEN {Eof(c1, d)}                                      \* 0
     ELSE {c1}                                                                   \* EAGAIN

\* xcm_finish(leg z) from xfwd_active; an error other than EAGAIN -> xfwd_handle_err
XFinish(c, z) ==
  IF c.lb[z] # 0 /\ ~c.aopen[z]
  THEN {IF "relay_close_loss" \in Dev THEN Terminate(c) ELSE KillDir(c, To(z))}
  ELSE {Flush(c, z)}

\* intended design only: flushing the destination of a finished direction
FinStep(c, d) ==
  LET y == Dst(d) IN
  IF ~c.aopen[y] THEN {Terminate(c)}
  ELSE LET c1 == Flush(c, y) IN IF c1.lb[y] = 0 THEN {Terminate(c1)} ELSE {c1}

\* xfwd_active(fd of leg x) of direction d
Callback(c, d, x) ==
  IF c.st # "run" \/ c.dead[d] THEN {c}
  ELSE IF c.fin[d] THEN FinStep(c, d)
  ELSE IF c.hold[d] = 0                       \* awaits_input
       THEN IF x = Src(d) THEN XReceive(c, d) ELSE XFinish(c, Dst(d))
       ELSE IF x = Dst(d) THEN XSend(c, d)
            ELSE IF "overwrite" \in Mut THEN XReceive(c, d) ELSE XFinish(c, Src(d))

\* ---- relay process ------------------------------------------------------------------
\* rserver_accept + xrelay_start: both directions start with xfwd_await_input
Accept(k) ==
  /\ ralive /\ rc[k].st = "idle"
  /\ rc' = [rc EXCEPT ![k].st = "run", ![k].cond = [x \in Side |-> {"R"}]]
  /\ hist' = Note(Ev("A", k, "c", 0, 0))
  /\ UNCHANGED <<pend, ralive>>

Poll ==
  /\ ralive /\ pend = {}
  /\ LET new == {p \in Conns \X Side \X Dir :
                   rc[p[1]].st = "run" /\ Active(rc[p[1]], p[2]) /\ ~rc[p[1]].dead[p[3]]}
     IN new # {} /\ pend' = new
  /\ UNCHANGED <<rc, ralive, hist>>

RunCb(k, x, d) ==
  /\ <<k, x, d>> \in pend
  /\ \E c1 \in Callback(rc[k], d, x) :
       /\ rc' = [rc EXCEPT ![k] = c1]
       /\ pend' = IF c1.st = "term" THEN {p \in pend : p[1] # k} ELSE pend \ {<<k, x, d>>}
  /\ UNCHANGED <<ralive, hist>>

\* ---- applications -------------------------------------------------------------------
AppSend(k, x) ==
  LET c == rc[k] IN
  /\ c.aopen[x] /\ ~c.spipe[x] /\ c.seen[x] = "no" /\ c.nsent[x] < MaxOf(k, x)
  /\ (x = "s" => c.st # "idle")
  /\ IF c.st = "term"
     THEN /\ rc' = [rc EXCEPT ![k].spipe[x] = TRUE]
          /\ hist' = Note(Ev("E", k, x, 0, 0))
     ELSE /\ Len(c.qin[x]) < Cap                                 \* otherwise EAGAIN
          /\ rc' = [rc EXCEPT ![k].qin[x] = Append(@, c.nsent[x] + 1), ![k].nsent[x] = @ + 1]
          /\ hist' = Note(Ev("S", k, x, InFlight(rc'[k], From(x)), c.nsent[x] + 1))
  /\ UNCHANGED <<pend, ralive>>

AppRecv(k, x) ==
  LET c == rc[k] IN
  /\ c.aopen[x] /\ c.seen[x] = "no"
  /\ IF c.qout[x] # <<>>
     THEN /\ rc' = [rc EXCEPT ![k].got[x] = Append(@, Head(c.qout[x])), ![k].qout[x] = Tail(@)]
          /\ hist' = Note(Ev("R", k, x, InFlight(rc'[k], To(x)), Head(c.qout[x])))
     ELSE /\ c.st = "term"                                       \* otherwise EAGAIN
          /\ rc' = [rc EXCEPT ![k].seen[x] = "eof"]
          /\ hist' = Note(Ev("Z", k, x, 0, 0))
  /\ UNCHANGED <<pend, ralive>>

AppClose(k, x) ==
  LET c == rc[k] IN
  /\ c.aopen[x] /\ Key(k, x) \notin NoClose
  /\ (x = "s" => c.st # "idle")
  /\ rc' = [rc EXCEPT ![k].aopen[x] = FALSE, ![k].qout[x] = <<>>]
  /\ hist' = Note(Ev("C", k, x, InFlight(c, From(x)), 0))
  /\ UNCHANGED <<pend, ralive>>

Next ==
  \/ Poll
  \/ \E k \in Conns : Accept(k)
  \/ \E k \in Conns, x \in Side, d \in Dir : RunCb(k, x, d)
  \/ \E k \in Conns, x \in Side : AppSend(k, x) \/ AppRecv(k, x) \/ AppClose(k, x)

Spec == Init /\ [][Next]_vars

\* the relay runs; a reading application keeps reading
Fair == /\ WF_vars(Poll)
        /\ \A k \in Conns : WF_vars(Accept(k))
        /\ \A k \in Conns, x \in Side, d \in Dir : WF_vars(RunCb(k, x, d))
        /\ \A k \in Conns, x \in Side : WF_vars(AppRecv(k, x))
FairSpec == Spec /\ Fair
\* Independent, temporal part: only connection 2's applications are assumed to read
Fair2 == /\ WF_vars(Poll)
         /\ \A k \in Conns : WF_vars(Accept(k))
         /\ \A k \in Conns, x \in Side, d \in Dir : WF_vars(RunCb(k, x, d))
         /\ \A x \in Side : WF_vars(AppRecv(NConn, x))
FairSpec2 == Spec /\ Fair2

\* ---- properties ---------------------------------------------------------------------
TypeOK ==
  /\ ralive \in BOOLEAN
  /\ pend \subseteq Conns \X Side \X Dir
  /\ \A k \in Conns : LET c == rc[k] IN
       /\ c.st \in {"idle", "run", "term"}
       /\ \A x \in Side : /\ Len(c.qin[x]) <= Cap /\ Len(c.qout[x]) <= Cap
                          /\ c.lb[x] \in 0..MaxMsg /\ c.cond[x] \subseteq {"R", "S"}
                          /\ c.nsent[x] \in 0..MaxMsg
       /\ \A d \in Dir : c.hold[d] \in 0..MaxMsg
       /\ (~LBuf => \A x \in Side : c.lb[x] = 0)

\* per direction: what the destination application received is, in order and without
\* duplicates, a prefix of what the source application's successful sends accepted
Transparent ==
  \A k \in Conns, d \in Dir : LET g == rc[k].got[Dst(d)] IN
    \A j \in 1..Len(g) : DeliveredOK(j - 1, g[j], 1, rc[k].nsent[Src(d)])

\* a side that is shown the end because the other side closed has received everything
\* the closing side had sent
CloseAfterData ==
  \A k \in Conns, x \in Side : LET c == rc[k] IN
    (c.seen[x] = "eof" /\ ~c.aopen[Other(x)]) => CloseOK(Len(c.got[x]), c.nsent[Other(x)])

\* the relay ends a relayed connection only when one of its legs has ended, and never exits
RelayAlive ==
  /\ ralive
  /\ \A k \in Conns : LET c == rc[k] IN
       /\ c.st = "term" => EndAllowed(c.aopen["c"], c.aopen["s"])
       /\ \A x \in Side : (c.seen[x] = "eof" \/ c.spipe[x]) => EndAllowed(c.aopen[x], c.aopen[Other(x)])

\* nothing queued for and nothing active on connection k
RelayIdle(k) == (\A p \in pend : p[1] # k) /\ \A x \in Side : ~Active(rc[k], x)

\* a relay with nothing to do owes nothing: no held message with a writable destination,
\* no readable (or ended) source with an empty hold slot, no buffered message that could leave
NoStall ==
  \A k \in Conns : LET c == rc[k] IN
    (c.st = "run" /\ RelayIdle(k)) =>
      /\ \A d \in Dir : (~c.dead[d] /\ ~c.fin[d]) =>
            /\ c.hold[d] # 0 => (~SendRoom(c, Dst(d)) /\ c.aopen[Dst(d)])
            /\ c.hold[d] = 0 => (c.qin[Src(d)] = <<>> /\ c.aopen[Src(d)])
      /\ \A x \in Side : c.lb[x] # 0 => (Len(c.qout[x]) >= Cap /\ c.aopen[x])

\* Independent, state part: whatever the other connections do (full, closed, terminated,
\* callbacks pending), the relay's obligations towards connection k depend on k alone -
\* this is NoStall, which quantifies over every reachable combination; and a connection
\* that ended leaves no callback behind
NoOrphanCallback == \A p \in pend : rc[p[1]].st = "run"

\* every accepted message is eventually delivered, or its receiver is shown the end / has closed
Progress ==
  \A k \in Conns, d \in Dir, i \in 1..MaxMsg :
    (rc[k].nsent[Src(d)] >= i) ~>
       (Len(rc[k].got[Dst(d)]) >= i \/ rc[k].seen[Dst(d)] # "no" \/ ~rc[k].aopen[Dst(d)])
\* after a close the other side is eventually shown the end
CloseSeen ==
  \A k \in Conns, x \in Side :
    (~rc[k].aopen[x] /\ (x = "c" \/ rc[k].st # "idle")) ~> (rc[k].seen[Other(x)] # "no" \/ ~rc[k].aopen[Other(x)])
\* the same for the last connection alone, the others' applications being arbitrary
Progress2 ==
  \A d \in Dir, i \in 1..MaxMsg :
    (rc[NConn].nsent[Src(d)] >= i) ~>
       (Len(rc[NConn].got[Dst(d)]) >= i \/ rc[NConn].seen[Dst(d)] # "no" \/ ~rc[NConn].aopen[Dst(d)])

\* ---- vacuity counters (evaluated by the orchestrator through -coverage / TLCGet) -------
\* states in which a message is held while the destination refuses (the situation the
\* hold-one-message logic exists for), and states with traffic held in both directions
HeldBlocked == \E k \in Conns, d \in Dir : rc[k].hold[d] # 0 /\ ~SendRoom(rc[k], Dst(d)) /\ rc[k].aopen[Dst(d)]
BothHeld == \E k \in Conns : rc[k].hold["cs"] # 0 /\ rc[k].hold["sc"] # 0
NeverHeldBlocked == ~HeldBlocked
NeverBothHeld == ~BothHeld

\* ---- scenario generation --------------------------------------------------------------
\* With Gen the application-level history is recorded in hist; the VIEW hides it, so the
\* state space is that of the real variables, and the action constraint prints the history
\* for every transition that is an application action: one behaviour of the model (the
\* breadth-first path to the source state plus that transition) per application-level
\* transition of the state graph.  The orchestrator turns them into scripts for the real tool.
GenView == <<rc, pend, ralive>>
EmitPath == \/ hist' = hist
            \/ (EmitMod > 1 /\ RandomElement(1..EmitMod) # 1)
            \/ PrintT("@P " \o ToJson(hist'))
=============================================================================
