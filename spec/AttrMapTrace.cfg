SPECIFICATION TSpec
CONSTANTS
  Keys = {}
  ValSet = "small"
  MaxOps = 0
  EmitPaths = "none"
POSTCONDITION Accepted
CHECK_DEADLOCK FALSE
