/*
 * C15 driver: many threads, each with sockets of its own (all transports), exchanging sequence-numbered
 * messages between its own socket pairs, while the hooks H5-H7 (libxcm/core/verif.h) report every change of
 * the process-wide state from inside the library's critical sections.
 *
 *   thr_exec <out.ndjson> <x> <seed> <threads> <rounds> <pairs> <peakpairs> <msgs> <credsdir> <flags>
 *
 * flags: 1 widen the critical sections (sched_yield in the hooks)     2 hand a connected socket to another thread
 *        4 blocking-mode client/server thread duos                    8 resolve "localhost" (c-ares) on some connects
 *       16 no hooks at all (plain ThreadSanitizer run)
 *       32 cold start: every thread's first library call happens at the same moment (first-use initialisations:
 *          version_logged, the cached_proto pointers), one connection per thread and round, the same transport for
 *          all threads in a round, another one in the next round
 *
 * Everything the driver asserts itself is a fact about its own bookkeeping; the verdicts are TLC's
 * (spec/ThreadsTrace.tla) and ThreadSanitizer's.  The hook callback uses relaxed atomics and thread-local
 * buffers only, so that it adds no happens-before edge that could hide a missing lock from TSan.
 *
 * exit status: 0 done, 3 stalled (events are written all the same), 4 usage / set-up trouble, anything else: crash.
 */
#include <errno.h>
#include <fcntl.h>
#include <inttypes.h>
#include <poll.h>
#include <pthread.h>
#include <sched.h>
#include <signal.h>
#include <stdarg.h>
#include <stdatomic.h>
#include <stdbool.h>
#include <stdint.h>
#include <stdio.h>
#include <stdlib.h>
#include <string.h>
#include <sys/resource.h>
#include <sys/stat.h>
#include <unistd.h>

#include "xcm.h"
#include "xcm_attr.h"
#include "xcm_attr_map.h"
#include "verif.h"

#define MAXT 64
#define MAXPAIRS 64
#define MAXMSG 65535

enum { F_YIELD = 1, F_HANDOVER = 2, F_DUO = 4, F_DNS = 8, F_NOHOOKS = 16, F_COLD = 32 };

enum tp { TP_UX, TP_UXF, TP_TCP, TP_TLS, TP_UTLS, TP_BTCP, TP_BTLS, TP_N };
static const char *tp_name[TP_N] = { "ux", "uxf", "tcp", "tls", "utls", "btcp", "btls" };
static const bool tp_is_tls[TP_N] = { false, false, false, true, true, false, true };
static const bool tp_is_bytes[TP_N] = { false, false, false, false, false, true, true };

/* ------------------------------------------------------------------ events ---------- */
enum kind { K_AFD_GET, K_AFD_NEW, K_AFD_PUT, K_AFD_CLOSE, K_CTX_HIT, K_CTX_NEW, K_CTX_PUT, K_CTX_FREE, K_SOCK_ID,
	    K_LIVE, K_PEAK, K_CONN, K_END, K_STRAY, K_PSTATE, K_N };
static const char *kind_name[K_N] = { "afd_get", "afd_new", "afd_put", "afd_close", "ctx_hit", "ctx_new", "ctx_put",
				       "ctx_free", "sock_id", "live", "peak", "conn", "end", "stray_close", "pstate" };
static const char *kind_sub[K_N] = { "afd", "afd", "afd", "afd", "ctx", "ctx", "ctx", "ctx", "id",
				      "drv", "drv", "drv", "drv", "drv", "drv" };

struct ev {
    uint64_t seq;
    long a, b, c, d;
    int16_t tid;
    uint8_t kind, ov, ok, tp;
};

struct evbuf {
    struct ev *v;
    size_t n, cap;
};

static struct evbuf g_buf[MAXT + 1];
static __thread int my_tid = MAXT;		/* main thread: last slot */
static atomic_uint_fast64_t g_seq;
static atomic_int g_inside[3];
static int g_flags;
static atomic_uint_fast64_t g_progress;
static atomic_int g_dying;
static atomic_int g_lined_up;

static void ev_add(int kind, long a, long b, long c, long d, int tp, int ov, int ok, uint64_t seq)
{
    struct evbuf *b_ = &g_buf[my_tid];
    if (b_->n == b_->cap) {
	b_->cap = b_->cap ? b_->cap * 2 : 1024;
	b_->v = realloc(b_->v, b_->cap * sizeof(struct ev));
	if (b_->v == NULL)
	    abort();
    }
    b_->v[b_->n++] = (struct ev) { .seq = seq, .a = a, .b = b, .c = c, .d = d, .tid = (int16_t)my_tid,
				   .kind = (uint8_t)kind, .ov = (uint8_t)ov, .ok = (uint8_t)ok, .tp = (uint8_t)tp };
}

/* events of the driver itself (outside the library) */
static void ev_drv(int kind, long a, long b, long c, long d, int tp)
{
    uint64_t seq = atomic_fetch_add_explicit(&g_seq, 1, memory_order_relaxed);
    ev_add(kind, a, b, c, d, tp, 0, 1, seq);
}

/* the descriptor table is process-wide state: a close() of a descriptor that is not open (EBADF) made by the library
   (its objects are linked with --wrap=close) is a close of a descriptor the library does not own - in a process with
   threads the number may by then belong to another thread's socket */
int __real_close(int fd);
int __wrap_close(int fd)
{
    int rc = __real_close(fd);
    if (rc < 0 && errno == EBADF) {
	ev_drv(K_STRAY, fd, 0, 0, 0, 0);
	errno = EBADF;
    }
    return rc;
}

/* process-wide state of the operating system that the library has no business changing: the file mode creation mask
   (read without touching it, from /proc/self/status).  A thread that sees another value than the one the process
   started with would create its own files with the wrong mode. */
static long g_umask0 = -1;
static long read_umask(void)
{
    char buf[4096];
    int fd = open("/proc/self/status", O_RDONLY);
    if (fd < 0)
	return -1;
    ssize_t n = read(fd, buf, sizeof(buf) - 1);
    close(fd);
    if (n <= 0)
	return -1;
    buf[n] = '\0';
    const char *p = strstr(buf, "\nUmask:");
    return p ? strtol(p + 7, NULL, 8) : -1;
}
static void check_pstate(void)
{
    long u = read_umask();
    if (u >= 0 && g_umask0 >= 0 && u != g_umask0)
	ev_drv(K_PSTATE, 1, g_umask0, u, 0, 0);
}

static __thread uint64_t cb_rng = 88172645463325252ULL;

static int fd_is_live_eventfd(int fd)
{
    /* an always-active descriptor handed out by the pool must be open and readable */
    struct pollfd p = { .fd = fd, .events = POLLIN };
    if (fcntl(fd, F_GETFD) < 0)
	return 0;
    return poll(&p, 1, 0) == 1 && (p.revents & POLLIN) && !(p.revents & POLLNVAL);
}

static void hook_cb(const char *name, long a, long b, long c)
{
    int kind, sub;
    if (atomic_load_explicit(&g_dying, memory_order_relaxed))
	return;
    switch (name[0] == 'a' ? name[4] : name[0] == 'c' ? name[4] + 1000 : 0) {
    case 'g': kind = K_AFD_GET; break;
    case 'n': kind = K_AFD_NEW; break;
    case 'p': kind = K_AFD_PUT; break;
    case 'c': kind = K_AFD_CLOSE; break;
    case 'h' + 1000: kind = K_CTX_HIT; break;
    case 'n' + 1000: kind = K_CTX_NEW; break;
    case 'p' + 1000: kind = K_CTX_PUT; break;
    case 'f' + 1000: kind = K_CTX_FREE; break;
    default: kind = K_SOCK_ID; break;
    }
    sub = kind <= K_AFD_CLOSE ? 0 : kind <= K_CTX_FREE ? 1 : 2;
    /* nobody else may be inside a hook of the same subsystem: the library's mutex is held */
    int others = atomic_fetch_add_explicit(&g_inside[sub], 1, memory_order_relaxed);
    uint64_t seq = atomic_fetch_add_explicit(&g_seq, 1, memory_order_relaxed);
    int ok = 1;
    if (kind == K_AFD_GET || kind == K_AFD_NEW || kind == K_AFD_PUT)
	ok = fd_is_live_eventfd((int)a);
    if (g_flags & F_YIELD) {
	cb_rng ^= cb_rng << 13; cb_rng ^= cb_rng >> 7; cb_rng ^= cb_rng << 17;
	if ((cb_rng & 3) == 0)
	    sched_yield();
    }
    ev_add(kind, a, b, c, 0, 0, others != 0, ok, seq);
    atomic_fetch_sub_explicit(&g_inside[sub], 1, memory_order_relaxed);
}

static void hook_yield(const char *site)
{
    (void)site;
    if (g_flags & F_YIELD) {
	cb_rng ^= cb_rng << 13; cb_rng ^= cb_rng >> 7; cb_rng ^= cb_rng << 17;
	if ((cb_rng & 1) == 0)
	    sched_yield();
    }
}

/* small injective renaming of pointers / hash prefixes (TLC integers are 32 bit) */
struct rename { long *v; size_t n, cap; };
static long rename_of(struct rename *r, long x)
{
    for (size_t i = 0; i < r->n; i++)
	if (r->v[i] == x)
	    return (long)i + 1;
    if (r->n == r->cap) {
	r->cap = r->cap ? r->cap * 2 : 64;
	r->v = realloc(r->v, r->cap * sizeof(long));
    }
    r->v[r->n++] = x;
    return (long)r->n;
}

static int ev_cmp(const void *x, const void *y)
{
    const struct ev *a = x, *b = y;
    return a->seq < b->seq ? -1 : a->seq > b->seq;
}

static const char *g_out;
static int g_x;

/* mode 0: normal end, 1: stalled, 2: the process is dying (abort): other threads may still be appending, so only the
   gap-free prefix of the sequence numbers is written */
static void dump_events(int mode)
{
    size_t total = 0;
    for (int i = 0; i <= MAXT; i++)
	total += g_buf[i].n;
    struct ev *all = malloc((total + 1) * sizeof(struct ev));
    size_t k = 0;
    for (int i = 0; i <= MAXT; i++)
	for (size_t j = 0; j < g_buf[i].n; j++)
	    all[k++] = g_buf[i].v[j];
    qsort(all, total, sizeof(struct ev), ev_cmp);
    if (mode == 2 || mode == 3) {
	size_t keep = 0;
	while (keep < total && all[keep].seq == (uint64_t)keep)
	    keep++;
	total = keep;
    }
    FILE *f = fopen(g_out, "w");
    if (f == NULL) {
	perror(g_out);
	exit(4);
    }
    struct rename rp = { 0 }, rh = { 0 };
    fprintf(f, "{\"x\":%d,\"n\":0,\"s\":\"drv\",\"ev\":\"reset\",\"t\":0,\"a\":0,\"b\":0,\"c\":0,\"d\":0,\"ov\":0,\"ok\":1,\"tp\":\"\"}\n", g_x);
    for (k = 0; k < total; k++) {
	struct ev *e = &all[k];
	long a = e->a, b = e->b, c = e->c;
	if (e->kind >= K_CTX_HIT && e->kind <= K_CTX_FREE) {
	    c = rename_of(&rp, c);
	    a = e->kind == K_CTX_FREE ? 0 : rename_of(&rh, a);
	}
	if (e->kind == K_SOCK_ID && (a > 2000000000L || b > 2000000000L))
	    a = b = 2000000000L;
	fprintf(f, "{\"x\":%d,\"n\":%zu,\"s\":\"%s\",\"ev\":\"%s\",\"t\":%d,\"a\":%ld,\"b\":%ld,\"c\":%ld,\"d\":%ld,\"ov\":%d,"
		"\"ok\":%d,\"tp\":\"%s\"}\n", g_x, k + 1, kind_sub[e->kind], kind_name[e->kind], e->tid, a, b, c, e->d,
		e->ov, e->ok, e->kind == K_LIVE || e->kind == K_CONN ? tp_name[e->tp] : "");
    }
    fprintf(f, "{\"x\":%d,\"n\":%zu,\"s\":\"drv\",\"ev\":\"%s\",\"t\":0,\"a\":0,\"b\":0,\"c\":0,\"d\":0,\"ov\":0,\"ok\":1,\"tp\":\"\"}\n",
	    g_x, total + 1, mode == 1 ? "stall" : mode == 2 ? "crash" : mode == 3 ? "setup" : "end");
    if (fclose(f) != 0) {
	perror(g_out);
	exit(4);
    }
    free(all);
    free(rp.v);
    free(rh.v);
}

static void on_abort(int sig)
{
    /* ut_assert() failed somewhere in the library: keep what was recorded up to here (best effort) */
    static atomic_int once;
    signal(SIGABRT, SIG_DFL);
    signal(SIGSEGV, SIG_DFL);
    if (atomic_fetch_add(&once, 1) == 0) {
	atomic_store_explicit(&g_dying, 1, memory_order_relaxed);
	dump_events(2);
    }
    _exit(128 + sig);
}

/* ------------------------------------------------------------------ helpers ---------- */
static int g_errfd = 2;		/* the driver's own messages (stderr may be the library's debug log, discarded) */

static void die(const char *fmt, ...)
{
    char msg[1024];
    int e = errno;
    va_list ap;
    va_start(ap, fmt);
    int n = snprintf(msg, sizeof(msg), "thr_exec[%d]: ", my_tid);
    n += vsnprintf(msg + n, sizeof(msg) - (size_t)n - 64, fmt, ap);
    n += snprintf(msg + n, 64, " (errno %d)\n", e);
    va_end(ap);
    if (write(g_errfd, msg, (size_t)n) < 0)
	_exit(5);
    /* keep what was recorded up to here: the set-up may have failed because of something the events show */
    static atomic_int once;
    if (g_out != NULL && atomic_fetch_add(&once, 1) == 0) {
	atomic_store_explicit(&g_dying, 1, memory_order_relaxed);
	dump_events(3);
    }
    _exit(4);
}

struct rng { uint64_t s; };
static uint64_t rnd(struct rng *r)
{
    r->s ^= r->s << 13; r->s ^= r->s >> 7; r->s ^= r->s << 17;
    return r->s * 2685821657736338717ULL;
}
static unsigned rnd_n(struct rng *r, unsigned n) { return (unsigned)((rnd(r) >> 33) % n); }

static void progress(void) { atomic_fetch_add_explicit(&g_progress, 1, memory_order_relaxed); }

/* credentials */
static char g_creds[512];
static char *g_pem[3];		/* cert, key, tc of <creds>/default, by value */

static char *slurp(const char *path)
{
    FILE *f = fopen(path, "r");
    if (f == NULL)
	die("open %s", path);
    char *b = malloc(65536);
    size_t n = fread(b, 1, 65535, f);
    b[n] = '\0';
    fclose(f);
    return b;
}

/* credential variants: all of them designate the same certificate, in ways that make different cache entries */
#define NVARIANT 6
static void tls_attrs(struct xcm_attr_map *m, int variant)
{
    char p[600];
    switch (variant) {
    case 0:			/* the default files (XCM_TLS_CERT) */
	break;
    case 1:			/* everything by value */
	xcm_attr_map_add_bin(m, "tls.cert", g_pem[0], strlen(g_pem[0]));
	xcm_attr_map_add_bin(m, "tls.key", g_pem[1], strlen(g_pem[1]));
	xcm_attr_map_add_bin(m, "tls.tc", g_pem[2], strlen(g_pem[2]));
	break;
    case 2:			/* a copy of the files */
    case 3:
	snprintf(p, sizeof(p), "%s/alt%d/cert.pem", g_creds, variant - 1);
	xcm_attr_map_add_str(m, "tls.cert_file", p);
	snprintf(p, sizeof(p), "%s/alt%d/key.pem", g_creds, variant - 1);
	xcm_attr_map_add_str(m, "tls.key_file", p);
	snprintf(p, sizeof(p), "%s/alt%d/tc.pem", g_creds, variant - 1);
	xcm_attr_map_add_str(m, "tls.tc_file", p);
	break;
    case 4:			/* default files, no authentication: no trust store */
	xcm_attr_map_add_bool(m, "tls.auth", false);
	break;
    case 5:			/* key by value, the rest by file */
	xcm_attr_map_add_bin(m, "tls.key", g_pem[1], strlen(g_pem[1]));
	break;
    }
}

static int pick_variant(struct rng *r)
{
    /* half of the sockets share the default entry; the others come and go */
    unsigned x = rnd_n(r, 10);
    return x < 5 ? 0 : 1 + (int)(x - 5);
}

/* ------------------------------------------------------------------ streams ---------- */
/* message k of stream id has a length and a content that both ends can compute */
static uint32_t mix(uint32_t x)
{
    x ^= x >> 16; x *= 0x7feb352dU; x ^= x >> 15; x *= 0x846ca68bU; x ^= x >> 16;
    return x;
}

static size_t msg_len(uint32_t sid, uint32_t k)
{
    uint32_t h = mix(sid * 2654435761U + k * 40503U + 17);
    switch (h & 15) {
    case 0: return 8;
    case 1: return 9 + (h >> 8) % 8;
    case 2: return 4000 + (h >> 8) % 30000;
    case 3: return (h >> 8) % 64 == 0 ? MAXMSG : 1400 + (h >> 8) % 200;
    default: return 8 + (h >> 8) % 700;
    }
}

static void msg_fill(uint32_t sid, uint32_t k, uint8_t *buf, size_t len)
{
    uint32_t s = mix(sid ^ (k * 0x9e3779b9U));
    for (size_t i = 0; i < len; i++)
	buf[i] = (uint8_t)(mix(s + (uint32_t)i) >> 11);
    buf[0] = (uint8_t)k; buf[1] = (uint8_t)(k >> 8); buf[2] = (uint8_t)(k >> 16); buf[3] = (uint8_t)(k >> 24);
    buf[4] = (uint8_t)len; buf[5] = (uint8_t)(len >> 8); buf[6] = (uint8_t)(len >> 16); buf[7] = (uint8_t)(len >> 24);
}

struct stream {			/* one direction of one connection */
    uint32_t sid;
    uint32_t total;		/* messages to move */
    /* sender */
    uint32_t sk;		/* next message to send */
    size_t soff;		/* bytes of it already accepted (byte streams) */
    /* receiver */
    uint32_t rk;		/* next message expected */
    size_t roff;
    uint32_t bad;		/* 0, or 1 + index of the first message that arrived damaged / out of order */
    uint32_t extra;		/* messages delivered beyond the expected ones */
    bool eof;
};

struct conn {
    int tp;
    int variant;
    struct xcm_socket *srv, *cli, *acc;
    struct stream c2s, s2c;
    bool bytes;
};

static __thread uint8_t *tbuf, *rbuf;

/* returns 1 progress, 0 would block, -1 failed */
static int stream_send(struct xcm_socket *s, struct stream *st, bool bytes)
{
    if (st->sk >= st->total)
	return 0;
    size_t len = msg_len(st->sid, st->sk);
    msg_fill(st->sid, st->sk, tbuf, len);
    int rc = xcm_send(s, tbuf + st->soff, len - st->soff);
    if (rc < 0)
	return errno == EAGAIN ? 0 : -1;
    if (bytes) {
	st->soff += (size_t)rc;
	if (st->soff < len)
	    return 1;
    }
    st->soff = 0;
    st->sk++;
    progress();
    return 1;
}

static void stream_got(struct stream *st, const uint8_t *data, size_t n, bool bytes)
{
    if (!bytes) {
	if (st->rk >= st->total) {
	    st->extra++;
	    return;
	}
	size_t len = msg_len(st->sid, st->rk);
	msg_fill(st->sid, st->rk, tbuf, len);
	if ((n != len || memcmp(tbuf, data, len) != 0) && st->bad == 0)
	    st->bad = st->rk + 1;
	st->rk++;
	return;
    }
    while (n > 0) {
	if (st->rk >= st->total) {
	    st->extra++;
	    return;
	}
	size_t len = msg_len(st->sid, st->rk);
	msg_fill(st->sid, st->rk, tbuf, len);
	size_t m = len - st->roff < n ? len - st->roff : n;
	if (memcmp(tbuf + st->roff, data, m) != 0 && st->bad == 0)
	    st->bad = st->rk + 1;
	st->roff += m;
	data += m;
	n -= m;
	if (st->roff == len) {
	    st->roff = 0;
	    st->rk++;
	}
    }
}

static int stream_recv(struct xcm_socket *s, struct stream *st, bool bytes)
{
    if (st->eof)
	return 0;
    int rc = xcm_receive(s, rbuf, MAXMSG);
    if (rc < 0)
	return errno == EAGAIN ? 0 : -1;
    if (rc == 0) {
	st->eof = true;
	return 1;
    }
    stream_got(st, rbuf, (size_t)rc, bytes);
    progress();
    return 1;
}

/* wait until one of the sockets wants attention; the time limit only bounds the spinning, no verdict rests on it */
static void wait_any(struct xcm_socket **ss, int n)
{
    struct pollfd p[3 * MAXPAIRS];
    int k = 0;
    for (int i = 0; i < n && k < 3 * MAXPAIRS; i++)
	if (ss[i] != NULL) {
	    p[k].fd = xcm_fd(ss[i]);
	    p[k].events = POLLIN;
	    k++;
	}
    poll(p, (nfds_t)k, 5);
}

static struct xcm_attr_map *base_attrs(int tp, int variant, bool blocking)
{
    struct xcm_attr_map *m = xcm_attr_map_create();
    if (!blocking)
	xcm_attr_map_add_bool(m, "xcm.blocking", false);
    if (tp_is_tls[tp])
	tls_attrs(m, variant);
    if (tp_is_bytes[tp])
	xcm_attr_map_add_str(m, "xcm.service", "bytestream");
    return m;
}

static void server_addr(int tp, int tid, int round, int idx, char *addr, size_t cap)
{
    switch (tp) {
    case TP_UX:
	snprintf(addr, cap, "ux:c15-%d-%d-%d-%d", (int)getpid(), tid, round, idx);
	break;
    case TP_UXF:
	snprintf(addr, cap, "uxf:%s/uxf-%d-%d-%d-%d", g_creds, (int)getpid() % 100000, tid, round, idx);
	break;
    default:
	snprintf(addr, cap, "%s:127.0.0.1:0", tp_name[tp]);
	break;
    }
}

static void attr_noop(const char *n, enum xcm_attr_type t, void *v, size_t l, void *u)
{
    (void)n; (void)t; (void)v; (void)l;
    (*(int *)u)++;
}

static void touch_attrs(struct xcm_socket *s)
{
    int n = 0;
    int64_t v;
    char buf[256];
    xcm_attr_get_all(s, attr_noop, &n);
    (void)xcm_attr_get_int64(s, "xcm.to_app_msgs", &v);
    (void)xcm_attr_get_str(s, "xcm.local_addr", buf, sizeof(buf));
    (void)xcm_attr_get_str(s, "xcm.transport", buf, sizeof(buf));
}

static struct xcm_socket *make_server(int tp, int variant, int tid, int round, int idx, bool blocking, char *actual,
				      size_t cap)
{
    char addr[256];
    server_addr(tp, tid, round, idx, addr, sizeof(addr));
    if (tp == TP_UXF)
	unlink(addr + 4);
    struct xcm_attr_map *m = base_attrs(tp, variant, blocking);
    struct xcm_socket *srv = xcm_server_a(addr, m);
    xcm_attr_map_destroy(m);
    if (srv == NULL)
	die("xcm_server_a(%s) variant %d", addr, variant);
    const char *la = xcm_local_addr(srv);
    if (la == NULL)
	die("xcm_local_addr");
    snprintf(actual, cap, "%s", la);
    return srv;
}

static void use_name(char *addr, size_t cap)
{
    /* tcp:127.0.0.1:port -> tcp:localhost:port (resolved by c-ares from /etc/hosts) */
    char *ip = strstr(addr, "127.0.0.1");
    if (ip != NULL) {
	char tmp[256];
	*ip = '\0';
	snprintf(tmp, sizeof(tmp), "%slocalhost%s", addr, ip + 9);
	snprintf(addr, cap, "%s", tmp);
    }
}

static void stream_init(struct stream *st, uint32_t sid, uint32_t total)
{
    memset(st, 0, sizeof(*st));
    st->sid = sid;
    st->total = total;
}

/* set up the connections of one batch, all at once, non-blocking */
static void establish(struct conn *cs, int n, int tid, int round, struct rng *r, uint32_t msgs, bool dns)
{
    char addr[256];
    for (int i = 0; i < n; i++) {
	struct conn *c = &cs[i];
	c->bytes = tp_is_bytes[c->tp];
	c->srv = make_server(c->tp, c->variant, tid, round, i, false, addr, sizeof(addr));
	if (dns && (c->tp == TP_TCP || c->tp == TP_BTCP) && rnd_n(r, 3) == 0)
	    use_name(addr, sizeof(addr));
	struct xcm_attr_map *m = base_attrs(c->tp, c->variant, false);
	c->cli = xcm_connect_a(addr, m);
	xcm_attr_map_destroy(m);
	if (c->cli == NULL)
	    die("xcm_connect_a(%s)", addr);
	c->acc = NULL;
	uint32_t sid = (uint32_t)(tid * 1000003 + round * 10007 + i * 101);
	stream_init(&c->c2s, sid * 2 + 1, msgs);
	stream_init(&c->s2c, sid * 2 + 2, msgs);
	progress();
    }
    for (;;) {
	bool all = true;
	struct xcm_socket *ws[3 * MAXPAIRS];
	int nw = 0;
	for (int i = 0; i < n; i++) {
	    struct conn *c = &cs[i];
	    bool ready = true;
	    if (c->acc == NULL) {
		c->acc = xcm_accept(c->srv);
		if (c->acc == NULL && errno != EAGAIN)
		    die("xcm_accept %s", tp_name[c->tp]);
		if (c->acc != NULL)
		    progress();
	    }
	    if (xcm_finish(c->cli) < 0) {
		if (errno != EAGAIN)
		    die("xcm_finish(client %s)", tp_name[c->tp]);
		ready = false;
	    }
	    if (c->acc == NULL)
		ready = false;
	    else if (xcm_finish(c->acc) < 0) {
		if (errno != EAGAIN)
		    die("xcm_finish(accepted %s)", tp_name[c->tp]);
		ready = false;
	    }
	    if (!ready) {
		all = false;
		xcm_await(c->srv, c->acc == NULL ? XCM_SO_ACCEPTABLE : 0);
		ws[nw++] = c->srv;
		xcm_await(c->cli, 0);
		ws[nw++] = c->cli;
		if (c->acc != NULL) {
		    xcm_await(c->acc, 0);
		    ws[nw++] = c->acc;
		}
	    }
	}
	if (all)
	    break;
	wait_any(ws, nw);
    }
}

/* an accept the library has to undo: the connection is taken off the listen queue, then an attribute of the accept map is
   refused by the kernel (tcp.keepalive_count above 127 passes the library's own range check) and everything made for
   the new socket is released again - while the other threads go on creating and closing descriptors */
static void refused_accept(int tid, int round, struct rng *r)
{
    static const int tps[] = { TP_TCP, TP_BTCP, TP_TLS, TP_BTLS };
    int tp = tps[rnd_n(r, 4)];
    int variant = pick_variant(r);
    char addr[256];
    struct xcm_socket *srv = make_server(tp, variant, tid, round, 70, false, addr, sizeof(addr));
    struct xcm_attr_map *m = base_attrs(tp, variant, false);
    struct xcm_socket *cli = xcm_connect_a(addr, m);
    xcm_attr_map_destroy(m);
    if (cli == NULL)
	die("xcm_connect_a(%s)", addr);
    struct xcm_attr_map *am = xcm_attr_map_create();
    xcm_attr_map_add_int64(am, "tcp.keepalive_count", 1000);
    for (int i = 0; i < 2000; i++) {
	struct xcm_socket *acc = xcm_accept_a(srv, am);
	if (acc != NULL) {
	    xcm_close(acc);
	    break;
	}
	if (errno != EAGAIN)
	    break;
	(void)xcm_finish(cli);
	xcm_await(srv, XCM_SO_ACCEPTABLE);
	xcm_await(cli, 0);
	struct xcm_socket *ws[2] = { srv, cli };
	wait_any(ws, 2);
    }
    xcm_attr_map_destroy(am);
    xcm_close(cli);
    xcm_close(srv);
    progress();
}

static bool stream_done(const struct stream *st) { return st->sk >= st->total && st->rk >= st->total; }

/* move all messages of all connections of the batch, both directions, interleaved */
static void traffic(struct conn *cs, int n, struct rng *r)
{
    for (;;) {
	bool all = true, moved = false;
	struct xcm_socket *ws[3 * MAXPAIRS];
	int nw = 0;
	for (int i = 0; i < n; i++) {
	    struct conn *c = &cs[i];
	    if (stream_done(&c->c2s) && stream_done(&c->s2c))
		continue;
	    all = false;
	    int burst = 1 + (int)rnd_n(r, 4);
	    for (int b = 0; b < burst; b++) {
		int rc;
		if ((rc = stream_send(c->cli, &c->c2s, c->bytes)) < 0)
		    die("send client %s", tp_name[c->tp]);
		moved |= rc > 0;
		if ((rc = stream_send(c->acc, &c->s2c, c->bytes)) < 0)
		    die("send accepted %s", tp_name[c->tp]);
		moved |= rc > 0;
	    }
	    for (int b = 0; b < burst + 1; b++) {
		int rc;
		if (c->c2s.rk < c->c2s.total) {
		    if ((rc = stream_recv(c->acc, &c->c2s, c->bytes)) < 0)
			die("receive accepted %s", tp_name[c->tp]);
		    moved |= rc > 0;
		}
		if (c->s2c.rk < c->s2c.total) {
		    if ((rc = stream_recv(c->cli, &c->s2c, c->bytes)) < 0)
			die("receive client %s", tp_name[c->tp]);
		    moved |= rc > 0;
		}
	    }
	    if (rnd_n(r, 16) == 0)
		touch_attrs(rnd_n(r, 2) ? c->cli : c->acc);
	    xcm_await(c->cli, XCM_SO_RECEIVABLE | (c->c2s.sk < c->c2s.total ? XCM_SO_SENDABLE : 0));
	    xcm_await(c->acc, XCM_SO_RECEIVABLE | (c->s2c.sk < c->s2c.total ? XCM_SO_SENDABLE : 0));
	    ws[nw++] = c->cli;
	    ws[nw++] = c->acc;
	}
	if (all)
	    break;
	if (!moved)
	    wait_any(ws, nw);
    }
}

/* what this thread's oracle saw on one direction of one connection */
static void report_stream(const struct conn *c, const struct stream *st, long counter)
{
    /* a = messages sent, b = messages received in order and intact, c = first damaged (0 none), d = library's counter */
    ev_drv(K_CONN, (long)st->sk, (long)st->rk, (long)st->bad + (long)st->extra * 0x10000, counter, c->tp);
}

static long to_app(struct xcm_socket *s, bool bytes)
{
    int64_t v = -1;
    if (xcm_attr_get_int64(s, bytes ? "xcm.to_app_bytes" : "xcm.to_app_msgs", &v) < 0)
	return -1;
    return bytes ? -2 : (long)v;
}

static void report_conn(struct conn *c)
{
    report_stream(c, &c->c2s, c->acc != NULL ? to_app(c->acc, c->bytes) : -2);
    report_stream(c, &c->s2c, c->cli != NULL ? to_app(c->cli, c->bytes) : -2);
}

static void close_conn(struct conn *c, struct rng *r)
{
    struct xcm_socket *s[3] = { c->cli, c->acc, c->srv };
    for (int i = 2; i > 0; i--) {
	int j = (int)rnd_n(r, (unsigned)i + 1);
	struct xcm_socket *t = s[i]; s[i] = s[j]; s[j] = t;
    }
    for (int i = 0; i < 3; i++)
	if (s[i] != NULL && xcm_close(s[i]) < 0)
	    die("xcm_close");
    c->cli = c->acc = c->srv = NULL;
    progress();
}

/* ------------------------------------------------------------------ hand-over / duo --- */
struct handoff {
    pthread_mutex_t mtx;
    pthread_cond_t cond;
    bool full;
    struct xcm_socket *sock;
    struct stream st;
    int tp;
    bool bytes;
    char addr[256];
    int variant;
};
static struct handoff g_ho[MAXT];

static void ho_push(struct handoff *h, struct xcm_socket *s, const struct stream *st, int tp, const char *addr, int variant)
{
    pthread_mutex_lock(&h->mtx);
    while (h->full)
	pthread_cond_wait(&h->cond, &h->mtx);
    h->sock = s;
    if (st != NULL)
	h->st = *st;
    h->tp = tp;
    h->bytes = tp_is_bytes[tp];
    h->variant = variant;
    snprintf(h->addr, sizeof(h->addr), "%s", addr != NULL ? addr : "");
    h->full = true;
    pthread_cond_broadcast(&h->cond);
    pthread_mutex_unlock(&h->mtx);
}

static void ho_pop(struct handoff *h, struct handoff *out)
{
    pthread_mutex_lock(&h->mtx);
    while (!h->full)
	pthread_cond_wait(&h->cond, &h->mtx);
    out->sock = h->sock;
    out->st = h->st;
    out->tp = h->tp;
    out->bytes = h->bytes;
    out->variant = h->variant;
    memcpy(out->addr, h->addr, sizeof(out->addr));
    h->full = false;
    pthread_cond_broadcast(&h->cond);
    pthread_mutex_unlock(&h->mtx);
}

static void wait_one(struct xcm_socket *s, int cond)
{
    xcm_await(s, cond);
    struct pollfd p = { .fd = xcm_fd(s), .events = POLLIN };
    poll(&p, 1, 5);
}

/* giver: makes a connection, uses it, hands the client end to the partner and keeps receiving on the other end */
static void handover_give(int tid, int round, struct rng *r, uint32_t msgs, const int *tps, int ntps)
{
    struct conn c;
    memset(&c, 0, sizeof(c));
    c.tp = tps[rnd_n(r, (unsigned)ntps)];
    if (c.tp == TP_UTLS)
	c.tp = TP_TLS;
    c.variant = pick_variant(r);
    establish(&c, 1, tid, round + 1000, r, msgs, false);
    c.s2c.total = 0;
    /* first half by this thread */
    uint32_t half = msgs / 2;
    while (c.c2s.sk < half || c.c2s.rk < half) {
	int a = 0, b = 0;
	if (c.c2s.sk < half && (a = stream_send(c.cli, &c.c2s, c.bytes)) < 0)
	    die("handover send");
	if ((b = stream_recv(c.acc, &c.c2s, c.bytes)) < 0)
	    die("handover receive");
	if (a == 0 && b == 0) {
	    struct xcm_socket *ws[2] = { c.cli, c.acc };
	    xcm_await(c.cli, XCM_SO_SENDABLE);
	    xcm_await(c.acc, XCM_SO_RECEIVABLE);
	    wait_any(ws, 2);
	}
    }
    /* the socket changes hands: from here on only the partner touches it */
    ho_push(&g_ho[tid ^ 1], c.cli, &c.c2s, c.tp, NULL, c.variant);
    c.cli = NULL;
    while (!c.c2s.eof) {
	int b = stream_recv(c.acc, &c.c2s, c.bytes);
	if (b < 0) {
	    if (errno == ECONNRESET || errno == EPIPE)
		break;
	    die("handover receive after hand-over");
	}
	if (b == 0)
	    wait_one(c.acc, XCM_SO_RECEIVABLE);
    }
    /* the sender's half of the stream state lives with the partner now: it sent everything before closing */
    c.c2s.sk = c.c2s.total;
    ev_drv(K_CONN, (long)c.c2s.total, (long)c.c2s.rk, (long)c.c2s.bad + (long)c.c2s.extra * 0x10000,
	   to_app(c.acc, c.bytes), c.tp);
    close_conn(&c, r);
}

static void handover_take(int tid)
{
    struct handoff h;
    ho_pop(&g_ho[tid], &h);
    touch_attrs(h.sock);
    while (h.st.sk < h.st.total) {
	int a = stream_send(h.sock, &h.st, h.bytes);
	if (a < 0)
	    die("send on the socket handed over");
	if (a == 0)
	    wait_one(h.sock, XCM_SO_SENDABLE);
    }
    /* flush whatever the library still buffers before closing */
    while (xcm_finish(h.sock) < 0) {
	if (errno != EAGAIN)
	    die("finish on the socket handed over");
	wait_one(h.sock, 0);
    }
    if (xcm_close(h.sock) < 0)
	die("close of the socket handed over");
    progress();
}

/* blocking-mode duo: the even thread serves, the odd one connects */
static void duo_serve(int tid, int round, struct rng *r, uint32_t msgs)
{
    static const int tps[3] = { TP_UX, TP_TCP, TP_TLS };
    int tp = tps[rnd_n(r, 3)];
    int variant = pick_variant(r);
    char addr[256];
    struct xcm_socket *srv = make_server(tp, variant, tid, round + 2000, 0, true, addr, sizeof(addr));
    ho_push(&g_ho[tid ^ 1], NULL, NULL, tp, addr, variant);
    struct xcm_socket *acc = xcm_accept(srv);
    if (acc == NULL)
	die("blocking xcm_accept");
    struct stream in, out;
    uint32_t sid = (uint32_t)(tid * 1000003 + round * 10007 + 77777);
    stream_init(&in, sid * 2 + 1, msgs);
    stream_init(&out, sid * 2 + 2, msgs);
    while (in.rk < in.total)
	if (stream_recv(acc, &in, false) < 0)
	    die("blocking receive (server side)");
    while (out.sk < out.total)
	if (stream_send(acc, &out, false) < 0)
	    die("blocking send (server side)");
    in.sk = in.total;
    ev_drv(K_CONN, (long)in.sk, (long)in.rk, (long)in.bad + (long)in.extra * 0x10000, to_app(acc, false), tp);
    /* wait for the peer's close so that nothing is cut short */
    int rc = xcm_receive(acc, rbuf, MAXMSG);
    if (rc > 0)
	die("unexpected message after the last one");
    xcm_close(acc);
    xcm_close(srv);
    progress();
}

static void duo_connect(int tid, int round, uint32_t msgs)
{
    struct handoff h;
    ho_pop(&g_ho[tid], &h);
    struct xcm_attr_map *m = base_attrs(h.tp, h.variant, true);
    struct xcm_socket *c = xcm_connect_a(h.addr, m);
    xcm_attr_map_destroy(m);
    if (c == NULL)
	die("blocking xcm_connect_a(%s)", h.addr);
    struct stream in, out;
    uint32_t sid = (uint32_t)((tid ^ 1) * 1000003 + round * 10007 + 77777);
    stream_init(&out, sid * 2 + 1, msgs);
    stream_init(&in, sid * 2 + 2, msgs);
    while (out.sk < out.total)
	if (stream_send(c, &out, false) < 0)
	    die("blocking send (client side)");
    while (in.rk < in.total)
	if (stream_recv(c, &in, false) < 0)
	    die("blocking receive (client side)");
    in.sk = in.total;
    ev_drv(K_CONN, (long)in.sk, (long)in.rk, (long)in.bad + (long)in.extra * 0x10000, to_app(c, false), h.tp);
    xcm_close(c);
    progress();
}

/* ------------------------------------------------------------------ threads ---------- */
struct cfg {
    uint64_t seed;
    int threads, rounds, pairs, peakpairs;
    uint32_t msgs;
};
static struct cfg g_cfg;
static pthread_barrier_t g_bar;
static long g_live[MAXT][TP_N][2];	/* per thread: live connection / server sockets per transport at the peak */

static void *worker(void *arg)
{
    int tid = (int)(intptr_t)arg;
    my_tid = tid;
    cb_rng ^= (uint64_t)(tid + 1) * 0x9e3779b97f4a7c15ULL;
    tbuf = malloc(MAXMSG + 8);
    rbuf = malloc(MAXMSG + 8);
    struct rng r = { .s = (g_cfg.seed + 1) * 0x9e3779b97f4a7c15ULL ^ (uint64_t)(tid + 1) * 0xbf58476d1ce4e5b9ULL };
    (void)rnd(&r);
    static const int all_tps[] = { TP_UX, TP_UXF, TP_TCP, TP_TLS, TP_UTLS, TP_BTCP, TP_BTLS, TP_TCP, TP_TLS, TP_TLS };
    static const int peak_tps[] = { TP_TCP, TP_TLS, TP_BTCP, TP_BTLS, TP_UX };
    bool partner = (tid ^ 1) < g_cfg.threads;

    for (int round = 0; round < g_cfg.rounds; round++) {
	struct conn cs[MAXPAIRS];
	memset(cs, 0, sizeof(cs));
	int n;
	if (g_flags & F_COLD) {
	    /* the transports with a first-use cache of their own (xcm_tp_tcp.c, xcm_tp_tls.c, xcm_tp_utls.c, xcm_tp_btls.c) */
	    static const int cold_tps[] = { TP_TCP, TP_TLS, TP_UTLS, TP_BTLS, TP_UX };
	    n = 1;
	    /* all threads make their first use of the same transport at the same moment */
	    cs[0].tp = cold_tps[((unsigned)(g_cfg.seed % 5) + (unsigned)round) % 5];
	    cs[0].variant = pick_variant(&r);
	    /* a spinning start line per round (relaxed: no happens-before edge of its own) */
	    atomic_fetch_add_explicit(&g_lined_up, 1, memory_order_relaxed);
	    while (atomic_load_explicit(&g_lined_up, memory_order_relaxed) < g_cfg.threads * (round + 1))
		;
	} else if (round == 0) {
	    /* the peak: enough descriptor-holding connections that a second eventfd is needed, whatever the schedule */
	    n = g_cfg.peakpairs + 1;
	    for (int i = 0; i < n; i++) {
		cs[i].tp = i < g_cfg.peakpairs ? peak_tps[(i + tid) % 4] : peak_tps[rnd_n(&r, 5)];
		cs[i].variant = pick_variant(&r);
	    }
	} else {
	    n = 1 + (int)rnd_n(&r, (unsigned)g_cfg.pairs);
	    for (int i = 0; i < n; i++) {
		cs[i].tp = all_tps[rnd_n(&r, sizeof(all_tps) / sizeof(all_tps[0]))];
		cs[i].variant = pick_variant(&r);
	    }
	}
	establish(cs, n, tid, round, &r, round == 0 ? (g_cfg.msgs + 3) / 4 : g_cfg.msgs, (g_flags & F_DNS) != 0);
	if (round == 0 && !(g_flags & F_COLD)) {
	    memset(g_live[tid], 0, sizeof(g_live[tid]));
	    for (int i = 0; i < n; i++) {
		g_live[tid][cs[i].tp][0] += 2;
		g_live[tid][cs[i].tp][1] += 1;
	    }
	    if (pthread_barrier_wait(&g_bar) == PTHREAD_BARRIER_SERIAL_THREAD && !(g_flags & F_NOHOOKS)) {
		/* every thread is parked between the two barriers: the pool and the cache are quiescent */
		for (int tp = 0; tp < TP_N; tp++) {
		    long c = 0, s = 0;
		    for (int t = 0; t < g_cfg.threads; t++) {
			c += g_live[t][tp][0];
			s += g_live[t][tp][1];
		    }
		    ev_drv(K_LIVE, c, s, 0, 0, tp);
		}
		ev_drv(K_PEAK, 0, 0, 0, 0, 0);
	    }
	    pthread_barrier_wait(&g_bar);
	}
	check_pstate();
	traffic(cs, n, &r);
	check_pstate();
	for (int i = 0; i < n; i++)
	    report_conn(&cs[i]);
	/* close a part, do the two-thread scenarios while the rest is still open, then close the rest */
	int keep = n / 2;
	for (int i = keep; i < n; i++)
	    close_conn(&cs[i], &r);
	if (!(g_flags & F_COLD))
	    for (int i = 0; i < 3; i++)
		refused_accept(tid, round, &r);
	if (round > 0 && partner) {
	    if (g_flags & F_HANDOVER) {
		if (tid & 1)
		    handover_take(tid);
		else
		    handover_give(tid, round, &r, g_cfg.msgs, all_tps, (int)(sizeof(all_tps) / sizeof(all_tps[0])));
	    }
	    if (g_flags & F_DUO) {
		if (tid & 1)
		    duo_connect(tid, round, g_cfg.msgs);
		else
		    duo_serve(tid, round, &r, g_cfg.msgs);
	    }
	}
	for (int i = 0; i < keep; i++)
	    close_conn(&cs[i], &r);
    }
    free(tbuf);
    free(rbuf);
    return NULL;
}

static atomic_int g_done;

static void *worker_wrap(void *arg)
{
    worker(arg);
    atomic_fetch_add(&g_done, 1);
    return NULL;
}

int main(int argc, char **argv)
{
    if (argc != 11) {
	fprintf(stderr, "usage: thr_exec <out.ndjson> <x> <seed> <threads> <rounds> <pairs> <peakpairs> <msgs> <credsdir> <flags>\n");
	return 4;
    }
    g_out = argv[1];
    g_x = atoi(argv[2]);
    g_cfg.seed = strtoull(argv[3], NULL, 10);
    g_cfg.threads = atoi(argv[4]);
    g_cfg.rounds = atoi(argv[5]);
    g_cfg.pairs = atoi(argv[6]);
    g_cfg.peakpairs = atoi(argv[7]);
    g_cfg.msgs = (uint32_t)atoi(argv[8]);
    snprintf(g_creds, sizeof(g_creds), "%s", argv[9]);
    g_flags = atoi(argv[10]);
    if (g_cfg.threads < 1 || g_cfg.threads > MAXT || g_cfg.pairs < 1 || g_cfg.pairs > MAXPAIRS / 2 ||
	g_cfg.peakpairs < 0 || g_cfg.peakpairs >= MAXPAIRS - 1 || g_cfg.rounds < 1)
	return 4;

    struct rlimit rl;
    if (getrlimit(RLIMIT_NOFILE, &rl) == 0) {
	rl.rlim_cur = rl.rlim_max;
	setrlimit(RLIMIT_NOFILE, &rl);
    }
    signal(SIGPIPE, SIG_IGN);
    signal(SIGABRT, on_abort);
    if (getenv("XCM_DEBUG") != NULL) {
	/* the library logs to stderr: exercise that code, drop the text (sanitizers write to their log_path) */
	g_errfd = dup(2);
	int nul = open("/dev/null", O_WRONLY);
	if (g_errfd < 0 || nul < 0 || dup2(nul, 2) < 0)
	    return 4;
	close(nul);
    }

    char p[700];
    static const char *files[3] = { "cert.pem", "key.pem", "tc.pem" };
    for (int i = 0; i < 3; i++) {
	snprintf(p, sizeof(p), "%s/default/%s", g_creds, files[i]);
	g_pem[i] = slurp(p);
    }

    for (int i = 0; i < MAXT; i++) {
	pthread_mutex_init(&g_ho[i].mtx, NULL);
	pthread_cond_init(&g_ho[i].cond, NULL);
    }
    pthread_barrier_init(&g_bar, NULL, (unsigned)g_cfg.threads);
    g_umask0 = read_umask();

    if (!(g_flags & F_NOHOOKS)) {
	xcm_verif_cb = hook_cb;
	xcm_verif_yield_cb = hook_yield;
    }

    pthread_t th[MAXT];
    for (int t = 0; t < g_cfg.threads; t++)
	if (pthread_create(&th[t], NULL, worker_wrap, (void *)(intptr_t)t) != 0)
	    die("pthread_create");

    /* watchdog: no verdict, only a way out of a hang so that the events are not lost */
    uint64_t last = 0;
    int idle = 0;
    while (atomic_load(&g_done) < g_cfg.threads) {
	usleep(200000);
	uint64_t now = atomic_load_explicit(&g_progress, memory_order_relaxed);
	idle = now == last ? idle + 1 : 0;
	last = now;
	if (idle > 5 * 240) {
	    dprintf(g_errfd, "thr_exec: no progress for 240 s, %d of %d threads done\n", atomic_load(&g_done), g_cfg.threads);
	    atomic_store_explicit(&g_dying, 1, memory_order_relaxed);
	    dump_events(1);
	    _exit(3);
	}
    }
    for (int t = 0; t < g_cfg.threads; t++)
	pthread_join(th[t], NULL);
    check_pstate();
    dump_events(0);
    return 0;
}
