/*
 * tconn_exec - executes connection-establishment scenarios (property C13: name
 * resolution and multi-address connect; wait-watch records for C05) against the
 * real libxcm and records what was observed as NDJSON.  The harness never judges:
 * the records are validated by TLC against spec/TConnectTrace.tla (virtual-time
 * scenarios) or compared with the admissible outcome sets TLC printed from
 * spec/TConnectMC.tla (real-time scenarios).
 *
 * usage: tconn_exec <scenario file> <output ndjson> [portbase]
 *
 * One scenario per line:
 *   <id> mode=vt|rt kind=conn|server tp=tcp|btcp alg=none|single|sequential|happy
 *        res=ip|sync|later|fail|faillater|silent loc=none|v4|v6|v4p|name4|namex
 *        cto=<ms> dto=<ms> ue=<errno> blk=0|1 rot=0..2 aux=0|1 ips=<4a6r4s6u...>
 *        sched=<tok,tok,...>
 * schedule tokens (mode=vt): c = xcm_connect_a / xcm_server_a, p = the next polling call
 * (finish, send, receive in rotation starting at rot), a<ms> = advance the virtual clock to
 * <ms> after the start of the scenario, r = let the resolver's answer arrive, auto = after
 * the connect call the harness itself polls whenever the socket is readable, else lets the
 * resolver answer, else advances to the next timer (prompt polling).
 * mode=rt: real clock; the harness polls xcm_fd and calls the polling operation until a verdict.
 *
 * Environment of a scenario: the stub resolver (shim/cares_stub.c) answers "host.test"
 * with fake addresses 10.99.0.<i> / fd00:99::<i>; the connect wrapper (shim/shim_tconn.c)
 * maps fake address i to a loopback target with the behaviour given in ips:
 *   a accept  - a listener of this harness            r refuse - a bound, not listening port
 *   s silent  - a listener with backlog 0 whose slot is taken by one filler connection
 *   u unreach - immediate errno <ue> from connect(), the socket untouched
 */
#define _GNU_SOURCE
#include <arpa/inet.h>
#include <ares.h>
#include <errno.h>
#include <fcntl.h>
#include <netinet/in.h>
#include <netinet/tcp.h>
#include <poll.h>
#include <signal.h>
#include <stdarg.h>
#include <stdbool.h>
#include <stdint.h>
#include <stdio.h>
#include <stdlib.h>
#include <string.h>
#include <sys/socket.h>
#include <unistd.h>

#include <xcm.h>
#include <xcm_attr.h>
#include <xcm_attr_map.h>

#include "cares_stub.h"
#include "shim_tconn.h"

#define MAX_IPS 40
#define REMOTE_PORT 4711
#define LOCAL4 "127.0.0.2"
#define LOCAL6 "::1"
#define HOST "host.test"
#define LOCALNAME "local.test"
#define LOCALBAD "nolocal.test"
#define SRVNAME "srv.test"
#define RT_HARD_MS 20000

static FILE *out;
static int portbase = 21000, portnext;

struct scn {
    long id;
    char mode[8], kind[8], tp[8], alg[16], res[12], loc[8];
    int cto, dto, ue, blk, rot, aux, ka;
    int nips;
    int fam[MAX_IPS], beh[MAX_IPS];
    char sched[4096];
};

static struct {
    int lfd[MAX_IPS];		/* accept listener or refuse placeholder per address */
    int afd[MAX_IPS][8];	/* accepted connections per listener */
    int nafd[MAX_IPS];
} tg;

static int silent4 = -1, silent6 = -1, filler4 = -1, filler6 = -1;
static int silent4_port, silent6_port;

static struct scn S;
static struct xcm_socket *sock;
static int xfd = -1;
static int step_no;
static int npolls;
static int decided;		/* an API call gave a verdict (see do_poll) */
static int local_port;		/* fixed local port of this scenario (loc=v4p) */
static long t0;			/* virtual ms at scenario start */
static double rt0;		/* real seconds at scenario start */

static void die(const char *fmt, ...)
{
    va_list ap;
    va_start(ap, fmt);
    fprintf(stderr, "tconn_exec: ");
    vfprintf(stderr, fmt, ap);
    fprintf(stderr, "\n");
    va_end(ap);
    exit(3);
}

/* ---- sockets of the environment -------------------------------------------------- */
static socklen_t mkaddr(int fam, const char *ip, int port, struct sockaddr_storage *ss)
{
    memset(ss, 0, sizeof(*ss));
    if (fam == 4) {
	struct sockaddr_in *a = (struct sockaddr_in *)ss;
	a->sin_family = AF_INET;
	a->sin_port = htons(port);
	if (inet_pton(AF_INET, ip, &a->sin_addr) != 1)
	    die("bad ip %s", ip);
	return sizeof(*a);
    }
    struct sockaddr_in6 *a = (struct sockaddr_in6 *)ss;
    a->sin6_family = AF_INET6;
    a->sin6_port = htons(port);
    if (inet_pton(AF_INET6, ip, &a->sin6_addr) != 1)
	die("bad ip %s", ip);
    return sizeof(*a);
}

static int port_of(int fd)
{
    struct sockaddr_storage ss;
    socklen_t l = sizeof(ss);
    if (getsockname(fd, (struct sockaddr *)&ss, &l) < 0)
	die("getsockname: %s", strerror(errno));
    return ntohs(ss.ss_family == AF_INET ? ((struct sockaddr_in *)&ss)->sin_port : ((struct sockaddr_in6 *)&ss)->sin6_port);
}

/* a loopback socket bound to an ephemeral port; backlog < 0: not listening */
static int mk_target(int fam, int backlog, int *port)
{
    int fd = socket(fam == 4 ? AF_INET : AF_INET6, SOCK_STREAM | SOCK_NONBLOCK | SOCK_CLOEXEC, 0);
    if (fd < 0)
	die("socket: %s", strerror(errno));
    struct sockaddr_storage ss;
    socklen_t l = mkaddr(fam, fam == 4 ? "127.0.0.1" : "::1", 0, &ss);
    if (bind(fd, (struct sockaddr *)&ss, l) < 0)
	die("bind target: %s", strerror(errno));
    if (backlog >= 0 && listen(fd, backlog) < 0)
	die("listen: %s", strerror(errno));
    *port = port_of(fd);
    return fd;
}

/* DESIGN appendix B: backlog 0, exactly one filler connection; further connects stay in SYN_SENT */
static void mk_silent(int fam, int *lfd, int *ffd, int *port)
{
    *lfd = mk_target(fam, 0, port);
    *ffd = socket(fam == 4 ? AF_INET : AF_INET6, SOCK_STREAM | SOCK_CLOEXEC, 0);
    struct sockaddr_storage ss;
    socklen_t l = mkaddr(fam, fam == 4 ? "127.0.0.1" : "::1", *port, &ss);
    if (connect(*ffd, (struct sockaddr *)&ss, l) < 0)
	die("filler connect: %s", strerror(errno));
    /* verify the recipe here: a second connect must stay pending */
    int probe = socket(fam == 4 ? AF_INET : AF_INET6, SOCK_STREAM | SOCK_NONBLOCK | SOCK_CLOEXEC, 0);
    int rc = connect(probe, (struct sockaddr *)&ss, l);
    struct pollfd p = { .fd = probe, .events = POLLOUT };
    if (rc == 0 || errno != EINPROGRESS || tshim_real_poll(&p, 1, 120) != 0)
	die("silent target recipe does not work here (family %d)", fam);
    close(probe);
}

static void fake_addr(int fam, int idx, unsigned char *a)
{
    memset(a, 0, 16);
    if (fam == 4) {
	a[0] = 10; a[1] = 99; a[2] = 0; a[3] = idx;
    } else {
	a[0] = 0xfd; a[1] = 0x00; a[2] = 0x00; a[3] = 0x99; a[15] = idx;
    }
}

static void fake_str(int fam, int idx, char *buf, size_t len)
{
    if (fam == 4)
	snprintf(buf, len, "10.99.0.%d", idx);
    else
	snprintf(buf, len, "[fd00:99::%x]", idx);
}

static int free_local_port(void)
{
    for (int k = 0; k < 400; k++) {
	int port = portbase + (portnext++ % 400);
	int fd = socket(AF_INET, SOCK_STREAM | SOCK_CLOEXEC, 0);
	struct sockaddr_storage ss;
	socklen_t l = mkaddr(4, LOCAL4, port, &ss);
	int rc = bind(fd, (struct sockaddr *)&ss, l);
	close(fd);
	if (rc == 0)
	    return port;
    }
    die("no free local port near %d", portbase);
    return -1;
}

/* ---- records ------------------------------------------------------------------------ */
static int is_local(const struct sockaddr_storage *a)
{
    if (a->ss_family == AF_INET) {
	const struct sockaddr_in *s = (const struct sockaddr_in *)a;
	struct in_addr want;
	inet_pton(AF_INET, LOCAL4, &want);
	if (strcmp(S.loc, "v4") && strcmp(S.loc, "v4p") && strcmp(S.loc, "name4"))
	    return 0;
	if (memcmp(&s->sin_addr, &want, 4) != 0)
	    return 0;
	return ntohs(s->sin_port) == (strcmp(S.loc, "v4p") ? 0 : local_port);
    }
    if (a->ss_family == AF_INET6) {
	const struct sockaddr_in6 *s = (const struct sockaddr_in6 *)a;
	struct in6_addr want;
	inet_pton(AF_INET6, LOCAL6, &want);
	if (strcmp(S.loc, "v6"))
	    return 0;
	return memcmp(&s->sin6_addr, &want, 16) == 0 && s->sin6_port == 0;
    }
    return 0;
}

/* sys entries: [kind (1 bind, 2 connect, 3 disconnect), index, result, errno, family of the socket]
   index: connect - position of the address in the resolver's answer (0: not an address of the answer);
   bind - 1 if the address is the configured local address, 2 otherwise */
static int sys_json(char *buf, size_t len, int *unsettled)
{
    const struct tshim_ev *ev;
    size_t n = tshim_log_get(&ev);
    size_t o = 0;
    int first = 1;
    o += snprintf(buf + o, len - o, "[");
    for (size_t i = 0; i < n && o + 64 < len; i++) {
	if (ev[i].kind != TE_BIND && ev[i].kind != TE_CONNECT && ev[i].kind != TE_DISC)
	    continue;
	int idx = ev[i].kind == TE_BIND ? (is_local(&ev[i].addr) ? 1 : 2) : ev[i].idx;
	o += snprintf(buf + o, len - o, "%s[%d,%d,%d,%d,%d]", first ? "" : ",", ev[i].kind, idx, ev[i].res, ev[i].err,
		      ev[i].fam);
	first = 0;
	*unsettled += ev[i].unsettled;
    }
    o += snprintf(buf + o, len - o, "]");
    tshim_log_clear();
    return (int)o;
}

static long now_ms(void)
{
    if (!strcmp(S.mode, "vt"))
	return tshim_vt_ms() - t0;
    return (long)((tshim_real_now() - rt0) * 1000.0);
}

static int readable(void)
{
    if (sock == NULL || xfd < 0)
	return -1;
    struct pollfd p = { .fd = xfd, .events = POLLIN };
    return tshim_real_poll(&p, 1, 0) > 0 ? 1 : 0;
}

/* the TCP options of the established connection: what was configured (-1 = left at the default), what xcm_attr_get
   reports, what the kernel has on the connection's descriptor (keepalive on/off, time, interval, count, user time-out) */
static char g_opt[320] = "[]";

static void emit(const char *ev, const char *op, long ret, int err, int w, int nb, int acc, int src, int dat,
		 const char *sc)
{
    static char sys[65536];
    int un = tshim_unsettled();
    sys_json(sys, sizeof(sys), &un);
    fprintf(out, "{\"x\":%ld,\"n\":%d,\"ev\":\"%s\",\"op\":\"%s\",\"ret\":%ld,\"err\":%d,\"t\":%ld,\"rd\":%d,\"w\":%d,"
	    "\"nb\":%d,\"sys\":%s,\"acc\":%d,\"src\":%d,\"dat\":%d,\"hg\":%d,\"un\":%d,\"sc\":%s,\"opt\":%s}\n",
	    S.id, step_no++, ev, op, ret, err, now_ms(), readable(), w, nb, sys, acc, src, dat, tshim_hang(), un,
	    sc ? sc : "[]", g_opt);
    fflush(out);
}

/* ---- scenario set-up ------------------------------------------------------------------ */
static int parse_line(char *line, struct scn *s)
{
    memset(s, 0, sizeof(*s));
    char *save = NULL;
    char *tok = strtok_r(line, " \t\n", &save);
    if (tok == NULL || tok[0] == '#')
	return 0;
    s->id = atol(tok);
    strcpy(s->mode, "vt");
    strcpy(s->kind, "conn");
    strcpy(s->tp, "tcp");
    strcpy(s->alg, "none");
    strcpy(s->res, "sync");
    strcpy(s->loc, "none");
    s->cto = 150;
    s->dto = 300;
    s->ue = ENETUNREACH;
    while ((tok = strtok_r(NULL, " \t\n", &save)) != NULL) {
	char *eq = strchr(tok, '=');
	if (eq == NULL)
	    die("bad token %s", tok);
	*eq++ = '\0';
	if (!strcmp(tok, "mode")) snprintf(s->mode, sizeof(s->mode), "%s", eq);
	else if (!strcmp(tok, "kind")) snprintf(s->kind, sizeof(s->kind), "%s", eq);
	else if (!strcmp(tok, "tp")) snprintf(s->tp, sizeof(s->tp), "%s", eq);
	else if (!strcmp(tok, "alg")) snprintf(s->alg, sizeof(s->alg), "%s", eq);
	else if (!strcmp(tok, "res")) snprintf(s->res, sizeof(s->res), "%s", eq);
	else if (!strcmp(tok, "loc")) snprintf(s->loc, sizeof(s->loc), "%s", eq);
	else if (!strcmp(tok, "cto")) s->cto = atoi(eq);
	else if (!strcmp(tok, "dto")) s->dto = atoi(eq);
	else if (!strcmp(tok, "ue")) s->ue = atoi(eq);
	else if (!strcmp(tok, "blk")) s->blk = atoi(eq);
	else if (!strcmp(tok, "rot")) s->rot = atoi(eq);
	else if (!strcmp(tok, "aux")) s->aux = atoi(eq);
	else if (!strcmp(tok, "ka")) s->ka = atoi(eq);
	else if (!strcmp(tok, "sched")) snprintf(s->sched, sizeof(s->sched), "%s", eq);
	else if (!strcmp(tok, "ips")) {
	    size_t n = strlen(eq);
	    if (n % 2 || n / 2 > MAX_IPS)
		die("bad ips %s", eq);
	    s->nips = (int)(n / 2);
	    for (int i = 0; i < s->nips; i++) {
		s->fam[i] = eq[2 * i] - '0';
		const char *b = strchr("arsu", eq[2 * i + 1]);
		if ((s->fam[i] != 4 && s->fam[i] != 6) || b == NULL)
		    die("bad ips %s", eq);
		s->beh[i] = (int)(b - "arsu") + 1;
	    }
	} else
	    die("unknown key %s", tok);
    }
    return 1;
}

static void scn_json(char *buf, size_t len)
{
    size_t o = 0;
    o += snprintf(buf + o, len - o, "[\"%s\",\"%s\",\"%s\",\"%s\",\"%s\",\"%s\",%d,%d,%d,%d,%d,[", S.mode, S.kind, S.tp,
		  S.alg, S.res, S.loc, S.cto, S.dto, S.ue, S.blk, S.rot);
    for (int i = 0; i < S.nips; i++)
	o += snprintf(buf + o, len - o, "%s[%d,%d]", i ? "," : "", S.fam[i], S.beh[i]);
    snprintf(buf + o, len - o, "]]");
}

static void setup_env(void)
{
    tshim_reset();
    stub_dns_reset();
    memset(&tg, 0, sizeof(tg));
    for (int i = 0; i < MAX_IPS; i++)
	tg.lfd[i] = -1;
    struct stub_answer ans;
    memset(&ans, 0, sizeof(ans));
    for (int i = 0; i < S.nips; i++) {
	int idx = i + 1, port = 0;
	unsigned char fa[16];
	fake_addr(S.fam[i], idx, fa);
	struct sockaddr_storage real;
	socklen_t rl = 0;
	switch (S.beh[i]) {
	case TB_ACCEPT:
	    tg.lfd[i] = mk_target(S.fam[i], 16, &port);
	    break;
	case TB_REFUSE:
	    tg.lfd[i] = mk_target(S.fam[i], -1, &port);
	    break;
	case TB_SILENT:
	    port = S.fam[i] == 4 ? silent4_port : silent6_port;
	    break;
	default:
	    break;
	}
	if (S.beh[i] != TB_UNREACH)
	    rl = mkaddr(S.fam[i], S.fam[i] == 4 ? "127.0.0.1" : "::1", port, &real);
	tshim_map_add(idx, S.fam[i] == 4 ? AF_INET : AF_INET6, fa, rl ? (struct sockaddr *)&real : NULL, rl, S.beh[i],
		      S.ue);
	ans.addrs[i].family = S.fam[i] == 4 ? AF_INET : AF_INET6;
	memcpy(ans.addrs[i].addr, fa, 16);
    }
    ans.naddrs = S.nips;
    const char *name = !strcmp(S.kind, "server") ? SRVNAME : HOST;
    if (!strcmp(S.kind, "server")) {
	/* the server's own name: one loopback address */
	ans.naddrs = 1;
	ans.addrs[0].family = AF_INET;
	memset(ans.addrs[0].addr, 0, 16);
	ans.addrs[0].addr[0] = 127;
	ans.addrs[0].addr[3] = 1;
    }
    if (!strcmp(S.res, "sync")) {
	ans.when = STUB_SYNC; ans.status = ARES_SUCCESS;
    } else if (!strcmp(S.res, "later")) {
	ans.when = STUB_LATER; ans.status = ARES_SUCCESS;
    } else if (!strcmp(S.res, "fail")) {
	ans.when = STUB_SYNC; ans.status = ARES_ENOTFOUND;
    } else if (!strcmp(S.res, "faillater")) {
	ans.when = STUB_LATER; ans.status = ARES_ESERVFAIL;
    } else if (!strcmp(S.res, "silent")) {
	ans.when = STUB_NEVER; ans.status = ARES_SUCCESS;
    }
    if (strcmp(S.res, "ip"))
	stub_dns_script(name, &ans);
    /* the local address given as a name */
    struct stub_answer la;
    memset(&la, 0, sizeof(la));
    la.when = STUB_SYNC;
    la.status = ARES_SUCCESS;
    la.naddrs = 1;
    la.addrs[0].family = AF_INET;
    inet_pton(AF_INET, LOCAL4, la.addrs[0].addr);
    stub_dns_script(LOCALNAME, &la);
    la.status = ARES_ENOTFOUND;
    la.naddrs = 0;
    stub_dns_script(LOCALBAD, &la);
    local_port = !strcmp(S.loc, "v4p") ? free_local_port() : 0;
}

static void teardown_env(void)
{
    for (int i = 0; i < S.nips; i++) {
	for (int k = 0; k < tg.nafd[i]; k++)
	    close(tg.afd[i][k]);
	if (tg.lfd[i] >= 0)
	    close(tg.lfd[i]);
    }
}

/* ---- library calls ---------------------------------------------------------------------- */
static int nb(void) { return S.blk ? 0 : 1; }

static void aux_calls(void)
{
    if (!S.aux || sock == NULL)
	return;
    char buf[64];
    int64_t v;
    int rc, e, w;
    shim_enter(1); errno = 0; rc = xcm_await(sock, XCM_SO_RECEIVABLE); e = errno; shim_leave(); w = shim_wait_seen();
    emit("aux", "await", rc, rc < 0 ? e : 0, w, nb(), 0, 0, 0, NULL);
    shim_enter(1); errno = 0; rc = xcm_fd(sock); e = errno; shim_leave(); w = shim_wait_seen();
    emit("aux", "fd", rc < 0 ? -1 : 0, rc < 0 ? e : 0, w, nb(), 0, 0, 0, NULL);
    shim_enter(1); errno = 0; rc = xcm_attr_get_str(sock, "xcm.type", buf, sizeof(buf)); e = errno; shim_leave();
    w = shim_wait_seen();
    emit("aux", "attr_type", rc < 0 ? -1 : 0, rc < 0 ? e : 0, w, nb(), 0, 0, 0, NULL);
    shim_enter(1); errno = 0; rc = xcm_attr_get_str(sock, "xcm.transport", buf, sizeof(buf)); e = errno; shim_leave();
    w = shim_wait_seen();
    emit("aux", "attr_transport", rc < 0 ? -1 : 0, rc < 0 ? e : 0, w, nb(), 0, 0, 0, NULL);
    shim_enter(1); errno = 0; rc = xcm_attr_get_int64(sock, "tcp.rtt", &v); e = errno; shim_leave(); w = shim_wait_seen();
    emit("aux", "attr_rtt", rc < 0 ? -1 : 0, rc < 0 ? e : 0, w, nb(), 0, 0, 0, NULL);
}

static void do_connect(void)
{
    struct xcm_attr_map *attrs = xcm_attr_map_create();
    xcm_attr_map_add_bool(attrs, "xcm.blocking", S.blk ? true : false);
    if (S.tp[0] == 'b')
	xcm_attr_map_add_str(attrs, "xcm.service", "bytestream");
    if (!strcmp(S.kind, "conn")) {
	if (strcmp(S.alg, "none"))
	    xcm_attr_map_add_str(attrs, "dns.algorithm", !strcmp(S.alg, "happy") ? "happy_eyeballs" : S.alg);
	if (S.cto >= 0)
	    xcm_attr_map_add_double(attrs, "tcp.connect_timeout", S.cto / 1000.0);
	if (S.dto >= 0)
	    xcm_attr_map_add_double(attrs, "dns.timeout", S.dto / 1000.0);
	if (S.ka > 0) {
	    xcm_attr_map_add_int64(attrs, "tcp.keepalive_time", S.ka + 1);
	    xcm_attr_map_add_int64(attrs, "tcp.keepalive_interval", S.ka + 2);
	    xcm_attr_map_add_int64(attrs, "tcp.keepalive_count", S.ka + 3);
	    xcm_attr_map_add_int64(attrs, "tcp.user_timeout", S.ka + 4);
	}
	char la[128] = "";
	if (!strcmp(S.loc, "v4")) snprintf(la, sizeof(la), "%s:%s:0", S.tp, LOCAL4);
	else if (!strcmp(S.loc, "v4p")) snprintf(la, sizeof(la), "%s:%s:%d", S.tp, LOCAL4, local_port);
	else if (!strcmp(S.loc, "v6")) snprintf(la, sizeof(la), "%s:[%s]:0", S.tp, LOCAL6);
	else if (!strcmp(S.loc, "name4")) snprintf(la, sizeof(la), "%s:%s:0", S.tp, LOCALNAME);
	else if (!strcmp(S.loc, "namex")) snprintf(la, sizeof(la), "%s:%s:0", S.tp, LOCALBAD);
	if (la[0])
	    xcm_attr_map_add_str(attrs, "xcm.local_addr", la);
    }
    char addr[160];
    if (!strcmp(S.kind, "server")) {
	snprintf(addr, sizeof(addr), "%s:%s:0", S.tp, SRVNAME);
    } else if (!strcmp(S.res, "ip")) {
	char ip[64];
	fake_str(S.fam[0], 1, ip, sizeof(ip));
	snprintf(addr, sizeof(addr), "%s:%s:%d", S.tp, ip, REMOTE_PORT);
    } else
	snprintf(addr, sizeof(addr), "%s:%s:%d", S.tp, HOST, REMOTE_PORT);

    shim_enter(1);
    errno = 0;
    if (!strcmp(S.kind, "server"))
	sock = xcm_server_a(addr, attrs);
    else
	sock = xcm_connect_a(addr, attrs);
    int e = errno;
    shim_leave();
    int w = shim_wait_seen();
    xcm_attr_map_destroy(attrs);
    xfd = sock != NULL ? xcm_fd(sock) : -1;
    emit("api", !strcmp(S.kind, "server") ? "server" : "connect", sock != NULL ? 0 : -1, sock != NULL ? 0 : e, w,
	 !strcmp(S.kind, "server") ? 0 : nb(), 0, 0, 0, NULL);
    if (sock == NULL || S.blk || !strcmp(S.kind, "server"))
	decided = 1;
    aux_calls();
}

static const char *OPS[3] = { "finish", "send", "receive" };

/* returns 1 once a verdict is in: success of finish (or of a byte-stream send), or a failure other than EAGAIN */
static int do_poll(void)
{
    if (sock == NULL)
	return 1;
    int k = (npolls++ + S.rot) % 3;
    char buf[256];
    long rc;
    shim_enter(1);
    errno = 0;
    if (k == 0)
	rc = xcm_finish(sock);
    else if (k == 1)
	rc = xcm_send(sock, "PPPP", 4);
    else
	rc = xcm_receive(sock, buf, sizeof(buf));
    int e = errno;
    shim_leave();
    int w = shim_wait_seen();
    emit("api", OPS[k], rc, rc < 0 ? e : 0, w, nb(), 0, 0, 0, NULL);
    aux_calls();
    int v = rc < 0 ? e != EAGAIN : (k == 0 || (k == 1 && S.tp[0] == 'b'));
    if (v)
	decided = 1;
    return v;
}

static void do_advance(long ms)
{
    tshim_vt_set_ms(t0 + ms);
    emit("env", "advance", 0, 0, 0, 0, 0, 0, 0, NULL);
}

static void do_release(void)
{
    int n = stub_dns_release(NULL);
    emit("env", "release", n, 0, 0, 0, 0, 0, 0, NULL);
}

static int auto_release(void)
{
    return stub_dns_release(NULL);
}

static void record_opts(int lport)
{
    /* the connection's descriptor: the connected TCP socket of this process whose local port is the connection's */
    int cfd = -1;
    for (int fd = 3; fd < 1024 && cfd < 0; fd++) {
	struct sockaddr_storage a, b;
	socklen_t al = sizeof(a), bl = sizeof(b);
	if (getsockname(fd, (struct sockaddr *)&a, &al) < 0 || (a.ss_family != AF_INET && a.ss_family != AF_INET6))
	    continue;
	int port = ntohs(a.ss_family == AF_INET ? ((struct sockaddr_in *)&a)->sin_port : ((struct sockaddr_in6 *)&a)->sin6_port);
	if (port == lport && getpeername(fd, (struct sockaddr *)&b, &bl) == 0)
	    cfd = fd;
    }
    if (cfd < 0)
	return;
    long rep[5] = { -2, -2, -2, -2, -2 }, ker[5] = { -3, -3, -3, -3, -3 };
    bool kb = false;
    int64_t v;
    shim_enter(1);
    if (xcm_attr_get_bool(sock, "tcp.keepalive", &kb) >= 0) rep[0] = kb;
    if (xcm_attr_get_int64(sock, "tcp.keepalive_time", &v) >= 0) rep[1] = (long)v;
    if (xcm_attr_get_int64(sock, "tcp.keepalive_interval", &v) >= 0) rep[2] = (long)v;
    if (xcm_attr_get_int64(sock, "tcp.keepalive_count", &v) >= 0) rep[3] = (long)v;
    if (xcm_attr_get_int64(sock, "tcp.user_timeout", &v) >= 0) rep[4] = (long)v;
    shim_leave();
    shim_wait_seen();
    int iv;
    unsigned uv;
    socklen_t l = sizeof(iv);
    if (getsockopt(cfd, SOL_SOCKET, SO_KEEPALIVE, &iv, &l) == 0) ker[0] = iv != 0;
    l = sizeof(iv);
    if (getsockopt(cfd, IPPROTO_TCP, TCP_KEEPIDLE, &iv, &l) == 0) ker[1] = iv;
    l = sizeof(iv);
    if (getsockopt(cfd, IPPROTO_TCP, TCP_KEEPINTVL, &iv, &l) == 0) ker[2] = iv;
    l = sizeof(iv);
    if (getsockopt(cfd, IPPROTO_TCP, TCP_KEEPCNT, &iv, &l) == 0) ker[3] = iv;
    l = sizeof(uv);
    if (getsockopt(cfd, IPPROTO_TCP, TCP_USER_TIMEOUT, &uv, &l) == 0) ker[4] = (long)(uv / 1000);
    long cfg[5] = { -1, S.ka > 0 ? S.ka + 1 : -1, S.ka > 0 ? S.ka + 2 : -1, S.ka > 0 ? S.ka + 3 : -1, S.ka > 0 ? S.ka + 4 : -1 };
    snprintf(g_opt, sizeof(g_opt), "[%ld,%ld,%ld,%ld,%ld,%ld,%ld,%ld,%ld,%ld,%ld,%ld,%ld,%ld,%ld]", cfg[0], cfg[1], cfg[2], cfg[3],
	     cfg[4], rep[0], rep[1], rep[2], rep[3], rep[4], ker[0], ker[1], ker[2], ker[3], ker[4]);
}

/* which listener holds the connection of the socket, is its source the configured one, does data flow */
static void do_end(void)
{
    int acc = 0, src = -1, dat = 0, afd = -1;
    if (sock != NULL && !strcmp(S.kind, "conn")) {
	int lport = -1;
	shim_enter(1);
	const char *la = xcm_local_addr(sock);
	shim_leave();
	shim_wait_seen();
	if (la != NULL) {
	    const char *c = strrchr(la, ':');
	    if (c != NULL)
		lport = atoi(c + 1);
	}
	for (int i = 0; i < S.nips; i++) {
	    if (S.beh[i] != TB_ACCEPT)
		continue;
	    for (;;) {
		struct sockaddr_storage pa;
		socklen_t pl = sizeof(pa);
		int fd = accept4(tg.lfd[i], (struct sockaddr *)&pa, &pl, SOCK_NONBLOCK | SOCK_CLOEXEC);
		if (fd < 0)
		    break;
		if (tg.nafd[i] < 8)
		    tg.afd[i][tg.nafd[i]++] = fd;
		else {
		    close(fd);
		    continue;
		}
		int pport = ntohs(pa.ss_family == AF_INET ? ((struct sockaddr_in *)&pa)->sin_port
				  : ((struct sockaddr_in6 *)&pa)->sin6_port);
		if (lport > 0 && pport == lport) {
		    acc = i + 1;
		    afd = fd;
		    if (strcmp(S.loc, "none") && strcmp(S.loc, "namex")) {
			/* the peer address seen by the listener must be the configured local address
			   (with the configured port when one was given) */
			struct sockaddr_storage want = pa;
			if (pa.ss_family == AF_INET && strcmp(S.loc, "v4p"))
			    ((struct sockaddr_in *)&want)->sin_port = 0;
			else if (pa.ss_family == AF_INET6)
			    ((struct sockaddr_in6 *)&want)->sin6_port = 0;
			src = is_local(&want);
		    }
		}
	    }
	}
	if (afd >= 0) {
	    static const char marker[] = "VRFY";
	    /* a message that a polling xcm_send() left in the library's buffer goes out first */
	    for (int tries = 0; tries < 50; tries++) {
		shim_enter(1);
		int rc = xcm_send(sock, marker, 4);
		int e = errno;
		shim_leave();
		if (rc >= 0 || e != EAGAIN)
		    break;
		struct pollfd p = { .fd = xfd, .events = POLLIN };
		tshim_real_poll(&p, 1, 20);
	    }
	    shim_enter(1);
	    xcm_finish(sock);
	    shim_leave();
	    shim_wait_seen();
	    char got[512];
	    size_t have = 0;
	    for (int tries = 0; tries < 100 && !dat; tries++) {
		struct pollfd p = { .fd = afd, .events = POLLIN };
		if (tshim_real_poll(&p, 1, 20) <= 0)
		    continue;
		ssize_t r = recv(afd, got + have, sizeof(got) - have, 0);
		if (r <= 0)
		    break;
		have += (size_t)r;
		if (memmem(got, have, marker, 4) != NULL)
		    dat = 1;
	    }
	}
	if (acc > 0 && lport > 0)
	    record_opts(lport);
    } else if (sock != NULL)
	acc = -1;
    tshim_log_clear();
    emit("end", "verify", sock != NULL ? 0 : -1, 0, 0, 0, acc, src, dat, NULL);
    snprintf(g_opt, sizeof(g_opt), "[]");
    /* the accepting side goes first, so that the client side never lingers in TIME_WAIT */
    teardown_env();
    if (sock != NULL) {
	shim_enter(1);
	errno = 0;
	int rc = xcm_close(sock);
	int e = errno;
	shim_leave();
	int w = shim_wait_seen();
	sock = NULL;
	xfd = -1;
	emit("api", "close", rc, rc < 0 ? e : 0, w, nb(), 0, 0, 0, NULL);
    }
}

/* prompt polling driven by the harness itself (virtual time) */
static void run_auto(void)
{
    for (int guard = 0; guard < 400 && sock != NULL && !decided; guard++) {
	if (readable() == 1) {
	    if (do_poll())
		return;
	    continue;
	}
	if (stub_dns_waiting() > 0) {
	    do_release();
	    continue;
	}
	long next = tshim_vt_next_ms();
	if (next < 0) {
	    /* nothing can wake the application any more: calls without a wake-up (the verdict may already
	       be there, e.g. after a buffered xcm_send()); still none = the application would hang */
	    for (int k = 0; k < 3; k++)
		if (do_poll())
		    return;
	    emit("env", "stuck", 0, 0, 0, 0, 0, 0, 0, NULL);
	    return;
	}
	do_advance(next + 1 - t0);
    }
}

static void run_rt(void)
{
    if (stub_dns_waiting() > 0)
	do_release();
    double last = tshim_real_now();
    int calls = 0;
    while (sock != NULL) {
	struct pollfd p = { .fd = xfd, .events = POLLIN };
	int r = tshim_real_poll(&p, 1, 1000);
	if (r > 0 && calls++ < 2000) {
	    if (do_poll())
		return;
	    last = tshim_real_now();
	} else if (calls >= 2000 || (tshim_real_now() - last) * 1000.0 > RT_HARD_MS) {
	    /* readable for ever without a verdict, or nothing for RT_HARD_MS */
	    emit("env", "stuck", 0, 0, 0, 0, 0, 0, 0, NULL);
	    return;
	}
    }
}

static void run_scenario(void)
{
    bool vt = !strcmp(S.mode, "vt");
    step_no = 0;
    npolls = 0;
    decided = 0;
    sock = NULL;
    xfd = -1;
    tshim_vt_enable(vt);
    /* waits inside the library (blocking mode, synchronous resolution) advance virtual time themselves */
    tshim_auto(vt);
    setup_env();
    t0 = vt ? tshim_vt_ms() : 0;
    rt0 = tshim_real_now();
    char sc[1024];
    scn_json(sc, sizeof(sc));
    emit("scn", "", 0, 0, 0, 0, 0, 0, 0, sc);

    if (!vt) {
	do_connect();
	if (!S.blk && !strcmp(S.kind, "conn"))
	    run_rt();
    } else {
	char sched[4096];
	snprintf(sched, sizeof(sched), "%s", S.sched);
	char *save = NULL;
	for (char *tok = strtok_r(sched, ",", &save); tok != NULL; tok = strtok_r(NULL, ",", &save)) {
	    if (!strcmp(tok, "c"))
		do_connect();
	    else if (!strcmp(tok, "p"))
		do_poll();
	    else if (!strcmp(tok, "r"))
		do_release();
	    else if (tok[0] == 'a' && tok[1] >= '0' && tok[1] <= '9')
		do_advance(atol(tok + 1));
	    else if (!strcmp(tok, "auto"))
		run_auto();
	    else
		die("bad schedule token %s", tok);
	    if (tshim_hang())
		break;
	}
    }
    do_end();
    if (stub_dns_channels() != 0)
	fprintf(stderr, "note: %d resolver channels alive after scenario %ld\n", stub_dns_channels(), S.id);
}

int main(int argc, char **argv)
{
    if (argc < 3) {
	fprintf(stderr, "usage: tconn_exec <scenario file> <output ndjson> [portbase]\n");
	return 2;
    }
    FILE *in = fopen(argv[1], "r");
    out = fopen(argv[2], "w");
    if (in == NULL || out == NULL) {
	perror("open");
	return 2;
    }
    if (argc > 3)
	portbase = atoi(argv[3]);
    signal(SIGPIPE, SIG_IGN);
    setenv("XCM_CTL", "/nonexistent/xcm-ctl", 1);
    mk_silent(4, &silent4, &filler4, &silent4_port);
    mk_silent(6, &silent6, &filler6, &silent6_port);
    shim_nonblock_watch(true);
    tshim_set_release_cb(auto_release);

    static char line[8192];
    while (fgets(line, sizeof(line), in) != NULL) {
	if (!parse_line(line, &S))
	    continue;
	run_scenario();
    }
    fclose(out);
    return 0;
}
