/*
 * maps_exec - conformance harness for property C19 (attribute maps and
 * attribute path names).
 *
 *   maps_exec map  <script>  <trace.ndjson>
 *   maps_exec path <vectors> <trace.ndjson>
 *
 * mode map: replays operation sequences (emitted by TLC from
 * spec/AttrMap.tla, or seeded random ones) against the public
 * xcm_attr_map_* API and, after EVERY operation, records everything the
 * API lets one observe about both maps as one NDJSON line.  The harness
 * has no model of a map: it only knows the dictionary id <-> name and
 * token <-> bytes of the current execution, so that names and values can
 * be written as plain ASCII.  spec/AttrMapTrace.tla computes the expected
 * observations.
 *
 * mode path: runs attr_path_parse / attr_path_to_str / attr_path_equal /
 * attr_path_equal_str / attr_path_len (linked straight from the library
 * objects) on every vector, with exact-size heap copies of the input so
 * that an over-read traps under ASan.  spec/AttrPathTrace.tla computes the
 * expected results.
 *
 * Both modes run the items in a forked child; if the child dies (ASan /
 * UBSan report, abort, signal) the parent writes a "crash" line for the
 * item in progress and restarts the child at the next item.
 *
 * Script (mode map), one execution:
 *   X <xid> <full 0|1> <adder 0 typed|1 generic|2 alternate>
 *   K <id> <name as hex | ->          (key universe; "-" is the empty name)
 *   add <a|b> <id> <token> | del <a|b> <id> | create | clone | destroy
 *   addall <dst> <src>
 *   E
 * tokens: b:0|1  i:<decimal>  d:<16 hex>  s:<len>:<seed>  x:<len>:<seed>  z:<len>
 * (string / binary of len bytes whose first bytes encode the seed, the rest pseudo-random; z: zeros)
 *
 * Vectors (mode path), one per line:  <id> <root 0|1> <string as hex | ->
 */
#include <ctype.h>
#include <errno.h>
#include <fcntl.h>
#include <inttypes.h>
#include <stdarg.h>
#include <stdbool.h>
#include <stdint.h>
#include <stdio.h>
#include <stdlib.h>
#include <string.h>
#include <sys/mman.h>
#include <sys/types.h>
#include <sys/wait.h>
#include <unistd.h>

#include "xcm_attr_map.h"
#include "attr_path.h"

static void die(const char *fmt, ...)
{
    va_list ap;
    va_start(ap, fmt);
    fprintf(stderr, "maps_exec: ");
    vfprintf(stderr, fmt, ap);
    fprintf(stderr, "\n");
    va_end(ap);
    exit(4);
}

static void *xmalloc(size_t n)
{
    void *p = malloc(n ? n : 1);
    if (!p)
	die("out of memory");
    return p;
}

static void *xrealloc(void *p, size_t n)
{
    p = realloc(p, n ? n : 1);
    if (!p)
	die("out of memory");
    return p;
}

static char *xstrdup(const char *s)
{
    char *p = xmalloc(strlen(s) + 1);
    strcpy(p, s);
    return p;
}

/* ------------------------------------------------------------ buffer ---- */
struct buf
{
    char *p;
    size_t len;
    size_t cap;
};

static void buf_need(struct buf *b, size_t n)
{
    if (b->len + n + 1 > b->cap) {
	b->cap = (b->len + n + 1) * 2 + 256;
	b->p = xrealloc(b->p, b->cap);
    }
}

static void bputs(struct buf *b, const char *s)
{
    size_t n = strlen(s);
    buf_need(b, n);
    memcpy(b->p + b->len, s, n);
    b->len += n;
    b->p[b->len] = '\0';
}

static void bprintf(struct buf *b, const char *fmt, ...)
{
    char tmp[512];
    va_list ap;
    va_start(ap, fmt);
    vsnprintf(tmp, sizeof(tmp), fmt, ap);
    va_end(ap);
    bputs(b, tmp);
}

/* codes of a byte string as a JSON array of integers */
static void bcodes(struct buf *b, const char *s, size_t n)
{
    size_t i;
    bputs(b, "[");
    for (i = 0; i < n; i++)
	bprintf(b, "%s%u", i ? "," : "", (unsigned)(unsigned char)s[i]);
    bputs(b, "]");
}

static int hexval(int c)
{
    if (c >= '0' && c <= '9')
	return c - '0';
    if (c >= 'a' && c <= 'f')
	return c - 'a' + 10;
    if (c >= 'A' && c <= 'F')
	return c - 'A' + 10;
    return -1;
}

/* "-" or hex -> malloc'ed NUL-terminated byte string (no NUL inside) */
static char *unhex(const char *h, size_t *len)
{
    if (strcmp(h, "-") == 0) {
	*len = 0;
	return xstrdup("");
    }
    size_t n = strlen(h);
    if (n % 2)
	die("odd hex string");
    char *s = xmalloc(n / 2 + 1);
    size_t i;
    for (i = 0; i < n / 2; i++) {
	int a = hexval(h[2 * i]), c = hexval(h[2 * i + 1]);
	if (a < 0 || c < 0 || (a == 0 && c == 0))
	    die("bad hex string");
	s[i] = (char)(a * 16 + c);
    }
    s[n / 2] = '\0';
    *len = n / 2;
    return s;
}

/* ------------------------------------------------------- supervision ---- */
struct progress
{
    volatile long idx;
    volatile long step;
};

static struct progress *prog;
static FILE *out;
static char errpath[4096];

static void put_line(struct buf *b)
{
    fwrite(b->p, 1, b->len, out);
    fputc('\n', out);
    fflush(out);
    b->len = 0;
}

/* a short, JSON-safe description of why the child died */
static void crash_reason(int status, char *why, size_t cap)
{
    char line[1024];
    char pick[1024] = "";
    FILE *f = fopen(errpath, "r");
    if (f) {
	while (fgets(line, sizeof(line), f)) {
	    if (strstr(line, "ERROR: AddressSanitizer") || strstr(line, "runtime error:") ||
		strstr(line, "ERROR: LeakSanitizer") || strstr(line, "Assertion")) {
		snprintf(pick, sizeof(pick), "%s", line);
		break;
	    }
	}
	fclose(f);
    }
    char head[64];
    if (WIFSIGNALED(status))
	snprintf(head, sizeof(head), "signal %d", WTERMSIG(status));
    else
	snprintf(head, sizeof(head), "exit %d", WEXITSTATUS(status));
    char *s = pick;
    char *e;
    if ((e = strstr(s, "ERROR: ")))
	s = e + 7;
    else if ((e = strstr(s, "runtime error:")))
	s = e;
    size_t n = 0;
    n += snprintf(why, cap, "%s", head);
    if (*s && n + 2 < cap) {
	why[n++] = ' ';
	for (; *s && *s != '\n' && n + 1 < cap && n < 160; s++) {
	    char c = *s;
	    why[n++] = (isalnum((unsigned char)c) || strchr(" _:.-+()[]*'", c)) ? c : '_';
	}
	why[n] = '\0';
    }
}

static long supervise(long nitems, void (*run_item)(long), void (*emit_crash)(long, long, const char *))
{
    long start = 0;
    long crashes = 0;
    prog = mmap(NULL, sizeof(*prog), PROT_READ | PROT_WRITE, MAP_SHARED | MAP_ANONYMOUS, -1, 0);
    if (prog == MAP_FAILED)
	die("mmap: %s", strerror(errno));
    while (start < nitems) {
	fflush(out);
	fflush(stderr);
	prog->idx = start;
	prog->step = 0;
	pid_t pid = fork();
	if (pid < 0)
	    die("fork: %s", strerror(errno));
	if (pid == 0) {
	    int fd = open(errpath, O_WRONLY | O_CREAT | O_TRUNC, 0644);
	    if (fd >= 0) {
		dup2(fd, 2);
		close(fd);
	    }
	    long i;
	    for (i = start; i < nitems; i++) {
		prog->idx = i;
		prog->step = 0;
		run_item(i);
	    }
	    fflush(out);
	    _exit(0);
	}
	int status = 0;
	while (waitpid(pid, &status, 0) < 0 && errno == EINTR)
	    ;
	if (WIFEXITED(status) && WEXITSTATUS(status) == 0)
	    break;
	if (WIFEXITED(status) && WEXITSTATUS(status) == 4)
	    die("child reported a script error (see %s)", errpath);
	char why[256];
	crash_reason(status, why, sizeof(why));
	emit_crash(prog->idx, prog->step, why);
	crashes++;
	start = prog->idx + 1;
    }
    return crashes;
}

/* ================================================================ maps == */
enum { T_BOOL, T_INT64, T_DOUBLE, T_STR, T_BIN, T_N };
static const char *tname[T_N] = { "bool", "int64", "double", "str", "bin" };
static const enum xcm_attr_type ttype[T_N] = { xcm_attr_type_bool, xcm_attr_type_int64, xcm_attr_type_double,
					       xcm_attr_type_str, xcm_attr_type_bin };

static int type_index(enum xcm_attr_type t)
{
    int i;
    for (i = 0; i < T_N; i++)
	if (ttype[i] == t)
	    return i;
    return -1;
}

struct key
{
    char *id;
    char *name;
    size_t name_len;
};

struct tok
{
    char *text;
    int type;
    unsigned char *bytes;
    size_t len;
};

struct op
{
    char kind;			/* a add, d del, r create, c clone, l addall, y destroy */
    int m, s;			/* map indices 0 = a, 1 = b */
    int key, tok;
};

struct exec
{
    long xid;
    int full;
    int adder;
    int nkeys, ntoks, nops;
    struct key *keys;
    struct tok *toks;
    struct op *ops;
};

static struct exec *execs;
static long nexecs, xcap;

static uint64_t prng(uint64_t *s)
{
    uint64_t x = *s;
    x ^= x << 13;
    x ^= x >> 7;
    x ^= x << 17;
    *s = x;
    return x;
}

static void materialize(struct tok *t)
{
    const char *s = t->text;
    if (s[0] == 'b' && s[1] == ':') {
	t->type = T_BOOL;
	t->len = sizeof(bool);
	t->bytes = xmalloc(t->len);
	bool v = s[2] == '1';
	memcpy(t->bytes, &v, sizeof(v));
    } else if (s[0] == 'i' && s[1] == ':') {
	t->type = T_INT64;
	t->len = sizeof(int64_t);
	t->bytes = xmalloc(t->len);
	errno = 0;
	int64_t v = strtoll(s + 2, NULL, 10);
	if (errno)
	    die("bad token %s", s);
	memcpy(t->bytes, &v, sizeof(v));
    } else if (s[0] == 'd' && s[1] == ':') {
	t->type = T_DOUBLE;
	t->len = sizeof(double);
	t->bytes = xmalloc(t->len);
	uint64_t bits = strtoull(s + 2, NULL, 16);
	memcpy(t->bytes, &bits, sizeof(bits));
    } else if ((s[0] == 's' || s[0] == 'x') && s[1] == ':') {
	/* the first min(len, 4) bytes encode the seed (base 255, +1, for strings; base 256 for
	   binaries), the rest is pseudo-random: distinct tokens of one kind denote distinct bytes */
	unsigned long len, seed;
	if (sscanf(s + 2, "%lu:%lu", &len, &seed) != 2)
	    die("bad token %s", s);
	int str = s[0] == 's';
	unsigned long base = str ? 255 : 256;
	uint64_t st = 0x9E3779B97F4A7C15ull ^ (seed * 0x100000001B3ull + len * 2 + (str ? 1 : 0));
	size_t i;
	size_t k = len < 4 ? len : 4;
	unsigned long rest = seed;
	t->type = str ? T_STR : T_BIN;
	t->len = str ? len + 1 : len;
	t->bytes = xmalloc(t->len);
	for (i = 0; i < len; i++) {
	    if (i < k) {
		t->bytes[i] = (unsigned char)(rest % base + (str ? 1 : 0));
		rest /= base;
	    } else
		t->bytes[i] = str ? (unsigned char)(1 + prng(&st) % 255) : (unsigned char)(prng(&st) >> 24);
	}
	if (rest != 0)
	    die("token %s: the seed does not fit the first bytes", s);
	if (str)
	    t->bytes[len] = 0;
    } else if (s[0] == 'z' && s[1] == ':') {
	t->type = T_BIN;
	t->len = strtoul(s + 2, NULL, 10);
	t->bytes = xmalloc(t->len);
	memset(t->bytes, 0, t->len);
    } else
	die("bad token %s", s);
}

static int find_key(struct exec *x, const char *id)
{
    int i;
    for (i = 0; i < x->nkeys; i++)
	if (strcmp(x->keys[i].id, id) == 0)
	    return i;
    die("execution %ld: unknown key id %s", x->xid, id);
    return -1;
}

static int find_tok(struct exec *x, const char *text)
{
    int i;
    for (i = 0; i < x->ntoks; i++)
	if (strcmp(x->toks[i].text, text) == 0)
	    return i;
    x->toks = xrealloc(x->toks, (x->ntoks + 1) * sizeof(struct tok));
    struct tok *t = &x->toks[x->ntoks];
    t->text = xstrdup(text);
    materialize(t);
    /* the dictionary must be injective: no two tokens of one type with the same bytes */
    for (i = 0; i < x->ntoks; i++)
	if (x->toks[i].type == t->type && x->toks[i].len == t->len &&
	    memcmp(x->toks[i].bytes, t->bytes, t->len) == 0)
	    die("execution %ld: tokens %s and %s denote the same bytes", x->xid, x->toks[i].text, text);
    return x->ntoks++;
}

static int map_index(const char *s)
{
    if (strcmp(s, "a") == 0)
	return 0;
    if (strcmp(s, "b") == 0)
	return 1;
    die("bad map name %s", s);
    return -1;
}

static void load_script(const char *path)
{
    FILE *f = fopen(path, "r");
    if (!f)
	die("cannot open %s", path);
    char *line = NULL;
    size_t cap = 0;
    struct exec *x = NULL;
    while (getline(&line, &cap, f) > 0) {
	char *w[5];
	int n = 0;
	char *sv = NULL;
	char *p;
	for (p = strtok_r(line, " \t\r\n", &sv); p && n < 5; p = strtok_r(NULL, " \t\r\n", &sv))
	    w[n++] = p;
	if (n == 0 || w[0][0] == '#')
	    continue;
	if (strcmp(w[0], "X") == 0) {
	    if (n < 4)
		die("bad X line");
	    if (nexecs == xcap) {
		xcap = xcap * 2 + 1024;
		execs = xrealloc(execs, xcap * sizeof(struct exec));
	    }
	    x = &execs[nexecs++];
	    memset(x, 0, sizeof(*x));
	    x->xid = atol(w[1]);
	    x->full = atoi(w[2]);
	    x->adder = atoi(w[3]);
	    continue;
	}
	if (!x)
	    die("operation before X");
	if (strcmp(w[0], "E") == 0) {
	    x = NULL;
	    continue;
	}
	if (strcmp(w[0], "K") == 0) {
	    if (n < 3)
		die("bad K line");
	    if ((x->nkeys & (x->nkeys + 1)) == 0)
		x->keys = xrealloc(x->keys, (2 * (x->nkeys + 1)) * sizeof(struct key));
	    struct key *k = &x->keys[x->nkeys];
	    k->id = xstrdup(w[1]);
	    k->name = unhex(w[2], &k->name_len);
	    int i;
	    for (i = 0; i < x->nkeys; i++)
		if (strcmp(x->keys[i].name, k->name) == 0 || strcmp(x->keys[i].id, k->id) == 0)
		    die("execution %ld: key %s is not distinct", x->xid, k->id);
	    x->nkeys++;
	    continue;
	}
	if ((x->nops & (x->nops + 1)) == 0)	/* capacity: next power of two minus one */
	    x->ops = xrealloc(x->ops, (2 * (x->nops + 1)) * sizeof(struct op));
	struct op *o = &x->ops[x->nops];
	memset(o, 0, sizeof(*o));
	if (strcmp(w[0], "add") == 0 && n == 4) {
	    o->kind = 'a';
	    o->m = map_index(w[1]);
	    o->key = find_key(x, w[2]);
	    o->tok = find_tok(x, w[3]);
	} else if (strcmp(w[0], "del") == 0 && n == 3) {
	    o->kind = 'd';
	    o->m = map_index(w[1]);
	    o->key = find_key(x, w[2]);
	} else if (strcmp(w[0], "create") == 0)
	    o->kind = 'r';
	else if (strcmp(w[0], "clone") == 0)
	    o->kind = 'c';
	else if (strcmp(w[0], "destroy") == 0)
	    o->kind = 'y';
	else if (strcmp(w[0], "addall") == 0 && n == 3) {
	    o->kind = 'l';
	    o->m = map_index(w[1]);
	    o->s = map_index(w[2]);
	} else
	    die("bad script line starting with %s", w[0]);
	x->nops++;
    }
    free(line);
    fclose(f);
}

/* what one map looks like through the API, per key of the universe */
struct kview
{
    /* foreach */
    int f_cnt;			/* times foreach reported this name */
    int f_type;			/* type index, -1 unknown */
    int f_tok;			/* token index, -1 = bytes match no token of that type */
    long f_len;
    const void *f_name_ptr;
    /* getters */
    int g_ex;
    int g_type;			/* -1 = xcm_attr_map_get returned NULL */
    int g_tok;
    long g_len;
    int g_mask;			/* typed getters answering non-NULL */
    const void *g_ptr;
};

struct mview
{
    int up;
    long size;
    struct kview *k;		/* nkeys entries */
    struct buf extra;		/* foreach entries whose name is not in the universe */
    int nextra;
};

struct fe_ctx
{
    struct exec *x;
    struct mview *v;
    long bad_bytes;
};

static int match_tok(struct exec *x, int type, const void *value, size_t len)
{
    int i;
    for (i = 0; i < x->ntoks; i++)
	if (x->toks[i].type == type && x->toks[i].len == len &&
	    (len == 0 || memcmp(x->toks[i].bytes, value, len) == 0))
	    return i;
    return -1;
}

static const char *tok_text(struct exec *x, int tok)
{
    return tok >= 0 ? x->toks[tok].text : "?";
}

static const char *type_text(int t)
{
    return t >= 0 && t < T_N ? tname[t] : "?";
}

static void foreach_cb(const char *attr_name, enum xcm_attr_type attr_type, const void *attr_value,
		       size_t attr_value_len, void *user)
{
    struct fe_ctx *c = user;
    struct exec *x = c->x;
    int ti = type_index(attr_type);
    int tok = (attr_value != NULL || attr_value_len == 0) ? match_tok(x, ti, attr_value, attr_value_len) : -1;
    if (tok < 0)
	c->bad_bytes++;
    int i;
    for (i = 0; i < x->nkeys; i++)
	if (strcmp(x->keys[i].name, attr_name) == 0)
	    break;
    if (i == x->nkeys) {
	bprintf(&c->v->extra, "%s[\"?\",\"%s\",\"%s\",%ld]", c->v->nextra ? "," : "", type_text(ti),
		tok_text(x, tok), (long)attr_value_len);
	c->v->nextra++;
	return;
    }
    struct kview *k = &c->v->k[i];
    k->f_cnt++;
    k->f_type = ti;
    k->f_tok = tok;
    k->f_len = (long)attr_value_len;
    k->f_name_ptr = attr_name;
}

static void kview_reset(struct kview *k)
{
    memset(k, 0, sizeof(*k));
    k->f_type = -1;
    k->f_tok = -1;
    k->f_len = -1;
    k->g_type = -1;
    k->g_tok = -1;
    k->g_len = -1;
}

/* tb: typed getters that disagree with the generic one; bx: values whose bytes match no token */
static void observe(struct exec *x, struct xcm_attr_map *m, struct mview *v, long *tb, long *bx)
{
    int i;
    v->extra.len = 0;
    if (v->extra.p)
	v->extra.p[0] = '\0';
    v->nextra = 0;
    for (i = 0; i < x->nkeys; i++)
	kview_reset(&v->k[i]);
    v->up = m != NULL;
    v->size = -1;
    if (m == NULL)
	return;
    v->size = (long)xcm_attr_map_size(m);
    struct fe_ctx c = { .x = x, .v = v, .bad_bytes = 0 };
    xcm_attr_map_foreach(m, foreach_cb, &c);
    *bx += c.bad_bytes;
    for (i = 0; i < x->nkeys; i++) {
	struct kview *k = &v->k[i];
	/* exact-size heap copy of the name: an over-read traps */
	char *name = malloc(x->keys[i].name_len + 1);
	memcpy(name, x->keys[i].name, x->keys[i].name_len + 1);
	k->g_ex = xcm_attr_map_exists(m, name) ? 1 : 0;
	enum xcm_attr_type type = 0;
	size_t len = 0;
	const void *p = xcm_attr_map_get(m, name, &type, &len);
	const void *p2 = xcm_attr_map_get(m, name, NULL, NULL);
	if (p != p2)
	    (*tb)++;
	k->g_ptr = p;
	if (p != NULL) {
	    k->g_type = type_index(type);
	    k->g_len = (long)len;
	    k->g_tok = match_tok(x, k->g_type, p, len);
	    if (k->g_tok < 0)
		(*bx)++;
	}
	const void *tp[T_N];
	tp[T_BOOL] = xcm_attr_map_get_bool(m, name);
	tp[T_INT64] = xcm_attr_map_get_int64(m, name);
	tp[T_DOUBLE] = xcm_attr_map_get_double(m, name);
	tp[T_STR] = xcm_attr_map_get_str(m, name);
	tp[T_BIN] = xcm_attr_map_get_bin(m, name);
	int t;
	for (t = 0; t < T_N; t++) {
	    if (tp[t] == NULL)
		continue;
	    k->g_mask |= 1 << t;
	    /* a typed getter that answers must answer the value of the generic one */
	    if (p == NULL)
		(*tb)++;
	    else if (tp[t] != p && (len > 0 && memcmp(tp[t], p, len) != 0))
		(*tb)++;
	}
	free(name);
    }
}

static void emit_fe_entry(struct buf *b, struct exec *x, int i, struct kview *k, int *first)
{
    int c;
    if (k->f_cnt == 0) {
	bprintf(b, "%s[\"%s\",\"\",\"\",-1]", *first ? "" : ",", x->keys[i].id);
	*first = 0;
	return;
    }
    for (c = 0; c < k->f_cnt; c++) {
	bprintf(b, "%s[\"%s\",\"%s\",\"%s\",%ld]", *first ? "" : ",", x->keys[i].id, type_text(k->f_type),
		tok_text(x, k->f_tok), k->f_len);
	*first = 0;
    }
}

static int fe_same(const struct kview *a, const struct kview *b)
{
    return a->f_cnt == b->f_cnt && a->f_type == b->f_type && a->f_tok == b->f_tok && a->f_len == b->f_len;
}

static int gv_same(const struct kview *a, const struct kview *b)
{
    return a->g_ex == b->g_ex && a->g_type == b->g_type && a->g_tok == b->g_tok && a->g_len == b->g_len &&
	a->g_mask == b->g_mask;
}

/* full: everything; otherwise only what differs from the previous observation of this map */
static void emit_mview(struct buf *b, struct exec *x, const char *label, struct mview *cur, struct mview *prev,
		       int full)
{
    int i, first;
    bprintf(b, "\"%s\":{\"up\":%d,\"sz\":%ld,\"fe\":[", label, cur->up, cur->size);
    first = 1;
    for (i = 0; i < x->nkeys; i++) {
	if (full ? cur->k[i].f_cnt > 0 : !fe_same(&cur->k[i], &prev->k[i]))
	    emit_fe_entry(b, x, i, &cur->k[i], &first);
    }
    if (cur->nextra) {
	bprintf(b, "%s%s", first ? "" : ",", cur->extra.p);
	first = 0;
    }
    bputs(b, "],\"gv\":[");
    first = 1;
    for (i = 0; i < x->nkeys; i++) {
	struct kview *k = &cur->k[i];
	if (!full && gv_same(k, &prev->k[i]))
	    continue;
	bprintf(b, "%s[\"%s\",%d,\"%s\",\"%s\",%ld,%d]", first ? "" : ",", x->keys[i].id, k->g_ex,
		k->g_type >= 0 ? type_text(k->g_type) : "", k->g_type >= 0 ? tok_text(x, k->g_tok) : "",
		k->g_len, k->g_mask);
	first = 0;
    }
    bputs(b, "]}");
}

static void emit_empty_mview(struct buf *b, const char *label)
{
    bprintf(b, "\"%s\":{\"up\":0,\"sz\":-1,\"fe\":[],\"gv\":[]}", label);
}

static const char *opname(char kind)
{
    switch (kind) {
    case 'a':
	return "add";
    case 'd':
	return "del";
    case 'r':
	return "create";
    case 'c':
	return "clone";
    case 'l':
	return "addall";
    case 'y':
	return "destroy";
    }
    return "?";
}

static void emit_head(struct buf *b, struct exec *x, long n, const char *op, struct op *o, int full)
{
    const char *mn[2] = { "a", "b" };
    bprintf(b, "{\"x\":%ld,\"n\":%ld,\"op\":\"%s\"", x->xid, n, op);
    if (o && (o->kind == 'a' || o->kind == 'd' || o->kind == 'l'))
	bprintf(b, ",\"m\":\"%s\"", mn[o->m]);
    else
	bputs(b, ",\"m\":\"\"");
    bprintf(b, ",\"s\":\"%s\"", o && o->kind == 'l' ? mn[o->s] : "");
    bprintf(b, ",\"k\":\"%s\"", o && (o->kind == 'a' || o->kind == 'd') ? x->keys[o->key].id : "");
    if (o && o->kind == 'a')
	bprintf(b, ",\"t\":\"%s\",\"v\":\"%s\",\"ln\":%ld", tname[x->toks[o->tok].type], x->toks[o->tok].text,
		(long)x->toks[o->tok].len);
    else
	bputs(b, ",\"t\":\"\",\"v\":\"\",\"ln\":-1");
    bprintf(b, ",\"full\":%d,\"U\":[", full);
    if (strcmp(op, "X") == 0) {
	int i;
	for (i = 0; i < x->nkeys; i++)
	    bprintf(b, "%s\"%s\"", i ? "," : "", x->keys[i].id);
    }
    bputs(b, "],");
}

static void do_add(struct exec *x, struct xcm_attr_map *m, struct op *o, long step)
{
    struct key *k = &x->keys[o->key];
    struct tok *t = &x->toks[o->tok];
    /* exact-size heap copies, scribbled over and released right after the call:
       the map must have taken its own copies */
    char *name = malloc(k->name_len + 1);
    memcpy(name, k->name, k->name_len + 1);
    unsigned char *val = malloc(t->len);	/* malloc(0) is a valid, unreadable pointer */
    if (val == NULL)
	die("malloc");
    memcpy(val, t->bytes, t->len);
    int generic = x->adder == 1 || (x->adder == 2 && (step % 2) == 0);
    if (generic)
	xcm_attr_map_add(m, name, ttype[t->type], val, t->len);
    else {
	switch (t->type) {
	case T_BOOL: {
	    bool v;
	    memcpy(&v, val, sizeof(v));
	    xcm_attr_map_add_bool(m, name, v);
	    break;
	}
	case T_INT64: {
	    int64_t v;
	    memcpy(&v, val, sizeof(v));
	    xcm_attr_map_add_int64(m, name, v);
	    break;
	}
	case T_DOUBLE: {
	    double v;
	    memcpy(&v, val, sizeof(v));
	    xcm_attr_map_add_double(m, name, v);
	    break;
	}
	case T_STR:
	    xcm_attr_map_add_str(m, name, (const char *)val);
	    break;
	case T_BIN:
	    xcm_attr_map_add_bin(m, name, val, t->len);
	    break;
	}
    }
    memset(name, 0x5a, k->name_len + 1);
    memset(val, 0xa5, t->len);
    free(name);
    free(val);
}

static void run_exec(long idx)
{
    struct exec *x = &execs[idx];
    struct xcm_attr_map *maps[2] = { NULL, NULL };
    struct mview cur[2], prev[2];
    struct buf b = { 0 };
    const char *label[2] = { "A", "B" };
    int i, j;
    for (i = 0; i < 2; i++) {
	memset(&cur[i], 0, sizeof(cur[i]));
	memset(&prev[i], 0, sizeof(prev[i]));
	cur[i].k = xmalloc(sizeof(struct kview) * x->nkeys);
	prev[i].k = xmalloc(sizeof(struct kview) * x->nkeys);
	for (j = 0; j < x->nkeys; j++) {
	    kview_reset(&cur[i].k[j]);
	    kview_reset(&prev[i].k[j]);
	}
    }
    long n;
    for (n = 0; n <= x->nops; n++) {
	struct op *o = n == 0 ? NULL : &x->ops[n - 1];
	prog->step = n;
	if (o == NULL)
	    maps[0] = xcm_attr_map_create();
	else
	    switch (o->kind) {
	    case 'a':
		if (!maps[o->m])
		    die("execution %ld step %ld: map does not exist", x->xid, n);
		do_add(x, maps[o->m], o, n);
		break;
	    case 'd': {
		if (!maps[o->m])
		    die("execution %ld step %ld: map does not exist", x->xid, n);
		struct key *k = &x->keys[o->key];
		char *name = malloc(k->name_len + 1);
		memcpy(name, k->name, k->name_len + 1);
		xcm_attr_map_del(maps[o->m], name);
		free(name);
		break;
	    }
	    case 'r':
		if (maps[1])
		    die("execution %ld step %ld: b exists", x->xid, n);
		maps[1] = xcm_attr_map_create();
		break;
	    case 'c':
		if (maps[1])
		    die("execution %ld step %ld: b exists", x->xid, n);
		maps[1] = xcm_attr_map_clone(maps[0]);
		break;
	    case 'l':
		if (!maps[o->m] || !maps[o->s])
		    die("execution %ld step %ld: map does not exist", x->xid, n);
		xcm_attr_map_add_all(maps[o->m], maps[o->s]);
		break;
	    case 'y':
		if (!maps[1])
		    die("execution %ld step %ld: b does not exist", x->xid, n);
		xcm_attr_map_destroy(maps[1]);
		maps[1] = NULL;
		break;
	    }
	/* ---- observe everything ---- */
	long tb = 0, bx = 0, al = 0;
	for (i = 0; i < 2; i++) {
	    struct mview t = prev[i];
	    prev[i] = cur[i];
	    cur[i] = t;
	    observe(x, maps[i], &cur[i], &tb, &bx);
	}
	if (maps[0] && maps[1]) {
	    if (maps[0] == maps[1])
		al++;
	    for (j = 0; j < x->nkeys; j++) {
		if (cur[0].k[j].g_ptr && cur[0].k[j].g_ptr == cur[1].k[j].g_ptr)
		    al++;
		if (cur[0].k[j].f_name_ptr && cur[0].k[j].f_name_ptr == cur[1].k[j].f_name_ptr)
		    al++;
	    }
	}
	int eq[4] = { -1, -1, -1, -1 };
	if (maps[0] && maps[1]) {
	    eq[0] = xcm_attr_map_equal(maps[0], maps[1]) ? 1 : 0;
	    eq[1] = xcm_attr_map_equal(maps[1], maps[0]) ? 1 : 0;
	}
	if (maps[0])
	    eq[2] = xcm_attr_map_equal(maps[0], maps[0]) ? 1 : 0;
	if (maps[1])
	    eq[3] = xcm_attr_map_equal(maps[1], maps[1]) ? 1 : 0;
	int full = (n == 0) || x->full;
	emit_head(&b, x, n, o ? opname(o->kind) : "X", o, full);
	for (i = 0; i < 2; i++) {
	    emit_mview(&b, x, label[i], &cur[i], &prev[i], full);
	    bputs(&b, ",");
	}
	bprintf(&b, "\"eq\":[%d,%d,%d,%d],\"al\":%ld,\"tb\":%ld,\"bx\":%ld,\"why\":\"\"}", eq[0], eq[1], eq[2], eq[3],
		al, tb, bx);
	put_line(&b);
    }
    xcm_attr_map_destroy(maps[0]);
    xcm_attr_map_destroy(maps[1]);
    xcm_attr_map_destroy(NULL);
    for (i = 0; i < 2; i++) {
	free(cur[i].k);
	free(prev[i].k);
	free(cur[i].extra.p);
	free(prev[i].extra.p);
    }
    free(b.p);
}

static void crash_exec(long idx, long step, const char *why)
{
    struct exec *x = &execs[idx];
    struct buf b = { 0 };
    bprintf(&b, "{\"x\":%ld,\"n\":%ld,\"op\":\"crash\",\"m\":\"\",\"s\":\"\",\"k\":\"\",\"t\":\"\",\"v\":\"\",\"ln\":-1,"
	    "\"full\":1,\"U\":[],", x->xid, step);
    emit_empty_mview(&b, "A");
    bputs(&b, ",");
    emit_empty_mview(&b, "B");
    bprintf(&b, ",\"eq\":[-1,-1,-1,-1],\"al\":0,\"tb\":0,\"bx\":0,\"why\":\"%s\"}", why);
    put_line(&b);
    free(b.p);
}

/* =============================================================== paths == */
struct vec
{
    long id;
    int root;
    char *s;
    size_t len;
};

static struct vec *vecs;
static long nvecs, vcap;

static void load_vectors(const char *path)
{
    FILE *f = fopen(path, "r");
    if (!f)
	die("cannot open %s", path);
    char *line = NULL;
    size_t cap = 0;
    while (getline(&line, &cap, f) > 0) {
	char *sv = NULL;
	char *a = strtok_r(line, " \t\r\n", &sv);
	if (!a || a[0] == '#')
	    continue;
	char *r = strtok_r(NULL, " \t\r\n", &sv);
	char *h = strtok_r(NULL, " \t\r\n", &sv);
	if (!r || !h)
	    die("bad vector line");
	if (nvecs == vcap) {
	    vcap = vcap * 2 + 1024;
	    vecs = xrealloc(vecs, vcap * sizeof(struct vec));
	}
	struct vec *v = &vecs[nvecs++];
	v->id = atol(a);
	v->root = atoi(r) != 0;
	v->s = unhex(h, &v->len);
    }
    free(line);
    fclose(f);
}

/* exact-size heap copy */
static char *exact(const char *s, size_t len)
{
    char *c = malloc(len + 1);
    if (!c)
	die("malloc");
    memcpy(c, s, len + 1);
    return c;
}

static void vec_head(struct buf *b, struct vec *v, const char *op)
{
    bprintf(b, "{\"op\":\"%s\",\"i\":%ld,\"r\":%d,\"s\":", op, v->id, v->root);
    bcodes(b, v->s, v->len);
}

static void run_vec(long idx)
{
    struct vec *v = &vecs[idx];
    struct buf b = { 0 };
    bool root = v->root;
    char *in = exact(v->s, v->len);
    struct attr_path *p = attr_path_parse(in, root);
    prog->step = 1;
    vec_head(&b, v, "v");
    if (p == NULL) {
	bputs(&b, ",\"ok\":0,\"nc\":0,\"cs\":[],\"t\":[],\"pl\":-1,\"rt\":[0,0,0,0,0,0],\"why\":\"\"}");
	free(in);
	put_line(&b);
	free(b.p);
	return;
    }
    size_t nc = attr_path_num_comps(p);
    bprintf(&b, ",\"ok\":1,\"nc\":%zu,\"cs\":[", nc);
    size_t i;
    for (i = 0; i < nc; i++) {
	const struct attr_pcomp *c = attr_path_get_comp(p, i);
	if (attr_pcomp_is_key(c)) {
	    const char *key = attr_pcomp_get_key(c);
	    bprintf(&b, "%s[0,", i ? "," : "");
	    bcodes(&b, key, strlen(key));
	    bputs(&b, "]");
	} else {
	    char num[64];
	    snprintf(num, sizeof(num), "%zu", attr_pcomp_get_index(c));
	    bprintf(&b, "%s[1,", i ? "," : "");
	    bcodes(&b, num, strlen(num));
	    bputs(&b, "]");
	}
    }
    bputs(&b, "],\"t\":");
    prog->step = 2;
    /* relative paths are printed relative; a rooted path whose first component is not a key
       cannot be printed (attr_path_len asserts), which the parser must not produce */
    size_t plen = attr_path_len(p, root);
    char *t = attr_path_to_str(p, root);
    size_t tlen = strlen(t);
    bcodes(&b, t, tlen);
    bprintf(&b, ",\"pl\":%zu", plen);
    prog->step = 3;
    char *tin = exact(t, tlen);
    struct attr_path *p2 = attr_path_parse(tin, root);
    int p2ok = p2 != NULL;
    int eq = 0, fix = 0;
    if (p2) {
	eq = attr_path_equal(p, p2) && attr_path_equal(p2, p) && attr_path_equal(p, p);
	char *t2 = attr_path_to_str(p2, root);
	fix = strcmp(t2, t) == 0;
	free(t2);
    }
    prog->step = 4;
    char *in2 = exact(v->s, v->len);
    int eqs = attr_path_equal_str(p, in2, root) ? 1 : 0;
    int eqt = attr_path_equal_str(p, tin, root) ? 1 : 0;
    /* a different string must not compare equal: one more character (a longer last key, or
       a letter after "]", or an over-long string) - never an additional component */
    char *other = malloc(tlen + 2);
    memcpy(other, t, tlen);
    memcpy(other + tlen, "q", 2);
    int neq = attr_path_equal_str(p, other, root) ? 0 : 1;
    bprintf(&b, ",\"rt\":[%d,%d,%d,%d,%d,%d],\"why\":\"\"}", p2ok, eq, fix, eqs, eqt, neq);
    free(other);
    free(in2);
    free(tin);
    free(t);
    attr_path_destroy(p2);
    attr_path_destroy(p);
    attr_path_destroy(NULL);
    free(in);
    put_line(&b);
    free(b.p);
}

static void crash_vec(long idx, long step, const char *why)
{
    struct vec *v = &vecs[idx];
    struct buf b = { 0 };
    vec_head(&b, v, "crash");
    bprintf(&b, ",\"ok\":-1,\"nc\":%ld,\"cs\":[],\"t\":[],\"pl\":-1,\"rt\":[0,0,0,0,0,0],\"why\":\"%s\"}", step, why);
    put_line(&b);
    free(b.p);
}

int main(int argc, char **argv)
{
    if (argc != 4)
	die("usage: maps_exec map|path <input> <trace.ndjson>");
    snprintf(errpath, sizeof(errpath), "%s.err", argv[3]);
    out = fopen(argv[3], "w");
    if (!out)
	die("cannot create %s", argv[3]);
    long crashes;
    long n;
    if (strcmp(argv[1], "map") == 0) {
	load_script(argv[2]);
	n = nexecs;
	crashes = supervise(nexecs, run_exec, crash_exec);
    } else if (strcmp(argv[1], "path") == 0) {
	load_vectors(argv[2]);
	n = nvecs;
	crashes = supervise(nvecs, run_vec, crash_vec);
    } else
	die("unknown mode %s", argv[1]);
    fclose(out);
    printf("items %ld crashes %ld\n", n, crashes);
    return 0;
}
