/* Establishment / life-cycle phases of one connection, driven by event loops
 * that trust nothing but poll(xcm_fd)  (properties C04, C05, parts of C06/C07/C16).
 *
 *   est_exec <script> <trace.ndjson>
 *
 * script: one line per execution
 *   X <id> <transport> <scenario> <seed>
 * scenarios
 *   normal    server + non-blocking connect; establishment and one exchange each way purely by event loop; close
 *   refused   connect to a port / name nobody listens on
 *   silent    (tcp-based) connect to an address that never answers; tcp.connect_timeout 0.3 s -> ETIMEDOUT
 *   release   (tcp-based) as silent, but the address starts answering after a while -> established
 *   mute      (tls-based) the TCP peer accepts but never speaks TLS; later it closes
 *   garbage   (tls-based) the TCP peer answers the ClientHello with garbage
 *   idle      server socket with nobody connecting: accept reports EAGAIN, the descriptor stays quiet
 *   garbage2  (tls-based) as normal; then, in the same process, a second connection attempt to a peer that answers the
 *             ClientHello with garbage fails - the healthy connection must be unaffected by it
 *   blocking  everything in blocking mode, the client in a forked process: xcm_accept, xcm_connect, xcm_send and
 *             xcm_receive must return once their event has happened (a watchdog reports a call that does not)
 *   ctlflood  as normal, with the control interface enabled and a control client that sends requests to the
 *             connecting side's control socket and never reads the replies, while the applications keep calling
 *
 * Every API call on the (non-blocking) sockets is one trace line with the
 * call's result, the number of waiting primitives seen inside it (w), and the
 * readiness of all descriptors afterwards.  The final "q" line says whether
 * the run got stuck (no descriptor readable for a long time) and what each
 * application has seen.  spec/XcmEstTrace.tla decides.
 */
#include <arpa/inet.h>
#include <errno.h>
#include <fcntl.h>
#include <netinet/in.h>
#include <netinet/tcp.h>
#include <poll.h>
#include <pthread.h>
#include <signal.h>
#include <setjmp.h>
#include <sys/wait.h>
#include <stdbool.h>
#include <stdio.h>
#include <stdlib.h>
#include <string.h>
#include <sys/ioctl.h>
#include <sys/socket.h>
#include <sys/un.h>
#include <dirent.h>
#include <sys/stat.h>
#include <time.h>
#include <unistd.h>

#include <xcm.h>
#include <xcm_attr.h>
#include <xcm_attr_map.h>

#include "shim.h"
#include "ctl_proto.h"

/* the link line wraps these seams for harness/conn_exec; here they are passed through */
int __real_xcm_tp_socket_send(struct xcm_socket *s, const void *buf, size_t len);
int __real_xcm_tp_socket_receive(struct xcm_socket *s, void *buf, size_t cap);
int __real_xcm_tp_socket_finish(struct xcm_socket *s);
int __wrap_xcm_tp_socket_send(struct xcm_socket *s, const void *buf, size_t len) { return __real_xcm_tp_socket_send(s, buf, len); }
int __wrap_xcm_tp_socket_receive(struct xcm_socket *s, void *buf, size_t cap) { return __real_xcm_tp_socket_receive(s, buf, cap); }
int __wrap_xcm_tp_socket_finish(struct xcm_socket *s) { return __real_xcm_tp_socket_finish(s); }

static FILE *out;
static long xid, stepno;
static char tp[32], scen[32];
static struct xcm_socket *so[4];	/* 1 connecting side, 2 accepted side, 3 server */
static int xfd0[4];
static int rawl = -1, rawc = -1, filler = -1;	/* raw listener, raw accepted connection, filler connection */
static unsigned long rng;
static bool tcp_based, tls_based;

static unsigned long rnd(void)
{
    rng ^= rng << 13; rng ^= rng >> 7; rng ^= rng << 17;
    return rng;
}

static long now_ms(void)
{
    struct timespec t;
    clock_gettime(CLOCK_MONOTONIC, &t);
    return t.tv_sec * 1000L + t.tv_nsec / 1000000L;
}

static int poll1(int fd, int ev)
{
    if (fd < 0)
	return -1;
    struct pollfd p = { .fd = fd, .events = ev };
    if (poll(&p, 1, 0) < 0)
	return -1;
    return p.revents;
}

static int listen_kfd(void)
{
    int fds[8];
    int n = shim_find(3, SK_LISTEN, fds, 8);
    if (n > 0)
	return fds[0];
    n = shim_find(3, SK_STREAM, fds, 8);
    if (n > 0)
	return fds[0];
    n = shim_find(3, SK_SEQPACKET, fds, 8);
    return n > 0 ? fds[0] : -1;
}

/* one trace line */
static void emit(const char *op, int e, int ret, int err, long a, int w)
{
    int rd[4] = { 0, -1, -1, -1 }, fdc[4] = { 0, 0, 0, 0 };
    int lk = so[3] ? listen_kfd() : -1;
    int kp0 = lk >= 0 ? poll1(lk, POLLIN) : -1;
    for (int i = 1; i <= 3; i++)
	if (so[i]) {
	    int f = xcm_fd(so[i]);
	    if (xfd0[i] >= 0 && f != xfd0[i])
		fdc[i] = 1;
	    rd[i] = poll1(f, POLLIN | POLLOUT | POLLPRI);
	}
    int kp = -1;
    if (so[3] && lk >= 0) {
	int r = poll1(lk, POLLIN);
	/* the kernel's view must not have moved while the XCM descriptor was sampled */
	if (r >= 0 && kp0 >= 0 && (r & POLLIN) == (kp0 & POLLIN))
	    kp = (r & POLLIN) ? 1 : 0;
    }
    stepno++;
    fprintf(out, "{\"x\":%ld,\"n\":%ld,\"op\":\"%s\",\"e\":%d,\"ret\":%d,\"err\":%d,\"a\":%ld,\"w\":%d,"
	    "\"rd\":[%d,%d,%d],\"fdc\":[%d,%d,%d],\"kp\":%d}\n",
	    xid, stepno, op, e, ret, err, a, w, rd[1], rd[2], rd[3], fdc[1], fdc[2], fdc[3], kp);
}

static void crash_line(const char *why)
{
    if (out) {
	fprintf(out, "{\"x\":%ld,\"n\":%ld,\"op\":\"crash\",\"e\":0,\"why\":\"%s\"}\n", xid, stepno + 1, why);
	fflush(out);
    }
}

static void on_signal(int sig)
{
    crash_line(sig == SIGABRT ? "abort" : sig == SIGSEGV ? "segv" : sig == SIGALRM ? "hang" : "signal");
    _exit(3);
}

void __asan_on_error(void);
void __asan_on_error(void)
{
    crash_line("asan");
}

#define CALL_BEGIN(e) do { shim_wait_seen(); shim_nonblock_watch(true); shim_enter(e); errno = 0; } while (0)
#define CALL_END() do { shim_leave(); shim_nonblock_watch(false); } while (0)

/* credentials from <XCM_TLS_CERT>/../<dir>; noauth: the socket does not verify its peer */
static void add_cred_files(struct xcm_attr_map *a, const char *dir, bool noauth)
{
    const char *base = getenv("XCM_TLS_CERT");
    char p[600];
    snprintf(p, sizeof(p), "%s/../%s/cert.pem", base ? base : ".", dir);
    xcm_attr_map_add_str(a, "tls.cert_file", p);
    snprintf(p, sizeof(p), "%s/../%s/key.pem", base ? base : ".", dir);
    xcm_attr_map_add_str(a, "tls.key_file", p);
    if (noauth)
	xcm_attr_map_add_bool(a, "tls.auth", false);
}

static struct xcm_attr_map *nb_attrs(void)
{
    struct xcm_attr_map *a = xcm_attr_map_create();
    xcm_attr_map_add_bool(a, "xcm.blocking", false);
    if (strcmp(tp, "btcp") == 0 || strcmp(tp, "btls") == 0)
	xcm_attr_map_add_str(a, "xcm.service", "bytestream");
    return a;
}

/* per-endpoint application state */
static int est[4], term[4], eofs[4], sent[4], rcvd[4], bad_order[4];
static int want_send[4];

/* "release" on plain tcp / btcp: what the raw peer finds on the wire */
static unsigned char wire[4096];
static size_t wire_n;
static bool wirechk_g;
static int attempt_no, acc_att[16];	/* every xcm_send attempt carries its number; those of the accepted ones */

static void wire_read(void)
{
    while (rawc >= 0 && wire_n < sizeof(wire)) {
	ssize_t k = recv(rawc, wire + wire_n, sizeof(wire) - wire_n, MSG_DONTWAIT);
	if (k <= 0)
	    break;
	wire_n += (size_t)k;
    }
}

/* complete units on the wire (frames: 4-byte length + payload; byte stream: 4-byte chunks); *ok = they are the
   units 1, 2, ... of the connecting side, in order; *rest = bytes of an incomplete unit */
static int wire_units(bool framed, int *ok, int *rest, int *phantom)
{
    size_t pos = 0;
    int n = 0;
    *ok = 1;
    *phantom = 0;
    for (;;) {
	size_t len = 4;
	size_t hdr = framed ? 4 : 0;
	if (framed) {
	    if (wire_n - pos < 4)
		break;
	    len = ((size_t)wire[pos] << 24) | ((size_t)wire[pos + 1] << 16) | ((size_t)wire[pos + 2] << 8) | wire[pos + 3];
	    if (len < 4 || len > 8) {
		*ok = 0;
		break;
	    }
	}
	if (wire_n - pos < hdr + len)
	    break;
	const unsigned char *b = wire + pos + hdr;
	n++;
	if (b[0] != (unsigned char)(n - *phantom) || b[1] != 1 || b[2] != 0x5a)
	    *ok = 0;
	bool accepted = false;
	for (int i = 0; i < sent[1] && i < 16; i++)
	    if (acc_att[i] == b[3])
		accepted = true;
	if (!accepted)
	    (*phantom)++;
	pos += hdr + len;
    }
    *rest = (int)(wire_n - pos);
    return n;
}

static void close_so(int e)
{
    if (!so[e])
	return;
    CALL_BEGIN(e);
    xcm_close(so[e]);
    CALL_END();
    so[e] = NULL;
    emit("cl", e, 0, 0, 0, shim_wait_seen());
}

static void cleanup(void)
{
    for (int e = 1; e <= 3; e++)
	if (so[e]) {
	    shim_enter(e);
	    xcm_close(so[e]);
	    shim_leave();
	    so[e] = NULL;
	}
    if (rawc >= 0) close(rawc);
    if (rawl >= 0) close(rawl);
    if (filler >= 0) close(filler);
    rawc = rawl = filler = -1;
}

static void do_finish(int e)
{
    CALL_BEGIN(e);
    int rc = xcm_finish(so[e]);
    int err = errno;
    CALL_END();
    int w = shim_wait_seen();
    if (rc == 0)
	est[e] = 1;
    else if (err != EAGAIN && term[e] == 0)
	term[e] = err;
    emit("f", e, rc, rc < 0 ? err : 0, 0, w);
}

static void do_send(int e)
{
    unsigned char b[8];
    int len = tp[0] == 'b' ? 4 : 1 + (int)(rnd() % 8);
    memset(b, 0, sizeof(b));
    b[0] = (unsigned char)(sent[e] + 1);
    b[1] = (unsigned char)e;
    b[2] = 0x5a;
    b[3] = (unsigned char)len;
    if (len < 4)
	len = 4;
    if (wirechk_g)
	b[3] = (unsigned char)++attempt_no;
    CALL_BEGIN(e);
    int rc = xcm_send(so[e], b, len);
    int err = errno;
    CALL_END();
    int w = shim_wait_seen();
    bool ok = tp[0] == 'b' ? rc == len : rc == 0;
    if (ok) {
	sent[e]++;
	if (!wirechk_g)		/* tcp accepts a message while still connecting: no proof of establishment */
	    est[e] = 1;
	else if (e == 1 && sent[1] <= 16)
	    acc_att[sent[1] - 1] = attempt_no;
    } else if (rc < 0 && err != EAGAIN && term[e] == 0)
	term[e] = err;
    /* a partially accepted byte-stream chunk would desynchronise the tiny protocol: it cannot happen for 4 bytes
       on an idle connection, and if it does the order check below reports it */
    emit("s", e, rc, rc < 0 ? err : 0, len, w);
}

static void do_receive(int e)
{
    unsigned char b[64];
    int cap = tp[0] == 'b' ? 4 : 64;
    CALL_BEGIN(e);
    int rc = xcm_receive(so[e], b, cap);
    int err = errno;
    CALL_END();
    int w = shim_wait_seen();
    if (rc > 0) {
	est[e] = 1;
	if (rc >= 4 && b[2] == 0x5a) {
	    rcvd[e]++;
	    if (b[0] != (unsigned char)rcvd[e] || b[1] != (unsigned char)(3 - e))
		bad_order[e] = 1;
	} else
	    bad_order[e] = 1;
    } else if (rc == 0)
	eofs[e] = 1;
    else if (err != EAGAIN && term[e] == 0)
	term[e] = err;
    emit("r", e, rc, rc < 0 ? err : 0, cap, w);
}

static void do_await(int e, int cond)
{
    CALL_BEGIN(e);
    int rc = xcm_await(so[e], cond);
    int err = errno;
    CALL_END();
    emit("a", e, rc, rc < 0 ? err : 0, cond, shim_wait_seen());
}

/* the other calls the property names: xcm_fd and attribute access */
static void do_misc(int e)
{
    CALL_BEGIN(e);
    int f = xcm_fd(so[e]);
    CALL_END();
    emit("fd", e, f >= 0 ? 0 : -1, 0, 0, shim_wait_seen());
    static const char *names[] = { "xcm.type", "xcm.transport", "xcm.local_addr", "xcm.remote_addr", "xcm.blocking",
				   "xcm.max_msg_size", "tcp.rtt", "tls.peer_subject_key_id", "xcm.to_app_bytes" };
    const char *n = names[rnd() % (sizeof(names) / sizeof(names[0]))];
    char v[512];
    enum xcm_attr_type t;
    CALL_BEGIN(e);
    int rc = xcm_attr_get(so[e], n, &t, v, sizeof(v));
    int err = errno;
    CALL_END();
    emit("ga", e, rc >= 0 ? 0 : -1, rc < 0 ? err : 0, 0, shim_wait_seen());
    if (e != 3 && rnd() % 2) {
	CALL_BEGIN(e);
	rc = xcm_attr_set_bool(so[e], "xcm.blocking", false);
	err = errno;
	CALL_END();
	emit("sa", e, rc, rc < 0 ? err : 0, 0, shim_wait_seen());
    }
}

static void *close_later(void *arg)
{
    struct timespec ts = { 0, 300 * 1000000L };
    nanosleep(&ts, NULL);
    close(*(int *)arg);
    return NULL;
}

/* accfail: the first accept with a connection pending finds the process out of descriptors / memory (accept4 fails):
   the call on the non-blocking server reports it at once (op "acx"); the connection is accepted by a later call */
static int acc_fail_errno;

static void do_accept(void)
{
    struct xcm_attr_map *a = nb_attrs();
    int inj = 0;
    if (acc_fail_errno && so[3] && poll1(listen_kfd(), POLLIN) > 0) {
	inj = acc_fail_errno;
	acc_fail_errno = 0;
	shim_fail_nth(SHIM_RC_ACCEPT, 1, inj);
    }
    CALL_BEGIN(3);
    struct xcm_socket *c = xcm_accept_a(so[3], a);
    int err = errno;
    CALL_END();
    int w = shim_wait_seen();
    xcm_attr_map_destroy(a);
    if (inj) {
	int hit = shim_rc_failed();
	shim_fail_nth(0, 0, 0);
	if (c) {
	    shim_enter(2); xcm_close(c); shim_leave();
	}
	emit("acx", 3, c ? 0 : -1, c ? 0 : err, hit ? inj : 0, w);
	return;
    }
    if (c && !so[2]) {
	so[2] = c;
	xfd0[2] = xcm_fd(c);
    } else if (c) {
	shim_enter(2); xcm_close(c); shim_leave();
    }
    emit("ac", 3, c ? 0 : -1, c ? 0 : err, 0, w);
}

/* a raw TCP listener on loopback; backlog 0 + one filler connection = an address that never answers */
static int raw_listener(int backlog, char *addr, size_t alen, const char *proto)
{
    rawl = socket(AF_INET, SOCK_STREAM, 0);
    struct sockaddr_in sin = { .sin_family = AF_INET };
    sin.sin_addr.s_addr = htonl(INADDR_LOOPBACK);
    if (rawl < 0 || bind(rawl, (struct sockaddr *)&sin, sizeof(sin)) < 0 || listen(rawl, backlog) < 0)
	return -1;
    socklen_t sl = sizeof(sin);
    getsockname(rawl, (struct sockaddr *)&sin, &sl);
    snprintf(addr, alen, "%s:127.0.0.1:%d", proto, ntohs(sin.sin_port));
    fcntl(rawl, F_SETFL, fcntl(rawl, F_GETFL) | O_NONBLOCK);
    return ntohs(sin.sin_port);
}

static int make_filler(int port)
{
    filler = socket(AF_INET, SOCK_STREAM, 0);
    struct sockaddr_in sin = { .sin_family = AF_INET, .sin_port = htons(port) };
    sin.sin_addr.s_addr = htonl(INADDR_LOOPBACK);
    return connect(filler, (struct sockaddr *)&sin, sizeof(sin));
}

/* ---- blocking-mode scenario ---------------------------------------------------------------------- */
static sigjmp_buf blk_jmp;
static volatile sig_atomic_t blk_armed;
static void on_blk_alarm(int sig)
{
    (void)sig;
    if (blk_armed)
	siglongjmp(blk_jmp, 1);
    crash_line("hang");
    _exit(3);
}

static void run_blocking(void)
{
    static long bseq;
    char addr[256], saddr[300];
    bseq++;
    stepno = 0;
    shim_reset();
    setenv("XCM_CTL", "/nonexistent-verif", 1);
    const char *proto = strcmp(tp, "utlst") == 0 ? "tls" : tp;
    if (strcmp(tp, "ux") == 0)
	snprintf(addr, sizeof(addr), "ux:verif-blk-%d-%ld", getpid(), bseq);
    else if (strcmp(tp, "uxf") == 0) {
	const char *d = getenv("VERIF_RUN_DIR");
	snprintf(addr, sizeof(addr), "uxf:%s/b%d-%ld", d ? d : ".", getpid(), bseq);
    } else
	snprintf(addr, sizeof(addr), "%s:127.0.0.1:0", proto);
    struct xcm_attr_map *a = xcm_attr_map_create();
    if (tp[0] == 'b')
	xcm_attr_map_add_str(a, "xcm.service", "bytestream");
    struct xcm_socket *srv = xcm_server_a(addr, a);
    fprintf(out, "{\"x\":%ld,\"n\":0,\"op\":\"X\",\"e\":0,\"tp\":\"%s\",\"scen\":\"%s\",\"up\":%d}\n", xid, tp, scen, srv ? 1 : 0);
    if (!srv) {
	xcm_attr_map_destroy(a);
	return;
    }
    snprintf(saddr, sizeof(saddr), "%s", xcm_local_addr(srv));
    if (strcmp(tp, "utlst") == 0) {
	char tmp[300];
	snprintf(tmp, sizeof(tmp), "utls:%s", strchr(saddr, ':') + 1);
	strcpy(saddr, tmp);
    }
    fflush(out);
    pid_t child = fork();
    if (child == 0) {
	/* the client: blocking connect, send, receive, close */
	alarm(20);
	usleep(100000 + (useconds_t)(rnd() % 100000));
	struct xcm_socket *c = xcm_connect_a(saddr, a);
	if (!c)
	    _exit(11);
	unsigned char b[8] = { 1, 1, 0x5a, 4, 0, 0, 0, 0 };
	int rc = xcm_send(c, b, 4);
	if (!(tp[0] == 'b' ? rc == 4 : rc == 0))
	    _exit(12);
	unsigned char r[64];
	rc = xcm_receive(c, r, tp[0] == 'b' ? 4 : sizeof(r));
	if (rc != 4 || r[2] != 0x5a)
	    _exit(13);
	xcm_close(c);
	_exit(0);
    }
    int phase = 0, rets[4] = { -3, -3, -3, -3 }, errs[4] = { 0, 0, 0, 0 };
    struct xcm_socket *acc = NULL;
    struct sigaction sa = { 0 }, old;
    sa.sa_handler = on_blk_alarm;
    sigaction(SIGALRM, &sa, &old);
    if (sigsetjmp(blk_jmp, 1) == 0) {
	blk_armed = 1;
	alarm(10);
	unsigned char r[64], b[8] = { 1, 2, 0x5a, 4, 0, 0, 0, 0 };
	phase = 0;
	acc = xcm_accept_a(srv, a);		/* blocks until the client is there (and the handshake is done) */
	rets[0] = acc ? 0 : -1; errs[0] = acc ? 0 : errno;
	if (acc) {
	    phase = 1;
	    int rc = xcm_receive(acc, r, tp[0] == 'b' ? 4 : sizeof(r));	/* blocks until the message is there */
	    rets[1] = rc; errs[1] = rc < 0 ? errno : 0;
	    phase = 2;
	    rc = xcm_send(acc, b, 4);
	    rets[2] = rc; errs[2] = rc < 0 ? errno : 0;
	    phase = 3;
	    rc = xcm_receive(acc, r, sizeof(r));			/* blocks until the client has closed: 0 */
	    rets[3] = rc; errs[3] = rc < 0 ? errno : 0;
	}
	phase = 4;
    } else
	rets[phase < 4 ? phase : 3] = -2;	/* the watchdog fired inside this call */
    alarm(0);
    blk_armed = 0;
    sigaction(SIGALRM, &old, NULL);
    xcm_attr_map_destroy(a);
    int status = 0, cexit = -1;
    if (phase < 4)
	kill(child, SIGKILL);
    if (waitpid(child, &status, 0) == child)
	cexit = WIFEXITED(status) ? WEXITSTATUS(status) : 100 + WTERMSIG(status);
    stepno++;
    fprintf(out, "{\"x\":%ld,\"n\":%ld,\"op\":\"bq\",\"e\":0,\"rets\":[%d,%d,%d,%d],\"errs\":[%d,%d,%d,%d],\"phase\":%d,\"cexit\":%d}\n",
	    xid, stepno, rets[0], rets[1], rets[2], rets[3], errs[0], errs[1], errs[2], errs[3], phase, cexit);
    if (phase == 4) {		/* (after a watchdog hit the sockets are left alone: the library was interrupted mid-call) */
	if (acc)
	    xcm_close(acc);
	xcm_close(srv);
    }
}

static void run(void)
{
    if (strcmp(scen, "blocking") == 0) {
	run_blocking();
	return;
    }
    char addr[256] = "", saddr[300] = "";
    static long seq;
    seq++;
    for (int i = 0; i < 4; i++) {
	est[i] = term[i] = eofs[i] = sent[i] = rcvd[i] = bad_order[i] = want_send[i] = 0;
	xfd0[i] = -1;
    }
    stepno = 0;
    shim_reset();
    tcp_based = strcmp(tp, "ux") != 0 && strcmp(tp, "uxf") != 0;
    tls_based = strcmp(tp, "tls") == 0 || strcmp(tp, "btls") == 0 || strcmp(tp, "utls") == 0 || strcmp(tp, "utlst") == 0;
    bool ctlflood = strcmp(scen, "ctlflood") == 0;
    bool ctl3 = strcmp(scen, "ctl3") == 0;
    char ctldir[300] = "";
    if (ctlflood || ctl3) {
	const char *d = getenv("VERIF_RUN_DIR");
	snprintf(ctldir, sizeof(ctldir), "%s/ctl-%d-%ld", d ? d : ".", getpid(), seq);
	mkdir(ctldir, 0700);
	setenv("XCM_CTL", ctldir, 1);
    } else
	setenv("XCM_CTL", "/nonexistent-verif", 1);
    bool garbage2 = strcmp(scen, "garbage2") == 0;
    bool longidle = strcmp(scen, "longidle") == 0;
    bool accblk = strcmp(scen, "accblk") == 0;
    bool accfail = strcmp(scen, "accfail") == 0;
    bool uxfull = strcmp(scen, "uxfull") == 0;
    static const int accerrs[] = { EMFILE, ENFILE, ENOMEM, ENOBUFS };
    acc_fail_errno = accfail ? accerrs[(seq >> 1) % 4] : 0;
    /* badski (tls-based): one side presents a self-signed certificate the other side does not trust, whose
       subjectKeyIdentifier is not a 20-byte hash (32 bytes, empty, 2000 bytes, 21 bytes): hostile handshake input
       the verifying side turns down without being harmed */
    bool badski = strcmp(scen, "badski") == 0;
    static const char *skis[] = { "ski32", "ski0", "ski2000", "ski21" };
    const char *skid = skis[(seq >> 1) % 4];
    bool ski_on_server = badski && (seq & 1);
    bool normal = strcmp(scen, "normal") == 0 || ctlflood || garbage2 || longidle || accfail || ctl3, refused = strcmp(scen, "refused") == 0,
	 silent = strcmp(scen, "silent") == 0, release = strcmp(scen, "release") == 0,
	 mute = strcmp(scen, "mute") == 0, garbage = strcmp(scen, "garbage") == 0, idle = strcmp(scen, "idle") == 0 || accblk || uxfull;
    int up = 1;
    bool utlst = strcmp(tp, "utlst") == 0;	/* a utls client of a plain tls server: no UX socket there, the TLS leg is used */
    const char *proto = utlst ? "tls" : tp;
    int port = 0;

    struct xcm_attr_map *a = nb_attrs();
    if (normal || idle || badski) {
	if (badski && ski_on_server)
	    add_cred_files(a, skid, false);
	if (strcmp(tp, "ux") == 0)
	    snprintf(addr, sizeof(addr), "ux:verif-est-%d-%ld", getpid(), seq);
	else if (strcmp(tp, "uxf") == 0) {
	    const char *d = getenv("VERIF_RUN_DIR");
	    snprintf(addr, sizeof(addr), "uxf:%s/e%d-%ld", d ? d : ".", getpid(), seq);
	} else
	    snprintf(addr, sizeof(addr), "%s:127.0.0.1:0", proto);
	CALL_BEGIN(3);
	so[3] = xcm_server_a(addr, a);
	int err = errno;
	CALL_END();
	int w = shim_wait_seen();
	if (so[3]) {
	    xfd0[3] = xcm_fd(so[3]);
	    snprintf(saddr, sizeof(saddr), "%s", xcm_local_addr(so[3]));
	    if (utlst) {
		char tmp[300];
		snprintf(tmp, sizeof(tmp), "utls:%s", strchr(saddr, ':') + 1);
		strcpy(saddr, tmp);
	    }
	} else
	    up = 0;
	emit("sv", 3, so[3] ? 0 : -1, so[3] ? 0 : err, 0, w);
	if (so[3])
	    do_await(3, XCM_SO_ACCEPTABLE);
    } else if (refused) {
	if (strcmp(tp, "ux") == 0)
	    snprintf(saddr, sizeof(saddr), "ux:verif-nobody-%d-%ld", getpid(), seq);
	else if (strcmp(tp, "uxf") == 0)
	    snprintf(saddr, sizeof(saddr), "uxf:/nonexistent-verif/nobody");
	else {
	    /* a port that was just bound and closed again: nobody listens */
	    port = raw_listener(1, saddr, sizeof(saddr), proto);
	    close(rawl);
	    rawl = -1;
	}
    } else if (silent || release) {
	port = raw_listener(0, saddr, sizeof(saddr), proto);
	if (port < 0 || make_filler(port) < 0)
	    up = 0;
	if (silent)
	    xcm_attr_map_add_double(a, "tcp.connect_timeout", 0.3);
    } else if (mute || garbage) {
	port = raw_listener(8, saddr, sizeof(saddr), proto);
	if (port < 0)
	    up = 0;
    }
    fprintf(out, "{\"x\":%ld,\"n\":0,\"op\":\"X\",\"e\":0,\"tp\":\"%s\",\"scen\":\"%s\",\"up\":%d}\n", xid, tp, scen, up);
    if (!up) {
	xcm_attr_map_destroy(a);
	cleanup();
	return;
    }

    if (badski) {
	xcm_attr_map_destroy(a);
	a = nb_attrs();
	if (!ski_on_server)
	    add_cred_files(a, skid, true);	/* the client presents it and verifies nothing itself */
    }
    if (!idle) {
	CALL_BEGIN(1);
	so[1] = xcm_connect_a(saddr, a);
	int err = errno;
	CALL_END();
	int w = shim_wait_seen();
	if (so[1])
	    xfd0[1] = xcm_fd(so[1]);
	else
	    term[1] = err;
	emit("cn", 1, so[1] ? 0 : -1, so[1] ? 0 : err, 0, w);
    }
    xcm_attr_map_destroy(a);

    /* goals: in the normal scenario each side sends 2 messages and receives the peer's */
    if (normal)
	want_send[1] = want_send[2] = 2;
    /* plain tcp / btcp with a late peer: the connecting side sends while the TCP handshake is still pending; the raw
       peer compares what arrives with what xcm_send accepted */
    bool wirechk = release && !tls_based;
    wire_n = 0;
    wirechk_g = wirechk;
    attempt_no = 0;
    if (wirechk)
	want_send[1] = 2;

    long t0 = now_ms();
    int ctlfd = -1, ctlfds[16], nctl = 0, ctl_calls = 0;
    int quiet = 0, stuck = 0, turns = 0;
    int quiet_limit = release ? 200 : 80;	/* x 25 ms; "release" depends on the kernel's 1 s SYN retransmission */
    bool released = false, rclosed = false, rgarb = false;
    int cond[4] = { 0, -1, -1, XCM_SO_ACCEPTABLE };
    int idle_probes = 0;

    /* uxfull (ux, uxf, utls): the server never accepts; non-blocking connects are made until well after its AF_UNIX accept
       queue is full.  Every one of them returns at once - a connection, or EAGAIN - whatever the state of the queue
       (op "cx"; the sockets are closed again at the end of the block) */
    if (uxfull && so[3]) {
	struct xcm_socket *xs[48];
	int nx = 0;
	for (int i = 0; i < 48; i++) {
	    struct xcm_attr_map *xa = nb_attrs();
	    CALL_BEGIN(1);
	    struct xcm_socket *c = xcm_connect_a(saddr, xa);
	    int cerr = errno;
	    CALL_END();
	    int cw = shim_wait_seen();
	    xcm_attr_map_destroy(xa);
	    emit("cx", 1, c ? 0 : -1, c ? 0 : cerr, 0, cw);
	    if (c)
		xs[nx++] = c;
	}
	for (int i = 0; i < nx; i++)
	    xcm_close(xs[i]);
    }

    /* accblk: the server socket is non-blocking; a raw client connects and says nothing (no ClientHello on the TLS
       transports); the application accepts it with xcm.blocking = true in the accept map.  The call is one on a
       non-blocking socket: it hands out the connection (or fails) without waiting for the silent peer.  A helper thread
       closes the raw client after 300 ms, so that a library that does wait gets out again. */
    if (accblk && so[3]) {
	struct sockaddr_in sin = { .sin_family = AF_INET };
	sin.sin_port = htons((unsigned short)atoi(strrchr(saddr, ':') + 1));
	sin.sin_addr.s_addr = htonl(INADDR_LOOPBACK);
	static int silent_fd;
	silent_fd = socket(AF_INET, SOCK_STREAM, 0);
	if (connect(silent_fd, (struct sockaddr *)&sin, sizeof(sin)) == 0) {
	    struct pollfd p = { .fd = xcm_fd(so[3]), .events = POLLIN };
	    poll(&p, 1, 1000);
	    pthread_t th;
	    pthread_create(&th, NULL, close_later, &silent_fd);
	    struct xcm_attr_map *m = xcm_attr_map_create();
	    xcm_attr_map_add_bool(m, "xcm.blocking", true);
	    CALL_BEGIN(3);
	    struct xcm_socket *c = xcm_accept_a(so[3], m);
	    int err = errno;
	    CALL_END();
	    int w = shim_wait_seen();
	    xcm_attr_map_destroy(m);
	    emit("ac", 3, c ? 0 : -1, c ? 0 : err, 1, w);
	    pthread_join(th, NULL);
	    if (c) {
		shim_enter(2);
		xcm_close(c);
		shim_leave();
	    }
	} else
	    close(silent_fd);
    }
    for (;;) {
	if (accblk)
	    break;
	/* declare interest, as the documented protocol wants it */
	for (int e = 1; e <= 2; e++) {
	    if (!so[e] || term[e])
		continue;
	    int wantc = (eofs[e] ? 0 : XCM_SO_RECEIVABLE) | (sent[e] < want_send[e] ? XCM_SO_SENDABLE : 0);
	    if (wantc != cond[e]) {
		do_await(e, wantc);
		cond[e] = wantc;
	    }
	}
	/* environment steps */
	long el = now_ms() - t0;
	if (release && !released && el > 150) {
	    int c = accept(rawl, NULL, NULL);
	    if (c >= 0) {
		close(c);
		released = true;
		emit("env", 0, 0, 0, 1, 0);
	    }
	}
	if ((mute || garbage || release) && rawc < 0 && rawl >= 0 && (released || !release)) {
	    int c = accept(rawl, NULL, NULL);
	    if (c >= 0) {
		rawc = c;
		fcntl(rawc, F_SETFL, fcntl(rawc, F_GETFL) | O_NONBLOCK);
		emit("env", 0, 0, 0, 2, 0);
	    }
	}
	if (garbage && rawc >= 0 && !rgarb && poll1(rawc, POLLIN) > 0) {
	    /* the ClientHello has arrived: answer with something that is not TLS */
	    unsigned char g[64];
	    for (size_t i = 0; i < sizeof(g); i++)
		g[i] = (unsigned char)rnd();
	    if (rnd() % 2) {
		g[0] = 0x16;	/* looks like a handshake record at first: OpenSSL may wait for the rest of it */
		g[1] = 0x03;
		g[2] = (unsigned char)(rnd() % 5);
	    } else
		g[0] = 0x55;	/* not a TLS record type */
	    if (write(rawc, g, sizeof(g)) > 0)
		rgarb = true;
	    emit("env", 0, 0, 0, 3, 0);
	}
	if ((mute || garbage || (release && tls_based)) && rawc >= 0 && !rclosed && el > (release ? 1600 : 400)) {
	    close(rawc);
	    rawc = -2;
	    rclosed = true;
	    emit("env", 0, 0, 0, 4, 0);
	}
	if (wirechk)
	    wire_read();
	if (release && !tls_based && rawc >= 0 && !rclosed && est[1] && el > 1300 && (sent[1] >= want_send[1] || el > 2500)) {
	    wire_read();
	    /* plain tcp/btcp: the raw peer closes after establishment so that the run ends with an EOF */
	    close(rawc);
	    rawc = -2;
	    rclosed = true;
	    emit("env", 0, 0, 0, 4, 0);
	}

	/* the control client: connects to the control socket of the connecting side once it is established, sends a
	   burst of get-all requests and never reads a reply; the library serves it from inside the data-path calls */
	if (ctlflood && ctlfd == -1 && est[1] && est[2]) {
	    ctlfd = -2;
	    DIR *dd = opendir(ctldir);
	    struct dirent *de;
	    while (dd && (de = readdir(dd)) != NULL) {
		if (strncmp(de->d_name, "ctl-", 4) != 0)
		    continue;
		struct sockaddr_un ua = { .sun_family = AF_UNIX };
		snprintf(ua.sun_path, sizeof(ua.sun_path), "%s/%s", ctldir, de->d_name);
		int cf = socket(AF_UNIX, SOCK_SEQPACKET | SOCK_NONBLOCK, 0);
		if (connect(cf, (struct sockaddr *)&ua, sizeof(ua)) == 0) {
		    static struct ctl_proto_msg req;
		    memset(&req, 0, sizeof(req));
		    req.type = ctl_proto_type_get_all_attr_req;
		    int nsentreq = 0;
		    for (int i = 0; i < 12; i++)
			if (send(cf, &req, sizeof(req), MSG_NOSIGNAL) == (ssize_t)sizeof(req))
			    nsentreq++;
		    ctlfds[nctl++] = cf;
		    emit("env", 0, nsentreq, 0, 5, 0);
		    if (nctl == 4)
			break;
		} else
		    close(cf);
	    }
	    if (dd)
		closedir(dd);
	    /* plenty of calls, so that the control interface gets its turns (every few calls that report EAGAIN) */
	    want_send[1] += 40;
	    want_send[2] += 40;
	    ctl_calls = 400;
	}
	while (ctlflood && ctl_calls > 0) {
	    ctl_calls--;
	    int e = 1 + (int)(rnd() % 2);
	    if (so[e] && !term[e]) {
		int k = (int)(rnd() % 4);
		if (k == 0) do_finish(e); else if (k <= 2) do_receive(e); else do_misc(e);
	    }
	}

	/* done? */
	bool done = false;
	if (normal)
	    done = so[1] && so[2] && rcvd[1] >= want_send[2] && rcvd[2] >= want_send[1] && est[1] && est[2] &&
		   (!ctlflood || (ctlfd != -1 && ctl_calls == 0));
	else if (idle)
	    done = idle_probes >= 6;
	else if (release)
	    done = so[1] == NULL || term[1] != 0 || eofs[1];
	else
	    done = so[1] == NULL || term[1] != 0 || eofs[1];
	if (normal && (term[1] || term[2]))
	    done = true;
	if (done || ++turns > 3000)
	    break;

	struct pollfd pf[3];
	int idx[3], n = 0;
	for (int e = 1; e <= 3; e++)
	    if (so[e] && !(e != 3 && term[e])) {
		pf[n].fd = xcm_fd(so[e]);
		pf[n].events = POLLIN;
		pf[n].revents = 0;
		idx[n++] = e;
	    }
	if (n == 0)
	    break;
	int pr = poll(pf, n, 25);
	if (pr <= 0) {
	    quiet++;
	    /* while nothing happens, the application may still call the library: it must not sleep (C05) */
	    if (quiet % 4 == 1 || idle) {
		int e = idx[rnd() % (unsigned long)n];
		int k = (int)(rnd() % 5);
		if (e == 3) {
		    if (k < 2) do_accept(); else do_misc(3);
		    idle_probes++;
		} else if (k == 0) do_finish(e);
		else if (k == 1) do_receive(e);
		else if (k == 2 && sent[e] < want_send[e]) do_send(e);
		else do_misc(e);
	    }
	    if (quiet >= quiet_limit && !idle) {
		stuck = 1;
		break;
	    }
	    continue;
	}
	quiet = 0;
	for (int j = 0; j < n; j++) {
	    int e = idx[j];
	    if (!(pf[j].revents & (POLLIN | POLLERR | POLLHUP)) || !so[e])
		continue;
	    if (e == 3) {
		do_accept();
		continue;
	    }
	    int k = (int)(rnd() % 4);
	    if (!est[e] && k < 2)
		do_finish(e);
	    else if ((cond[e] & XCM_SO_SENDABLE) && sent[e] < want_send[e] && k % 2 == 0)
		do_send(e);
	    else if (cond[e] & XCM_SO_RECEIVABLE)
		do_receive(e);
	    else
		do_finish(e);
	}
    }
    /* longidle: the established, idle connection is looked at again later than the connect time-out (tcp.connect_timeout,
       3 s by default) after xcm_connect: with nothing to receive, nothing to send and nothing to finish, its descriptor
       must be quiet.  A spin = the descriptor is readable, xcm_receive says EAGAIN and xcm_finish says 0 - three times
       in a row, with 20 ms in between (a single wake-up for TLS-internal traffic is legitimate) */
    if (longidle && so[1] && so[2] && !stuck && !term[1] && !term[2]) {
	while (now_ms() - t0 < 3400)
	    usleep(20000);
	int spin[3] = { 0, 0, 0 };
	for (int e = 1; e <= 2; e++) {
	    do_await(e, XCM_SO_RECEIVABLE);
	    cond[e] = XCM_SO_RECEIVABLE;
	}
	for (int e = 1; e <= 2; e++)
	    for (int i = 0; i < 3 && !term[e] && !eofs[e]; i++) {
		if (!(poll1(xcm_fd(so[e]), POLLIN) > 0))
		    break;
		int r0 = rcvd[e];
		do_receive(e);
		if (rcvd[e] != r0 || term[e] || eofs[e])
		    break;
		CALL_BEGIN(e);
		int frc = xcm_finish(so[e]);
		int ferr = errno;
		CALL_END();
		emit("f", e, frc, frc < 0 ? ferr : 0, 0, shim_wait_seen());
		if (frc != 0)
		    break;
		spin[e] = i + 1;
		usleep(20000);
	    }
	stepno++;
	fprintf(out, "{\"x\":%ld,\"n\":%ld,\"op\":\"id\",\"e\":0,\"spin\":[%d,%d],\"ms\":%ld}\n", xid, stepno, spin[1], spin[2],
		now_ms() - t0);
    }
    /* ctl3: more control clients than a socket serves at a time (three per control socket, none of which ever sends a
       request): the library accepts two of them over a bounded number of wake-ups (every fifth EAGAIN) and leaves the
       third in the listen queue; after that the idle connection's descriptor must be quiet.  A spin = still readable
       after 60 serviced wake-ups (xcm_receive says EAGAIN, xcm_finish says 0) */
    if (ctl3 && so[1] && so[2] && !stuck && !term[1] && !term[2]) {
	DIR *dd = opendir(ctldir);
	struct dirent *de;
	while (dd && (de = readdir(dd)) != NULL) {
	    if (strncmp(de->d_name, "ctl-", 4) != 0)
		continue;
	    struct sockaddr_un ua = { .sun_family = AF_UNIX };
	    snprintf(ua.sun_path, sizeof(ua.sun_path), "%s/%s", ctldir, de->d_name);
	    for (int k = 0; k < 3 && nctl < 16; k++) {
		int cf = socket(AF_UNIX, SOCK_SEQPACKET | SOCK_NONBLOCK, 0);
		if (connect(cf, (struct sockaddr *)&ua, sizeof(ua)) == 0)
		    ctlfds[nctl++] = cf;
		else
		    close(cf);
	    }
	}
	if (dd)
	    closedir(dd);
	emit("env", 0, nctl, 0, 6, 0);
	int spin[3] = { 0, 0, 0 };
	for (int e = 1; e <= 2; e++) {
	    do_await(e, XCM_SO_RECEIVABLE);
	    cond[e] = XCM_SO_RECEIVABLE;
	}
	for (int e = 1; e <= 2; e++) {
	    int i;
	    for (i = 0; i < 60 && !term[e] && !eofs[e]; i++) {
		if (!(poll1(xcm_fd(so[e]), POLLIN) > 0))
		    break;
		int r0 = rcvd[e];
		do_receive(e);
		if (rcvd[e] != r0 || term[e] || eofs[e])
		    break;
		CALL_BEGIN(e);
		int frc = xcm_finish(so[e]);
		int ferr = errno;
		CALL_END();
		emit("f", e, frc, frc < 0 ? ferr : 0, 0, shim_wait_seen());
		if (frc != 0)
		    break;
	    }
	    spin[e] = i >= 60 ? i : 0;
	}
	stepno++;
	fprintf(out, "{\"x\":%ld,\"n\":%ld,\"op\":\"id\",\"e\":0,\"spin\":[%d,%d],\"ms\":%ld}\n", xid, stepno, spin[1], spin[2],
		now_ms() - t0);
    }
    /* garbage2: a second connection of this process is fed garbage instead of a TLS handshake; afterwards the healthy
       connection must still say EAGAIN when idle, deliver what is sent and finish cleanly */
    if (garbage2 && so[1] && so[2] && !stuck && !term[1] && !term[2]) {
	char vaddr[300];
	int vport = raw_listener(8, vaddr, sizeof(vaddr), proto);
	struct xcm_attr_map *va = nb_attrs();
	CALL_BEGIN(3);
	struct xcm_socket *vict = vport > 0 ? xcm_connect_a(vaddr, va) : NULL;
	int verr = errno;
	CALL_END();
	xcm_attr_map_destroy(va);
	emit("vc", 3, vict ? 0 : -1, vict ? 0 : verr, 0, shim_wait_seen());
	int vterm = 0;
	for (int i = 0; i < 400 && vict && !vterm; i++) {
	    if (rawc < 0) {
		int c = accept(rawl, NULL, NULL);
		if (c >= 0) {
		    rawc = c;
		    fcntl(rawc, F_SETFL, fcntl(rawc, F_GETFL) | O_NONBLOCK);
		}
	    }
	    if (rawc >= 0 && !rgarb && poll1(rawc, POLLIN) > 0) {
		unsigned char g[64];
		for (size_t k = 0; k < sizeof(g); k++)
		    g[k] = (unsigned char)rnd();
		g[0] = 0x55;
		if (write(rawc, g, 7) > 0 && write(rawc, g + 7, sizeof(g) - 7) > 0)
		    rgarb = true;
		emit("env", 0, 0, 0, 3, 0);
	    }
	    CALL_BEGIN(3);
	    int rc = xcm_finish(vict);
	    int e = errno;
	    CALL_END();
	    if (rc < 0 && e != EAGAIN)
		vterm = e;
	    if (rc == 0)
		vterm = -1;	/* established on garbage?! */
	    if (vterm || i % 20 == 0)
		emit("vf", 3, rc, rc < 0 ? e : 0, 0, shim_wait_seen());
	    if (!vterm)
		usleep(2000);
	}
	/* the healthy connection, right after the attack (no handshake step in between) */
	do_receive(1);
	do_receive(2);
	want_send[2] = sent[2] + 1;
	do_send(2);
	for (int i = 0; i < 200 && rcvd[1] < sent[2] && !term[1]; i++) {
	    struct pollfd p = { .fd = xcm_fd(so[1]), .events = POLLIN };
	    if (poll(&p, 1, 10) > 0)
		do_receive(1);
	    else
		do_finish(2);
	}
	want_send[1] = sent[1] + 1;
	do_send(1);
	for (int i = 0; i < 200 && rcvd[2] < sent[1] && !term[2]; i++) {
	    struct pollfd p = { .fd = xcm_fd(so[2]), .events = POLLIN };
	    if (poll(&p, 1, 10) > 0)
		do_receive(2);
	    else
		do_finish(1);
	}
	do_finish(1);
	do_finish(2);
	if (vict) {
	    CALL_BEGIN(3);
	    xcm_close(vict);
	    CALL_END();
	    emit("vx", 3, 0, 0, vterm, shim_wait_seen());
	}
    }

    /* a send that failed while connecting: the application goes on using the socket (finish, receive) until the late
       peer has accepted and has had time to receive whatever the library still sends */
    if (wirechk && so[1] && term[1] && !stuck && rawl >= 0) {
	for (int i = 0; i < 90 && !rclosed; i++) {
	    long el = now_ms() - t0;
	    if (!released && el > 150) {
		int c = accept(rawl, NULL, NULL);
		if (c >= 0) {
		    close(c);
		    released = true;
		    emit("env", 0, 0, 0, 1, 0);
		}
	    }
	    if (released && rawc < 0) {
		int c = accept(rawl, NULL, NULL);
		if (c >= 0) {
		    rawc = c;
		    fcntl(rawc, F_SETFL, fcntl(rawc, F_GETFL) | O_NONBLOCK);
		    emit("env", 0, 0, 0, 2, 0);
		}
	    }
	    wire_read();
	    if (i % 3 == 0)
		do_finish(1);
	    else if (i % 3 == 1)
		do_receive(1);
	    if (rawc >= 0 && el > 1900) {
		wire_read();
		break;
	    }
	    usleep(25000);
	}
    }

    /* orderly end of the normal scenario: 1 closes, 2 must see it */
    int close_seen = -1;
    if (normal && so[1] && so[2] && !stuck && !term[1] && !term[2]) {
	close_so(1);
	close_seen = 0;
	int q2 = 0;
	while (q2 < 80 && !eofs[2] && !term[2]) {
	    struct pollfd p = { .fd = xcm_fd(so[2]), .events = POLLIN };
	    if (poll(&p, 1, 25) > 0)
		do_receive(2);
	    else
		q2++;
	}
	close_seen = eofs[2] || term[2];
    }
    /* C06: once an attempt has failed, every later call reports that failure (and the same errno on TCP-based transports) */
    for (int e = 1; e <= 2; e++)
	if (so[e] && term[e]) {
	    int k0 = (int)(rnd() % 3);
	    for (int k = 0; k < 4; k++) {
		int op = (k0 + k) % 3;
		if (op == 0) do_finish(e); else if (op == 1) { want_send[e] = sent[e] + 1; do_send(e); } else do_receive(e);
	    }
	}
    /* which transport each end really runs over (utls delegates to ux or tls): 1 ux, 2 tls, 3 other, 0 unknown */
    int legs[3] = { 0, 0, 0 };
    for (int e = 1; e <= 2; e++)
	if (so[e]) {
	    char t[32] = "";
	    if (xcm_attr_get_str(so[e], "xcm.transport", t, sizeof(t)) >= 0)
		legs[e] = strcmp(t, "ux") == 0 ? 1 : strcmp(t, "tls") == 0 ? 2 : 3;
	}
    /* judged last: every attempt of the run is known by now */
    int wok = 1, wrest = 0, wph = 0;
    wire_read();
    int wun = wirechk ? wire_units(tp[0] != 'b', &wok, &wrest, &wph) : -1;
    stepno++;
    fprintf(out, "{\"x\":%ld,\"n\":%ld,\"op\":\"q\",\"e\":0,\"legs\":[%d,%d],\"stk\":%d,\"turns\":%d,\"ms\":%ld,\"est\":[%d,%d],\"term\":[%d,%d],"
	    "\"eofs\":[%d,%d],\"sent\":[%d,%d],\"rcvd\":[%d,%d],\"bado\":[%d,%d],\"acc\":%d,\"cs\":%d,\"rel\":%d,\"rcl\":%d,\"rg\":%d,\"wire\":[%d,%d,%d,%d]}\n",
	    xid, stepno, legs[1], legs[2], stuck, turns, now_ms() - t0, est[1], est[2], term[1], term[2], eofs[1], eofs[2],
	    sent[1], sent[2], rcvd[1], rcvd[2], bad_order[1], bad_order[2], so[2] != NULL, close_seen, released, rclosed, rgarb,
	    wun, wok, wrest, wph);
    for (int e = 1; e <= 3; e++)
	close_so(e);
    for (int i = 0; i < nctl; i++)
	close(ctlfds[i]);
    if (ctlflood || ctl3)
	rmdir(ctldir);
    cleanup();
}

int main(int argc, char **argv)
{
    if (argc < 3) {
	fprintf(stderr, "usage: %s <script> <trace>\n", argv[0]);
	return 2;
    }
    FILE *in = fopen(argv[1], "r");
    out = fopen(argv[2], "w");
    if (!in || !out)
	return 2;
    setvbuf(out, NULL, _IOFBF, 1 << 20);
    signal(SIGPIPE, SIG_IGN);
    signal(SIGABRT, on_signal);
    signal(SIGSEGV, on_signal);
    signal(SIGALRM, on_signal);
    /* self-test of the wait detector: a deliberate sleep inside a watched call must be counted (the check requires it) */
    {
	struct timespec ts = { 0, 1000 };
	CALL_BEGIN(1);
	nanosleep(&ts, NULL);
	struct pollfd pp = { .fd = 0, .events = 0 };
	poll(&pp, 0, 1);
	CALL_END();
	fprintf(out, "{\"x\":0,\"n\":0,\"op\":\"selftest\",\"e\":0,\"w\":%d}\n", shim_wait_seen());
    }
    char line[256];
    while (fgets(line, sizeof(line), in)) {
	long seed = 1;
	if (line[0] != 'X' || sscanf(line, "X %ld %31s %31s %ld", &xid, tp, scen, &seed) < 3)
	    continue;
	rng = 88172645463325252UL ^ ((unsigned long)seed * 2654435761UL);
	alarm(25);
	run();
	fflush(out);
    }
    alarm(0);
    fclose(out);
    return 0;
}
