/*
 * addr_exec - executes address codec vectors against the real libxcm
 * (xcm_addr.c, xcm_addr_compat.c, common_tp.c) and records what was
 * observed as NDJSON, one line per vector.  The harness never judges: the
 * lines are validated by TLC against spec/AddrTrace.tla.
 *
 * usage: addr_exec <vector file> <output ndjson>
 *
 * vector lines (strings are hex encoded, "-" = empty):
 *   mk <id> <t> <api> <hk> <hex> <port> <cap>   xcm_addr_make_<t>; api 0 = current API,
 *                                               1 = xcm_addr_<t>6_make / xcm_addr_ux_make,
 *                                               2 = xcm_addr_<t>_make (in_addr_t)
 *                                               hk = ip4|ip6|name|ux|badfam
 *   ps <id> <hex>                               every parser, xcm_addr_is_valid, parse_proto
 *   pc <id> <fn> <hex> <cap>                    fn = proto|ux|uxf with an output buffer of cap bytes
 *   cv <id> <from> <to> <hex> <cap>             <from>_to_<to>() of common_tp.c
 *
 * Every output buffer is malloc(PRE + cap + POST), completely filled with
 * FILL before the call; the bytes before, inside and after the `cap`
 * bytes handed to the library are logged.  Input strings live in exactly
 * sized heap blocks, so ASan sees any access outside them.
 */
#include <arpa/inet.h>
#include <errno.h>
#include <stdint.h>
#include <stdio.h>
#include <stdlib.h>
#include <string.h>

#include <xcm_addr.h>

#define PRE 8
#define POST 16
#define FILL 0xA5
#define BIGCAP 1024

int btcp_to_tcp(const char *, char *, size_t);
int tcp_to_btcp(const char *, char *, size_t);
int btcp_to_btls(const char *, char *, size_t);
int btls_to_btcp(const char *, char *, size_t);
int btls_to_tls(const char *, char *, size_t);
int tls_to_btls(const char *, char *, size_t);
int utls_to_tls(const char *, char *, size_t);
int tls_to_utls(const char *, char *, size_t);

static FILE *out;

typedef int (*parse_hp_fn)(const char *, struct xcm_addr_host *, uint16_t *);
typedef int (*make_hp_fn)(const struct xcm_addr_host *, unsigned short, char *, size_t);
typedef int (*parse6_fn)(const char *, struct xcm_addr_ip *, uint16_t *);
typedef int (*parse4_fn)(const char *, in_addr_t *, uint16_t *);
typedef int (*make6_fn)(const struct xcm_addr_ip *, unsigned short, char *, size_t);
typedef int (*make4_fn)(in_addr_t, unsigned short, char *, size_t);
typedef int (*conv_fn)(const char *, char *, size_t);

static const char *T8[8] = { "tcp", "tls", "utls", "sctp", "ux", "uxf", "btcp", "btls" };

static parse_hp_fn parse_hp(const char *t)
{
    if (!strcmp(t, "tcp")) return xcm_addr_parse_tcp;
    if (!strcmp(t, "tls")) return xcm_addr_parse_tls;
    if (!strcmp(t, "utls")) return xcm_addr_parse_utls;
    if (!strcmp(t, "sctp")) return xcm_addr_parse_sctp;
    if (!strcmp(t, "btcp")) return xcm_addr_parse_btcp;
    if (!strcmp(t, "btls")) return xcm_addr_parse_btls;
    return NULL;
}

static make_hp_fn make_hp(const char *t)
{
    if (!strcmp(t, "tcp")) return xcm_addr_make_tcp;
    if (!strcmp(t, "tls")) return xcm_addr_make_tls;
    if (!strcmp(t, "utls")) return xcm_addr_make_utls;
    if (!strcmp(t, "sctp")) return xcm_addr_make_sctp;
    if (!strcmp(t, "btcp")) return xcm_addr_make_btcp;
    if (!strcmp(t, "btls")) return xcm_addr_make_btls;
    return NULL;
}

static make6_fn make6(const char *t)
{
    if (!strcmp(t, "tcp")) return xcm_addr_tcp6_make;
    if (!strcmp(t, "tls")) return xcm_addr_tls6_make;
    if (!strcmp(t, "utls")) return xcm_addr_utls6_make;
    if (!strcmp(t, "sctp")) return xcm_addr_sctp6_make;
    return NULL;
}

static make4_fn make4(const char *t)
{
    if (!strcmp(t, "tcp")) return xcm_addr_tcp_make;
    if (!strcmp(t, "tls")) return xcm_addr_tls_make;
    if (!strcmp(t, "utls")) return xcm_addr_utls_make;
    return NULL;
}

static conv_fn conv(const char *a, const char *b)
{
    if (!strcmp(a, "btcp") && !strcmp(b, "tcp")) return btcp_to_tcp;
    if (!strcmp(a, "tcp") && !strcmp(b, "btcp")) return tcp_to_btcp;
    if (!strcmp(a, "btcp") && !strcmp(b, "btls")) return btcp_to_btls;
    if (!strcmp(a, "btls") && !strcmp(b, "btcp")) return btls_to_btcp;
    if (!strcmp(a, "btls") && !strcmp(b, "tls")) return btls_to_tls;
    if (!strcmp(a, "tls") && !strcmp(b, "btls")) return tls_to_btls;
    if (!strcmp(a, "utls") && !strcmp(b, "tls")) return utls_to_tls;
    if (!strcmp(a, "tls") && !strcmp(b, "utls")) return tls_to_utls;
    return NULL;
}

/* ---- helpers -------------------------------------------------------- */
static int hexval(int c)
{
    if (c >= '0' && c <= '9') return c - '0';
    if (c >= 'a' && c <= 'f') return c - 'a' + 10;
    if (c >= 'A' && c <= 'F') return c - 'A' + 10;
    return -1;
}

/* decodes into an exactly sized heap block (len + 1 bytes, NUL terminated) */
static unsigned char *unhex(const char *h, size_t *len)
{
    size_t n = strcmp(h, "-") == 0 ? 0 : strlen(h) / 2;
    unsigned char *b = malloc(n + 1);
    for (size_t i = 0; i < n; i++)
	b[i] = (unsigned char)(hexval(h[2 * i]) * 16 + hexval(h[2 * i + 1]));
    b[n] = 0;
    *len = n;
    return b;
}

static void put_bytes(const unsigned char *b, size_t n)
{
    fputc('[', out);
    for (size_t i = 0; i < n; i++)
	fprintf(out, i ? ",%u" : "%u", b[i]);
    fputc(']', out);
}

struct obuf {
    unsigned char *base;
    size_t cap;
};

static struct obuf obuf_new(size_t cap)
{
    struct obuf o;
    o.cap = cap;
    o.base = malloc(PRE + cap + POST);
    memset(o.base, FILL, PRE + cap + POST);
    return o;
}

static char *obuf_ptr(struct obuf *o)
{
    return (char *)o->base + PRE;
}

/* index of the first NUL inside the capacity, or -1 */
static long obuf_nul(struct obuf *o)
{
    unsigned char *p = memchr(o->base + PRE, 0, o->cap);
    return p ? (long)(p - (o->base + PRE)) : -1;
}

/* parsed components as  [ret, errno, kind, bytes, port] */
static void put_none(int ret, int err)
{
    fprintf(out, "[%d,%d,\"none\",[],0]", ret, err);
}

static void put_ip(int ret, const struct xcm_addr_ip *ip, uint16_t port)
{
    if (ip->family == AF_INET) {
	fprintf(out, "[%d,0,\"ip4\",", ret);
	put_bytes((const unsigned char *)&ip->addr.ip4, 4);
    } else if (ip->family == AF_INET6) {
	fprintf(out, "[%d,0,\"ip6\",", ret);
	put_bytes(ip->addr.ip6, 16);
    } else
	fprintf(out, "[%d,0,\"badfam\",[]", ret);
    fprintf(out, ",%u]", (unsigned)ntohs(port));
}

static void put_host(int ret, const struct xcm_addr_host *h, uint16_t port)
{
    if (h->type == xcm_addr_type_ip)
	put_ip(ret, &h->ip, port);
    else if (h->type == xcm_addr_type_name) {
	fprintf(out, "[%d,0,\"name\",", ret);
	put_bytes((const unsigned char *)h->name, strnlen(h->name, sizeof(h->name)));
	fprintf(out, ",%u]", (unsigned)ntohs(port));
    } else
	fprintf(out, "[%d,0,\"badtype\",[],0]", ret);
}

static void run_parse_hp(parse_hp_fn f, const char *s)
{
    struct xcm_addr_host *h = malloc(sizeof(*h));
    uint16_t *port = malloc(sizeof(*port));
    memset(h, FILL, sizeof(*h));
    *port = 0;
    errno = 0;
    int rc = f(s, h, port);
    int err = errno;
    if (rc == 0)
	put_host(rc, h, *port);
    else
	put_none(rc, err);
    free(h);
    free(port);
}

static void run_parse_ux(int uxf, const char *s)
{
    struct obuf o = obuf_new(BIGCAP);
    errno = 0;
    int rc = uxf == 1 ? xcm_addr_parse_uxf(s, obuf_ptr(&o), BIGCAP) :
	uxf == 0 ? xcm_addr_parse_ux(s, obuf_ptr(&o), BIGCAP) : xcm_addr_ux_parse(s, obuf_ptr(&o), BIGCAP);
    int err = errno;
    long z = obuf_nul(&o);
    if (rc == 0 && z >= 0) {
	fprintf(out, "[%d,0,\"ux\",", rc);
	put_bytes((unsigned char *)obuf_ptr(&o), (size_t)z);
	fprintf(out, ",0]");
    } else if (rc == 0)
	fprintf(out, "[%d,0,\"unterminated\",[],0]", rc);
    else
	put_none(rc, err);
    free(o.base);
}

static void run_parse_t(const char *t, const char *s)
{
    if (!strcmp(t, "ux"))
	run_parse_ux(0, s);
    else if (!strcmp(t, "uxf"))
	run_parse_ux(1, s);
    else
	run_parse_hp(parse_hp(t), s);
}

static void run_parse6(parse6_fn f, const char *s)
{
    struct xcm_addr_ip *ip = malloc(sizeof(*ip));
    uint16_t port = 0;
    memset(ip, FILL, sizeof(*ip));
    errno = 0;
    int rc = f(s, ip, &port);
    int err = errno;
    if (rc == 0)
	put_ip(rc, ip, port);
    else
	put_none(rc, err);
    free(ip);
}

static void run_parse4(parse4_fn f, const char *s)
{
    in_addr_t *ip = malloc(sizeof(*ip));
    uint16_t port = 0;
    errno = 0;
    int rc = f(s, ip, &port);
    int err = errno;
    if (rc == 0) {
	fprintf(out, "[%d,0,\"ip4\",", rc);
	put_bytes((unsigned char *)ip, 4);
	fprintf(out, ",%u]", (unsigned)ntohs(port));
    } else
	put_none(rc, err);
    free(ip);
}

/* ---- one line: every field on every line (defaults when unused) ------- */
struct line {
    const char *op, *t, *t2, *hk, *fn;
    long id, api, port, cap;
    int ret, err;
};

static void head(const struct line *l)
{
    fprintf(out, "{\"op\":\"%s\",\"id\":%ld,\"t\":\"%s\",\"t2\":\"%s\",\"fn\":\"%s\",\"api\":%ld,\"hk\":\"%s\","
	    "\"port\":%ld,\"cap\":%ld,\"fill\":%d",
	    l->op, l->id, l->t, l->t2, l->fn, l->api, l->hk, l->port, l->cap, FILL);
}

static void put_obuf(struct obuf *o)
{
    fprintf(out, ",\"pre\":");
    put_bytes(o->base, PRE);
    fprintf(out, ",\"out\":");
    put_bytes(o->base + PRE, o->cap + POST);
}

static void put_no_obuf(void)
{
    fprintf(out, ",\"pre\":[],\"out\":[]");
}

static void put_ps_defaults(void)
{
    fprintf(out, ",\"r\":[],\"c6\":[],\"c4\":[],\"uxc\":[0,0,\"none\",[],0],\"iv\":0,\"isup\":0,\"pp\":[0,0,[]]");
}

/* parse the freshly made address back (only when it is NUL terminated inside the capacity) */
static void put_parse_back(const char *t, struct obuf *o, int rc)
{
    fprintf(out, ",\"p\":");
    if (rc == 0 && obuf_nul(o) >= 0) {
	/* exactly sized copy so that an over-read is visible to ASan */
	size_t n = (size_t)obuf_nul(o);
	char *copy = malloc(n + 1);
	memcpy(copy, obuf_ptr(o), n + 1);
	run_parse_t(t, copy);
	free(copy);
    } else
	fprintf(out, "[-2,0,\"none\",[],0]");
}

/* ---- vectors -------------------------------------------------------------- */
static void do_mk(long id, const char *t, long api, const char *hk, const char *hex, long port, long cap)
{
    size_t n;
    unsigned char *b = unhex(hex, &n);
    struct obuf o = obuf_new((size_t)cap);
    struct line l = { "mk", t, "", hk, "", id, api, port, cap, 0, 0 };
    int rc = -3, err = 0;

    if (!strcmp(hk, "ux")) {
	errno = 0;
	if (api == 1)
	    rc = xcm_addr_ux_make((char *)b, obuf_ptr(&o), (size_t)cap);
	else if (!strcmp(t, "uxf"))
	    rc = xcm_addr_make_uxf((char *)b, obuf_ptr(&o), (size_t)cap);
	else
	    rc = xcm_addr_make_ux((char *)b, obuf_ptr(&o), (size_t)cap);
	err = errno;
    } else {
	struct xcm_addr_host *h = malloc(sizeof(*h));
	memset(h, 0, sizeof(*h));
	if (!strcmp(hk, "name")) {
	    h->type = xcm_addr_type_name;
	    memcpy(h->name, b, n < sizeof(h->name) - 1 ? n : sizeof(h->name) - 1);
	} else {
	    h->type = xcm_addr_type_ip;
	    if (!strcmp(hk, "ip4")) {
		h->ip.family = AF_INET;
		memcpy(&h->ip.addr.ip4, b, 4);
	    } else if (!strcmp(hk, "ip6")) {
		h->ip.family = AF_INET6;
		memcpy(h->ip.addr.ip6, b, 16);
	    } else
		h->ip.family = 99;
	}
	errno = 0;
	if (api == 0 && make_hp(t))
	    rc = make_hp(t)(h, htons((uint16_t)port), obuf_ptr(&o), (size_t)cap);
	else if (api == 1 && make6(t) && h->type == xcm_addr_type_ip)
	    rc = make6(t)(&h->ip, htons((uint16_t)port), obuf_ptr(&o), (size_t)cap);
	else if (api == 2 && make4(t) && !strcmp(hk, "ip4"))
	    rc = make4(t)(h->ip.addr.ip4, htons((uint16_t)port), obuf_ptr(&o), (size_t)cap);
	err = errno;
	free(h);
    }
    l.ret = rc;
    l.err = rc < 0 ? err : 0;
    head(&l);
    fprintf(out, ",\"ret\":%d,\"err\":%d,\"hb\":", l.ret, l.err);
    put_bytes(b, n);
    fprintf(out, ",\"s\":[]");
    put_obuf(&o);
    put_parse_back(t, &o, rc);
    put_ps_defaults();
    fprintf(out, "}\n");
    free(o.base);
    free(b);
}

static void do_ps(long id, const char *hex)
{
    size_t n;
    char *s = (char *)unhex(hex, &n);
    struct line l = { "ps", "", "", "", "", id, 0, 0, 0, 0, 0 };
    head(&l);
    fprintf(out, ",\"ret\":0,\"err\":0,\"hb\":[],\"s\":");
    put_bytes((unsigned char *)s, n);
    put_no_obuf();
    fprintf(out, ",\"p\":[-2,0,\"none\",[],0],\"r\":[");
    for (int i = 0; i < 8; i++) {
	if (i)
	    fputc(',', out);
	run_parse_t(T8[i], s);
    }
    fprintf(out, "],\"c6\":[");
    run_parse6(xcm_addr_tcp6_parse, s);
    fputc(',', out);
    run_parse6(xcm_addr_tls6_parse, s);
    fputc(',', out);
    run_parse6(xcm_addr_utls6_parse, s);
    fputc(',', out);
    run_parse6(xcm_addr_sctp6_parse, s);
    fprintf(out, "],\"c4\":[");
    run_parse4(xcm_addr_tcp_parse, s);
    fputc(',', out);
    run_parse4(xcm_addr_tls_parse, s);
    fputc(',', out);
    run_parse4(xcm_addr_utls_parse, s);
    fprintf(out, "],\"uxc\":");
    run_parse_ux(2, s);
    errno = 0;
    int iv = xcm_addr_is_valid(s) ? 1 : 0;
    int isup = xcm_addr_is_supported(s) ? 1 : 0;
    fprintf(out, ",\"iv\":%d,\"isup\":%d,\"pp\":", iv, isup);
    {
	struct obuf o = obuf_new(64);
	errno = 0;
	int rc = xcm_addr_parse_proto(s, obuf_ptr(&o), 64);
	int err = errno;
	long z = obuf_nul(&o);
	fprintf(out, "[%d,%d,", rc, rc < 0 ? err : 0);
	put_bytes((unsigned char *)obuf_ptr(&o), rc == 0 && z >= 0 ? (size_t)z : 0);
	fputc(']', out);
	free(o.base);
    }
    fprintf(out, "}\n");
    free(s);
}

static void do_pc(long id, const char *fn, const char *hex, long cap)
{
    size_t n;
    char *s = (char *)unhex(hex, &n);
    struct obuf o = obuf_new((size_t)cap);
    struct line l = { "pc", "", "", "", fn, id, 0, 0, cap, 0, 0 };
    errno = 0;
    int rc;
    if (!strcmp(fn, "proto"))
	rc = xcm_addr_parse_proto(s, obuf_ptr(&o), (size_t)cap);
    else if (!strcmp(fn, "ux"))
	rc = xcm_addr_parse_ux(s, obuf_ptr(&o), (size_t)cap);
    else
	rc = xcm_addr_parse_uxf(s, obuf_ptr(&o), (size_t)cap);
    int err = errno;
    head(&l);
    fprintf(out, ",\"ret\":%d,\"err\":%d,\"hb\":[],\"s\":", rc, rc < 0 ? err : 0);
    put_bytes((unsigned char *)s, n);
    put_obuf(&o);
    fprintf(out, ",\"p\":[-2,0,\"none\",[],0]");
    put_ps_defaults();
    fprintf(out, "}\n");
    free(o.base);
    free(s);
}

static void do_cv(long id, const char *from, const char *to, const char *hex, long cap)
{
    size_t n;
    char *s = (char *)unhex(hex, &n);
    struct obuf o = obuf_new((size_t)cap);
    struct line l = { "cv", from, to, "", "", id, 0, 0, cap, 0, 0 };
    conv_fn f = conv(from, to);
    errno = 0;
    int rc = f ? f(s, obuf_ptr(&o), (size_t)cap) : -3;
    int err = errno;
    head(&l);
    fprintf(out, ",\"ret\":%d,\"err\":%d,\"hb\":[],\"s\":", rc, rc < 0 ? err : 0);
    put_bytes((unsigned char *)s, n);
    put_obuf(&o);
    put_parse_back(to, &o, rc);
    put_ps_defaults();
    fprintf(out, "}\n");
    free(o.base);
    free(s);
}

int main(int argc, char **argv)
{
    if (argc < 3) {
	fprintf(stderr, "usage: addr_exec <vectors> <out.ndjson>\n");
	return 2;
    }
    FILE *in = fopen(argv[1], "r");
    out = fopen(argv[2], "w");
    if (!in || !out) {
	perror("open");
	return 2;
    }
    size_t lcap = 1 << 16;
    char *line = malloc(lcap);
    static char a[8][4096];
    while (fgets(line, (int)lcap, in)) {
	char op[8];
	long id, x, y, z;
	if (line[0] == '#' || line[0] == '\n')
	    continue;
	if (sscanf(line, "%7s", op) != 1)
	    continue;
	if (!strcmp(op, "mk")) {
	    if (sscanf(line, "%*s %ld %15s %ld %15s %4000s %ld %ld", &id, a[0], &x, a[1], a[2], &y, &z) != 7)
		return 3;
	    do_mk(id, a[0], x, a[1], a[2], y, z);
	} else if (!strcmp(op, "ps")) {
	    if (sscanf(line, "%*s %ld %4000s", &id, a[0]) != 2)
		return 3;
	    do_ps(id, a[0]);
	} else if (!strcmp(op, "pc")) {
	    if (sscanf(line, "%*s %ld %15s %4000s %ld", &id, a[0], a[1], &x) != 4)
		return 3;
	    do_pc(id, a[0], a[1], x);
	} else if (!strcmp(op, "cv")) {
	    if (sscanf(line, "%*s %ld %15s %15s %4000s %ld", &id, a[0], a[1], a[2], &x) != 5)
		return 3;
	    do_cv(id, a[0], a[1], a[2], x);
	} else
	    return 3;
	fflush(out);
    }
    fclose(out);
    return 0;
}
