/*
 * mbuf_exec <script> <trace>: drives the real libxcm/tp/common/mbuf.h (the buffer of one message and the wire encoding
 * of tcp / tls: 4-byte big-endian length + payload) through the call sequences of spec/Mbuf.tla and records, after
 * every call, what each query function of the header answers; spec/MbufTrace.tla compares them with the model.
 * Two buffers: t (a sender's: mbuf_set) and r (a receiver's: bytes appended in chunks).
 *
 * script:  X <id> | <t|r> reset | <t|r> set <n> | <t|r> cap <n> | <t|r> spare <n> | <t|r> app <n> <h1,h2,..|-> | E
 *   set: a message of n bytes of value 1;  app: n bytes written at mbuf_wire_end - the given header bytes first, then
 *   bytes of value 1 - followed by mbuf_wire_appended(n)
 * An assert that fires inside a call ends the execution (crash = 1 in its record).
 */
#include <setjmp.h>
#include <signal.h>
#include <stdbool.h>
#include <stdint.h>
#include <stdio.h>
#include <stdlib.h>
#include <string.h>

#include "mbuf.h"

#define CSMOD 251

static sigjmp_buf jb;
static void on_abort(int sig)
{
    (void)sig;
    siglongjmp(jb, 1);
}

static FILE *out;
static long xid, stepno;

static void emit(const char *b, const char *op, long a, long cs, const char *hb, struct mbuf *m, int crash)
{
    stepno++;
    fprintf(out, "{\"x\":%ld,\"n\":%ld,\"b\":\"%s\",\"op\":\"%s\",\"a\":%ld,\"cs\":%ld,\"hb\":[%s],\"crash\":%d,\"obs\":", xid, stepno, b, op,
	    a, cs, hb, crash);
    if (crash || m == NULL) {
	fprintf(out, "{\"wl\":0,\"left\":0,\"empty\":0,\"partial\":0,\"hl\":0,\"hashdr\":0,\"valid\":0,\"hi\":0,\"lo\":0,\"buf\":0,"
		"\"pleft\":0,\"complete\":0,\"ps\":0}}\n");
	return;
    }
    int hashdr = mbuf_has_complete_hdr(m);
    long hi = -1, lo = -1, pleft = -1;
    if (hashdr) {
	uint32_t d = mbuf_complete_payload_len(m);
	hi = (long)(d >> 16);
	lo = (long)(d & 0xffff);
	if (hi == 0)
	    pleft = mbuf_payload_left(m);
    }
    long ps = 0;
    uint32_t nb = mbuf_payload_buffered(m);
    const unsigned char *p = mbuf_payload_start(m);
    for (uint32_t i = 0; i < nb; i++)
	ps = (ps + p[i]) % CSMOD;
    long wl = mbuf_wire_len(m);
    /* mbuf_wire_end is where the next bytes go: it must be wire_len past the start */
    if ((char *)mbuf_wire_end(m) - (char *)mbuf_wire_start(m) != wl)
	wl = -1000000;
    fprintf(out, "{\"wl\":%ld,\"left\":%d,\"empty\":%d,\"partial\":%d,\"hl\":%d,\"hashdr\":%d,\"valid\":%d,\"hi\":%ld,\"lo\":%ld,"
	    "\"buf\":%u,\"pleft\":%ld,\"complete\":%d,\"ps\":%ld}}\n", wl, mbuf_wire_capacity_left(m), mbuf_is_empty(m),
	    mbuf_is_partial(m), mbuf_hdr_left(m), hashdr, mbuf_is_hdr_valid(m), hi, lo, nb, pleft, mbuf_is_complete(m), ps);
}

int main(int argc, char **argv)
{
    if (argc < 3)
	return 2;
    FILE *in = fopen(argv[1], "r");
    out = fopen(argv[2], "w");
    if (!in || !out)
	return 2;
    setvbuf(out, NULL, _IOLBF, 0);
    signal(SIGABRT, on_abort);
    struct mbuf mb[2];
    bool have = false, skip = false;
    static char msg[70000];
    memset(msg, 1, sizeof(msg));
    char line[512];
    while (fgets(line, sizeof(line), in)) {
	char b[8], o[16], hbs[256] = "-";
	long a = 0;
	int nf = sscanf(line, "%7s %15s %ld %255s", b, o, &a, hbs);
	if (nf < 1)
	    continue;
	if (strcmp(b, "X") == 0) {
	    if (have) {
		mbuf_deinit(&mb[0]);
		mbuf_deinit(&mb[1]);
	    }
	    xid = atol(o);
	    stepno = -1;
	    skip = false;
	    mbuf_init(&mb[0]);
	    mbuf_init(&mb[1]);
	    have = true;
	    emit("t", "X", 0, 0, "", NULL, 0);
	    continue;
	}
	if (strcmp(b, "E") == 0 || skip || !have || nf < 2)
	    continue;
	struct mbuf *m = &mb[b[0] == 'r'];
	unsigned char hb[8];
	int nhb = 0;
	char hbj[128] = "";
	if (strcmp(hbs, "-") != 0) {
	    char *save = NULL;
	    for (char *t = strtok_r(hbs, ",", &save); t != NULL && nhb < 8; t = strtok_r(NULL, ",", &save)) {
		hb[nhb] = (unsigned char)atoi(t);
		snprintf(hbj + strlen(hbj), sizeof(hbj) - strlen(hbj), "%s%d", nhb ? "," : "", hb[nhb]);
		nhb++;
	    }
	}
	long cs = 0;
	if (sigsetjmp(jb, 1) != 0) {
	    emit(b, o, a, cs, hbj, m, 1);
	    skip = true;	/* the buffer is in an unknown state: this execution ends here */
	    /* the memory of the two buffers is given up (an assert may have fired between realloc and the bookkeeping) */
	    have = false;
	    continue;
	}
	if (strcmp(o, "reset") == 0)
	    mbuf_reset(m);
	else if (strcmp(o, "set") == 0) {
	    cs = a % CSMOD;
	    mbuf_set(m, msg, (uint32_t)a);
	} else if (strcmp(o, "cap") == 0)
	    mbuf_wire_ensure_capacity(m, (uint32_t)a);
	else if (strcmp(o, "spare") == 0)
	    mbuf_wire_ensure_spare_capacity(m, (uint32_t)a);
	else if (strcmp(o, "app") == 0) {
	    /* the caller's part: only as much as there is room for is written (what the model calls an assert is
	       reached through mbuf_wire_appended, not through a write outside the buffer) */
	    long room = (long)m->wire_capacity - (long)m->wire_len;
	    unsigned char *e = mbuf_wire_end(m);
	    for (long i = 0; i < a; i++) {
		unsigned char v = i < nhb ? hb[i] : 1;
		cs = (cs + v) % CSMOD;
		if (i < room)
		    e[i] = v;
	    }
	    mbuf_wire_appended(m, (int)a);
	} else
	    continue;
	emit(b, o, a, cs, hbj, m, 0);
    }
    fclose(out);
    return 0;
}
