/*
 * C20 - xcmrelay is transparent: two-endpoint driver.
 *
 * usage: relay_exec <script> <trace.ndjson>
 *
 * One process = one batch = one relay process (the real tool built from the working tree,
 * started here so that its liveness and exit status are observable) between a harness
 * server ("s" side, listening on the relay's client address) and harness clients ("c" side,
 * connecting to the relay's server address).  The script replays application-level behaviours
 * of spec/Relay.tla (who sends how much, who stops reading, who closes when); every endpoint
 * records what it observed.  Nothing is judged here: a received message is *identified*
 * from its content (which message of the sender it is, intact or not), runs of consecutive
 * intact messages are run-length encoded, and spec/RelayTrace.tla decides.
 *
 * All sockets are non-blocking; the single thread drives all endpoints.
 *
 * script lines
 *   relay <binary> | saddr <addr> | caddr <addr> | stream <0|1> | tag <n> | limit <ms> | rout <file>
 *   start                         create the "s" server, spawn the relay
 *   X <xid>                       begin an execution
 *   sizes <n> <s1> .. <sn>        message (chunk) sizes, cycled per sender
 *   pace <us>                     pause of a receiver between two units
 *   con <k>                       relayed connection k: c connects, s accepts
 *   con1 <k>                      only c connects (to the relay); con <k> completes the connection later
 *   snd <k> <c|s> lv <permille>   send until the bytes in flight in that direction reach
 *                                 permille/1000 of the measured pipeline capacity (1000: until EAGAIN)
 *   snd <k> <c|s> n <count>       send count units (stops at EAGAIN)
 *   rcv <k> <c|s> lv <permille>   receive (at least one unit) until the bytes in flight fall to the level
 *   rcv <k> <c|s> n <count> | all | end     count units | everything accepted so far | until the end is shown
 *   cls <k> <c|s>                 flush (xcm_finish; while it is refused the other side reads) and close
 *   rly                           relay status
 *   slp <ms>
 *   E                             end of the execution (drops what is still open)
 *   stop                          SIGHUP to the relay, final status
 */
#define _GNU_SOURCE
#include <errno.h>
#include <fcntl.h>
#include <poll.h>
#include <signal.h>
#include <stdarg.h>
#include <stdbool.h>
#include <stdint.h>
#include <stdio.h>
#include <stdlib.h>
#include <string.h>
#include <sys/types.h>
#include <sys/wait.h>
#include <time.h>
#include <unistd.h>

#include <xcm.h>
#include <xcm_attr.h>
#include <xcm_attr_map.h>

#define MAXK 6
#define MAXMSG 65535
#define MAXCHUNK (1 << 18)
#define MAXFILL 8000
#define GUARD 64

struct end {
    struct xcm_socket *s;
    int open;	   /* the application has not closed */
    int term;	   /* was shown the end on receive */
    int sfail;	   /* a send or finish failed with the connection */
    long acc;	   /* units accepted (messages | bytes) */
    long accb;	   /* bytes accepted */
    long got;	   /* highest unit received in order */
    long gotb;	   /* bytes received */
    long natt;	   /* messages attempted (acc, or acc + 1 after EAGAIN) */
    int *len;	   /* lengths of attempted messages 1..natt */
    long lencap;
    long szi;
    int fin;	   /* last xcm_finish: 0 clean, 1 pending, 2 failed */
    int finerr;
};

static struct end E[MAXK + 1][2];
static int used[MAXK + 1];

static char relay_bin[512], saddr[256], caddr[256], rout[512];
static int is_stream, tag, limit_ms = 5000, pace_us;
static int sizes[64], nsizes = 1;
static long T[2];		/* measured pipeline capacity in bytes per direction (index: sending side) */
static struct xcm_socket *ssock;
static pid_t relay_pid = -1;
static int relay_gone, relay_ready, relay_status = -1, relay_stopping;
static int xid, lineno;
static double x_t0;
static FILE *out;

static unsigned char *sbuf, *rbuf, *ebuf;

/* ---- time ------------------------------------------------------------------- */
static double now_ms(void)
{
    struct timespec ts;
    clock_gettime(CLOCK_MONOTONIC, &ts);
    return ts.tv_sec * 1e3 + ts.tv_nsec / 1e6;
}

static void nap(int us)
{
    struct timespec ts = { us / 1000000, (us % 1000000) * 1000L };
    nanosleep(&ts, NULL);
}

static void die(const char *fmt, ...)
{
    va_list ap;
    va_start(ap, fmt);
    fprintf(stderr, "relay_exec: ");
    vfprintf(stderr, fmt, ap);
    fprintf(stderr, "\n");
    va_end(ap);
    if (relay_pid > 0 && !relay_gone)
	kill(relay_pid, SIGKILL);
    exit(2);
}

/* ---- content ------------------------------------------------------------------ */
static inline uint64_t h64(uint64_t x)
{
    x ^= x >> 33; x *= 0xff51afd7ed558ccdULL; x ^= x >> 33; x *= 0xc4ceb9fe1a85ec53ULL; x ^= x >> 33;
    return x;
}

static uint64_t base_seed(int k, int side)
{
    return h64(((uint64_t)tag << 40) ^ ((uint64_t)xid << 16) ^ ((uint64_t)k << 4) ^ (uint64_t)side ^ 0x5bd1e995c20ULL);
}

/* message idx (1..) of sender (k, side): byte j = function of (tag, xid, k, side, idx, j) */
static void gen_msg(unsigned char *b, int k, int side, long idx, int len)
{
    uint64_t s = h64(base_seed(k, side) + (uint64_t)idx * 0x9e3779b97f4a7c15ULL);
    for (int j = 0; j < len; j += 8) {
	uint64_t v = h64(s + (uint64_t)(j >> 3));
	int n = len - j < 8 ? len - j : 8;
	memcpy(b + j, &v, n);
    }
}

/* byte stream of sender (k, side): byte at position p (0..) = function of (tag, xid, k, side, p) */
static void gen_stream(unsigned char *b, int k, int side, long pos, long n)
{
    uint64_t s = base_seed(k, side) ^ 0x73747265616dULL;
    long p = pos;
    while (n > 0) {
	uint64_t v = h64(s + (uint64_t)(p >> 3));
	int off = (int)(p & 7);
	int m = 8 - off;
	if (m > n)
	    m = (int)n;
	memcpy(b, (unsigned char *)&v + off, m);
	b += m; p += m; n -= m;
    }
}

/* ---- trace ----------------------------------------------------------------- */
struct rec {
    const char *ev; int k, ep; long a, c, by; const char *res; int err, fin, w, bad; long bi, bl, fl; int st, xs;
    const char *d;
};

static void emit(struct rec r)
{
    fprintf(out, "{\"x\":%d,\"n\":%d,\"ev\":\"%s\",\"k\":%d,\"ep\":%d,\"a\":%ld,\"c\":%ld,\"by\":%ld,\"res\":\"%s\","
	    "\"err\":%d,\"fin\":%d,\"w\":%d,\"lim\":%d,\"bad\":%d,\"bi\":%ld,\"bl\":%ld,\"fl\":%ld,\"st\":%d,\"xs\":%d,"
	    "\"str\":%d,\"t\":%d,\"d\":\"%s\"}\n",
	    xid, ++lineno, r.ev, r.k, r.ep, r.a, r.c, r.by, r.res ? r.res : "", r.err, r.fin, r.w, limit_ms, r.bad,
	    r.bi, r.bl, r.fl, r.st, r.xs, is_stream, (int)(now_ms() - x_t0), r.d ? r.d : "");
    fflush(out);
}

/* ---- relay process ------------------------------------------------------------ */
static void relay_poll(void)
{
    if (relay_pid <= 0 || relay_gone)
	return;
    int st;
    pid_t p = waitpid(relay_pid, &st, WNOHANG);
    if (p == relay_pid) {
	relay_gone = 1;
	relay_status = WIFEXITED(st) ? WEXITSTATUS(st) : 128 + WTERMSIG(st);
    }
}

static void emit_rly(const char *res)
{
    relay_poll();
    int live = 0;
    for (int k = 1; k <= MAXK; k++)
	if (used[k] && E[k][0].open && E[k][1].open && !E[k][0].term && !E[k][1].term && !E[k][0].sfail && !E[k][1].sfail)
	    live++;
    emit((struct rec){ .ev = "rly", .res = res, .st = relay_gone ? 0 : 1, .xs = relay_gone ? relay_status : -1, .c = live });
}

static void relay_start(void)
{
    struct xcm_attr_map *attrs = xcm_attr_map_create();
    xcm_attr_map_add_bool(attrs, "xcm.blocking", false);
    if (is_stream)
	xcm_attr_map_add_str(attrs, "xcm.service", "bytestream");
    ssock = xcm_server_a(caddr, attrs);
    xcm_attr_map_destroy(attrs);
    if (ssock == NULL)
	die("cannot create server %s: %s", caddr, strerror(errno));
    pid_t p = fork();
    if (p < 0)
	die("fork: %s", strerror(errno));
    if (p == 0) {
	int fd = open(rout, O_WRONLY | O_CREAT | O_TRUNC, 0644);
	if (fd >= 0) {
	    dup2(fd, 1);
	    dup2(fd, 2);
	    close(fd);
	}
	int nfd = open("/dev/null", O_RDONLY);
	if (nfd >= 0) {
	    dup2(nfd, 0);
	    close(nfd);
	}
	for (int i = 3; i < 256; i++)
	    close(i);
	execl(relay_bin, relay_bin, saddr, caddr, (char *)NULL);
	_exit(127);
    }
    relay_pid = p;
}

static void relay_stop(void)
{
    relay_poll();
    if (relay_pid > 0 && !relay_gone) {
	relay_stopping = 1;
	kill(relay_pid, SIGHUP);
	double t0 = now_ms();
	while (!relay_gone && now_ms() - t0 < 10000) {
	    relay_poll();
	    if (!relay_gone)
		nap(2000);
	}
	if (!relay_gone) {
	    kill(relay_pid, SIGKILL);
	    int st;
	    waitpid(relay_pid, &st, 0);
	    relay_gone = 1;
	    relay_status = 1000;	/* did not terminate on SIGHUP */
	}
	emit_rly("stop");
    } else
	emit_rly("dead");
}

/* ---- endpoints ---------------------------------------------------------------- */
static struct xcm_attr_map *nb_attrs(void)
{
    struct xcm_attr_map *attrs = xcm_attr_map_create();
    xcm_attr_map_add_bool(attrs, "xcm.blocking", false);
    if (is_stream)
	xcm_attr_map_add_str(attrs, "xcm.service", "bytestream");
    return attrs;
}

static bool conn_err(int e)
{
    return e != EAGAIN && e != EINTR;
}

/* xcm_finish on an endpoint, recording the state */
static void do_finish(struct end *e)
{
    if (e->s == NULL || !e->open || e->fin == 2)
	return;
    int rc = xcm_finish(e->s);
    if (rc == 0)
	e->fin = 0;
    else if (errno == EAGAIN)
	e->fin = 1;
    else {
	e->fin = 2;
	e->finerr = errno;
	e->sfail = 1;
    }
}

/* what a live application does when idle: finish outstanding work on sockets that have some */
static void progress_all(void)
{
    for (int k = 1; k <= MAXK; k++)
	for (int x = 0; x < 2; x++)
	    if (used[k] && E[k][x].open && E[k][x].fin == 1)
		do_finish(&E[k][x]);
}

static void end_reset(struct end *e)
{
    free(e->len);
    memset(e, 0, sizeof(*e));
}

/* con1 <k>: only the client's half: it connects to the relay, which then connects to the server; the server
   application does not accept yet (con <k> completes the connection later).  Traffic of the other relayed connections
   must keep flowing meanwhile: the relay serves its connections independently */
static struct xcm_socket *pending_c[MAXK + 1];

static void do_con1(int k)
{
    if (k < 1 || k > MAXK || used[k] || pending_c[k])
	die("line con1 %d", k);
    struct xcm_attr_map *attrs = nb_attrs();
    pending_c[k] = xcm_connect_a(saddr, attrs);
    xcm_attr_map_destroy(attrs);
    for (int i = 0; i < 20 && pending_c[k]; i++) {
	if (xcm_finish(pending_c[k]) < 0 && conn_err(errno)) {
	    xcm_close(pending_c[k]);
	    pending_c[k] = NULL;
	}
	nap(2000);
    }
}

static void do_con(int k)
{
    if (k < 1 || k > MAXK || used[k])
	die("line con %d", k);
    struct xcm_attr_map *attrs = nb_attrs();
    double t0 = now_ms();
    double limit = relay_ready ? 15000 : 30000;
    struct xcm_socket *c = pending_c[k], *s = NULL;
    pending_c[k] = NULL;
    int err = 0;
    for (;;) {
	if (c == NULL) {
	    c = xcm_connect_a(saddr, attrs);
	    if (c == NULL) {
		err = errno;
		relay_poll();
		if (relay_ready || relay_gone || now_ms() - t0 > limit)
		    break;
		nap(5000);
		continue;
	    }
	}
	if (s == NULL)
	    s = xcm_accept_a(ssock, attrs);
	int fc = xcm_finish(c);
	if (fc < 0 && conn_err(errno)) {
	    err = errno;
	    xcm_close(c);
	    c = NULL;
	    relay_poll();
	    if (relay_ready || relay_gone || now_ms() - t0 > limit)
		break;
	    nap(5000);
	    continue;
	}
	int fs = -1;
	if (s != NULL) {
	    fs = xcm_finish(s);
	    if (fs < 0 && conn_err(errno)) {
		err = errno;
		break;
	    }
	}
	if (fc == 0 && fs == 0) {
	    err = 0;
	    break;
	}
	if (now_ms() - t0 > limit) {
	    err = ETIMEDOUT;
	    break;
	}
	nap(200);
    }
    xcm_attr_map_destroy(attrs);
    bool ok = c != NULL && s != NULL && err == 0;
    if (!ok) {
	if (c != NULL)
	    xcm_close(c);
	if (s != NULL)
	    xcm_close(s);
	emit((struct rec){ .ev = "con", .k = k, .res = "fail", .err = err, .w = (int)(now_ms() - t0) });
	emit_rly("chk");
	return;
    }
    relay_ready = 1;
    used[k] = 1;
    end_reset(&E[k][0]);
    end_reset(&E[k][1]);
    E[k][0].s = c; E[k][0].open = 1;
    E[k][1].s = s; E[k][1].open = 1;
    emit((struct rec){ .ev = "con", .k = k, .res = "ok", .w = (int)(now_ms() - t0) });
}

static int next_size(struct end *e)
{
    int s = sizes[e->szi % nsizes];
    return s;
}

static void note_len(struct end *e, long idx, int len)
{
    if (idx >= e->lencap) {
	e->lencap = idx * 2 + 64;
	e->len = realloc(e->len, e->lencap * sizeof(int));
    }
    e->len[idx] = len;
}

static long inflight(int k, int x)
{
    return E[k][x].accb - E[k][1 - x].gotb;
}

static long level_bytes(int x, int permille)
{
    long t = T[x] > 0 ? T[x] : 4000000;
    return (long)((double)t * permille / 1000.0);
}

/* send step; mode 0: level (permille), 1: count (send calls) */
static void do_snd(int k, int x, int mode, long val)
{
    struct end *e = &E[k][x];
    if (!used[k] || !e->open || e->sfail || e->term)
	return;
    long a = e->acc + 1, c = 0, by = 0, calls = 0, refused = 0;
    const char *res = "ok";
    int err = 0, stall = 0;
    long target = mode == 0 ? level_bytes(x, (int)val) : 0;
    bool tofull = mode == 0 && val >= 1000;
    for (long i = 0; i < MAXFILL; i++) {
	if (mode == 1 && calls >= val)
	    break;
	if (mode == 0 && !tofull && calls > 0 && inflight(k, x) >= target)
	    break;
	int len = next_size(e);
	int rc;
	if (is_stream) {
	    if (len > MAXCHUNK)
		len = MAXCHUNK;
	    if (len < 1)
		len = 1;
	    gen_stream(sbuf, k, x, e->acc, len);
	    rc = xcm_send(e->s, sbuf, len);
	    if (rc > 0) {
		e->acc += rc; e->accb += rc; c += rc; by += rc;
	    } else if (rc == 0) {
		rc = -1;
		errno = EAGAIN;
	    }
	} else {
	    if (len > MAXMSG)
		len = MAXMSG;
	    if (len < 1)
		len = 1;
	    long idx = e->acc + 1;
	    note_len(e, idx, len);
	    e->natt = idx;
	    gen_msg(sbuf, k, x, idx, len);
	    rc = xcm_send(e->s, sbuf, len);
	    if (rc == 0) {
		e->acc++; e->accb += len; c++; by += len;
	    }
	}
	if (rc < 0) {
	    err = errno;
	    if (err == EAGAIN || err == EINTR) {
		refused = is_stream ? len : 1;
		/* the leg towards the relay is full right now; the pipeline is full only if that persists
		   (the relay may simply not have been scheduled yet; with nobody reading, full stays full) */
		if (++stall > 15) {
		    res = "again";
		    err = EAGAIN;
		    break;
		}
		nap(2000);
		if (e->fin == 1)
		    do_finish(e);
		if (e->fin == 2) {
		    res = "err";
		    err = e->finerr;
		    break;
		}
		err = 0;
		continue;
	    }
	    res = "err";
	    e->sfail = 1;
	    break;
	}
	stall = 0;
	refused = 0;
	calls++;
	e->szi++;
	e->fin = 1;	/* something may be buffered: ask */
    }
    do_finish(e);
    if (e->fin == 2 && strcmp(res, "err") != 0) {
	res = "err";
	err = e->finerr;
    }
    if (tofull && strcmp(res, "again") == 0) {
	long f = inflight(k, x);
	if (f > T[x])
	    T[x] = f;
    }
    /* bl: units offered in the last call if that call was refused (a transport may already have captured them) */
    emit((struct rec){ .ev = "snd", .k = k, .ep = x + 1, .a = a, .c = c, .by = by, .res = res, .err = err, .fin = e->fin,
		       .bl = refused });
}

/* identify a received message of sender (k, sx): returns index (0: unknown); *intact, *full length */
static long identify(int k, int sx, const unsigned char *b, int rc, long expect, int *cls, long *fl)
{
    struct end *snd = &E[k][sx];
    /* expected next? */
    long cand[3] = { expect, 0, 0 };
    for (int pass = 0; pass < 2; pass++) {
	long lo = pass == 0 ? expect : 1, hi = pass == 0 ? expect : snd->natt;
	for (long i = lo; i <= hi; i++) {
	    if (i < 1 || i > snd->natt)
		continue;
	    if (pass == 1 && i == expect)
		continue;
	    int li = snd->len[i];
	    int n = rc < li ? rc : li;
	    gen_msg(ebuf, k, sx, i, n);
	    if (memcmp(ebuf, b, n) == 0 && (n >= 4 || (rc == li))) {
		*fl = li;
		*cls = rc == li ? 0 : rc < li ? 4 : 3;	/* 0 intact, 4 truncated, 3 corrupt (too long) */
		return i;
	    }
	    /* same head, damaged later? */
	    int hn = n < 16 ? n : 16;
	    if (hn >= 8 && memcmp(ebuf, b, hn) == 0) {
		*fl = li;
		*cls = 3;
		return i;
	    }
	}
    }
    (void)cand;
    *fl = 0;
    *cls = 5;	/* alien */
    return 0;
}

struct run { int k, x; long a, c, by; bool any; };

static void run_flush(struct run *r, const char *res, int err, int w)
{
    struct end *e = &E[r->k][r->x];
    emit((struct rec){ .ev = "rcv", .k = r->k, .ep = r->x + 1, .a = r->a, .c = r->c, .by = r->by, .res = res, .err = err,
		       .fin = e->fin, .w = w });
    r->a = e->got + 1;
    r->c = 0;
    r->by = 0;
}

/* one receive attempt on (k, x); returns 1 unit(s) received, 0 nothing now, -1 end shown */
static int recv_once(int k, int x, struct run *r)
{
    struct end *e = &E[k][x];
    int sx = 1 - x;
    int cap = is_stream ? MAXCHUNK : MAXMSG;
    memset(rbuf + cap, 0xA5, GUARD);
    if (e->fin == 1)
	do_finish(e);
    int rc = xcm_receive(e->s, rbuf, cap);
    if (rc < 0) {
	if (errno == EAGAIN || errno == EINTR)
	    return 0;
	int err = errno;
	e->term = 1;
	run_flush(r, "err", err, 0);
	return -1;
    }
    if (rc == 0) {
	e->term = 1;
	run_flush(r, "eof", 0, 0);
	return -1;
    }
    bool over = false;
    for (int j = 0; j < GUARD; j++)
	if (rbuf[cap + j] != 0xA5)
	    over = true;
    if (is_stream) {
	gen_stream(ebuf, k, sx, e->got, rc);
	if (memcmp(ebuf, rbuf, rc) == 0 && !over) {
	    if (r->c == 0)
		r->a = e->got + 1;
	    e->got += rc; e->gotb += rc; r->c += rc; r->by += rc;
	    return 1;
	}
	/* where does it differ, and is it the stream at another position? */
	long first = 0;
	while (first < rc && ebuf[first] == rbuf[first])
	    first++;
	if (r->c > 0)
	    run_flush(r, "brk", 0, 0);
	emit((struct rec){ .ev = "rcv", .k = k, .ep = x + 1, .a = e->got + 1, .c = 0, .res = "bad", .bad = over ? 6 : 3,
			   .bi = e->got + first + 1, .bl = rc, .fl = first, .fin = e->fin });
	e->got += rc; e->gotb += rc;
	r->a = e->got + 1;
	return 1;
    }
    int cls = 0;
    long fl = 0;
    long idx = identify(k, sx, rbuf, rc, e->got + 1, &cls, &fl);
    e->gotb += rc;
    if (cls == 0 && !over && idx == r->a + r->c) {
	r->c++; r->by += rc;
	if (idx > e->got)
	    e->got = idx;
	return 1;
    }
    if (r->c > 0)
	run_flush(r, "brk", 0, 0);
    if (cls == 0 && !over) {
	/* intact but not the next one: a new run starts here */
	r->a = idx; r->c = 1; r->by = rc;
	if (idx > e->got)
	    e->got = idx;
	return 1;
    }
    emit((struct rec){ .ev = "rcv", .k = k, .ep = x + 1, .a = idx, .c = 0, .res = "bad", .bad = over ? 6 : cls, .bi = idx,
		       .bl = rc, .fl = fl, .fin = e->fin });
    if (idx > e->got)
	e->got = idx;
    r->a = e->got + 1;
    return 1;
}

/* receive step; mode 0 level, 1 count, 2 all, 3 end */
static void do_rcv(int k, int x, int mode, long val)
{
    struct end *e = &E[k][x];
    struct end *o = &E[k][1 - x];
    if (!used[k] || !e->open || e->term)
	return;
    struct run r = { .k = k, .x = x, .a = e->got + 1 };
    long target = mode == 0 ? level_bytes(1 - x, (int)val) : 0;
    long n = 0;
    double last = now_ms();
    for (;;) {
	bool owed = o->acc > e->got;
	bool done = false;
	if (mode == 0)
	    done = n > 0 && (inflight(k, 1 - x) <= target || !owed);
	else if (mode == 1)
	    done = n >= val;
	else if (mode == 2)
	    done = !owed;
	if (mode != 3 && !owed && n == 0 && mode != 1)
	    done = true;
	if (mode == 1 && !owed)
	    done = true;
	if (done)
	    break;
	int rc = recv_once(k, x, &r);
	if (rc < 0)
	    return;	/* the end was shown (event emitted) */
	if (rc > 0) {
	    n++;
	    last = now_ms();
	    /* a slow reader, for a bounded while: a TCP leg whose receiver keeps the window shut for
	       tcp.user_timeout (3 s by default in XCM) is aborted by the kernel - the environment, not the relay */
	    if (pace_us > 0 && n <= 150)
		nap(pace_us);
	    continue;
	}
	progress_all();
	double w = now_ms() - last;
	if (w > limit_ms) {
	    relay_poll();
	    run_flush(&r, "to", 0, (int)w);
	    emit_rly("chk");
	    return;
	}
	nap(w < 20 ? 100 : 500);
    }
    run_flush(&r, "ok", 0, 0);
}

static void do_cls(int k, int x)
{
    struct end *e = &E[k][x];
    struct end *o = &E[k][1 - x];
    if (!used[k] || !e->open)
	return;
    /* flush; while the flush is refused (back-pressure) the other side reads, one unit at a time */
    struct run r = { .k = k, .x = 1 - x, .a = o->got + 1 };
    double t0 = now_ms();
    long assisted = 0;
    do_finish(e);
    while (e->fin == 1 && now_ms() - t0 < 3000) {
	if (o->open && !o->term) {
	    int rc = recv_once(k, 1 - x, &r);
	    if (rc > 0)
		assisted++;
	    if (rc < 0)
		r.c = 0, assisted = -1;
	}
	nap(200);
	do_finish(e);
	if (assisted < 0)
	    break;
    }
    if (assisted > 0 && r.c > 0)
	run_flush(&r, "ok", 0, 0);
    /* an application reads what has arrived before it closes: also consumes protocol records that carry no
       application data (TLS 1.3 session tickets); closing a socket with anything unread in the kernel is a
       reset that discards the closer's own unsent data - at the closer, whatever sits in between */
    if (!e->term) {
	struct run own = { .k = k, .x = x, .a = e->got + 1 };
	int rc = 1;
	for (int i = 0; i < 64 && rc > 0; i++)
	    rc = recv_once(k, x, &own);
	if (rc >= 0 && own.c > 0)
	    run_flush(&own, "ok", 0, 0);
    }
    /* everything the other side had accepted so far was read by this side? (a close with unread
       data is a reset, not an orderly close) */
    int unread = o->acc > e->got ? 1 : 0;
    int fin = e->fin, ferr = e->finerr;
    xcm_close(e->s);
    e->s = NULL;
    e->open = 0;
    emit((struct rec){ .ev = "cls", .k = k, .ep = x + 1, .a = e->acc, .c = assisted > 0 ? assisted : 0, .fin = fin, .err = ferr,
		       .bad = unread, .res = "ok" });
}

static void end_exec(void)
{
    for (int k = 1; k <= MAXK; k++) {
	if (pending_c[k] != NULL) {
	    xcm_close(pending_c[k]);
	    pending_c[k] = NULL;
	}
	if (!used[k])
	    continue;
	for (int x = 0; x < 2; x++) {
	    if (E[k][x].s != NULL)
		xcm_close(E[k][x].s);
	    end_reset(&E[k][x]);
	}
	used[k] = 0;
    }
    emit_rly("end");
}

static int side_of(const char *s)
{
    if (strcmp(s, "c") == 0)
	return 0;
    if (strcmp(s, "s") == 0)
	return 1;
    die("bad side %s", s);
    return 0;
}

int main(int argc, char **argv)
{
    if (argc < 3) {
	fprintf(stderr, "usage: relay_exec <script> <trace>\n");
	return 2;
    }
    signal(SIGPIPE, SIG_IGN);
    FILE *in = fopen(argv[1], "r");
    out = fopen(argv[2], "w");
    if (in == NULL || out == NULL)
	die("cannot open %s / %s", argv[1], argv[2]);
    sbuf = malloc(MAXCHUNK + GUARD);
    rbuf = malloc(MAXCHUNK + GUARD);
    ebuf = malloc(MAXCHUNK + GUARD);
    sizes[0] = 1000;
    char line[4096];
    while (fgets(line, sizeof(line), in) != NULL) {
	char *tok[80];
	int nt = 0;
	for (char *p = strtok(line, " \t\r\n"); p != NULL && nt < 80; p = strtok(NULL, " \t\r\n"))
	    tok[nt++] = p;
	if (nt == 0 || tok[0][0] == '#')
	    continue;
	const char *op = tok[0];
	/* the relay is gone although nobody asked it to stop: record it and give up the batch */
	relay_poll();
	if (relay_pid > 0 && relay_gone && !relay_stopping) {
	    emit_rly("dead");
	    break;
	}
	if (strcmp(op, "relay") == 0 && nt == 2)
	    snprintf(relay_bin, sizeof(relay_bin), "%s", tok[1]);
	else if (strcmp(op, "saddr") == 0 && nt == 2)
	    snprintf(saddr, sizeof(saddr), "%s", tok[1]);
	else if (strcmp(op, "caddr") == 0 && nt == 2)
	    snprintf(caddr, sizeof(caddr), "%s", tok[1]);
	else if (strcmp(op, "rout") == 0 && nt == 2)
	    snprintf(rout, sizeof(rout), "%s", tok[1]);
	else if (strcmp(op, "stream") == 0 && nt == 2)
	    is_stream = atoi(tok[1]);
	else if (strcmp(op, "tag") == 0 && nt == 2)
	    tag = atoi(tok[1]);
	else if (strcmp(op, "limit") == 0 && nt == 2)
	    limit_ms = atoi(tok[1]);
	else if (strcmp(op, "start") == 0)
	    relay_start();
	else if (strcmp(op, "X") == 0 && nt == 2) {
	    xid = atoi(tok[1]);
	    lineno = 0;
	    x_t0 = now_ms();
	    pace_us = 0;
	    emit((struct rec){ .ev = "rst", .res = "" });
	} else if (strcmp(op, "sizes") == 0 && nt >= 3) {
	    nsizes = atoi(tok[1]);
	    if (nsizes < 1 || nsizes > 64 || nt < 2 + nsizes)
		die("bad sizes line");
	    for (int i = 0; i < nsizes; i++)
		sizes[i] = atoi(tok[2 + i]);
	} else if (strcmp(op, "pace") == 0 && nt == 2)
	    pace_us = atoi(tok[1]);
	else if (strcmp(op, "con") == 0 && nt == 2)
	    do_con(atoi(tok[1]));
	else if (strcmp(op, "con1") == 0 && nt == 2)
	    do_con1(atoi(tok[1]));
	else if (strcmp(op, "snd") == 0 && nt == 5) {
	    int k = atoi(tok[1]), x = side_of(tok[2]);
	    if (k < 1 || k > MAXK)
		die("bad k");
	    do_snd(k, x, strcmp(tok[3], "lv") == 0 ? 0 : 1, atol(tok[4]));
	} else if (strcmp(op, "rcv") == 0 && nt >= 4) {
	    int k = atoi(tok[1]), x = side_of(tok[2]);
	    if (k < 1 || k > MAXK)
		die("bad k");
	    int mode = strcmp(tok[3], "lv") == 0 ? 0 : strcmp(tok[3], "n") == 0 ? 1 : strcmp(tok[3], "all") == 0 ? 2 : 3;
	    do_rcv(k, x, mode, nt >= 5 ? atol(tok[4]) : 0);
	} else if (strcmp(op, "cls") == 0 && nt == 3) {
	    int k = atoi(tok[1]);
	    if (k < 1 || k > MAXK)
		die("bad k");
	    do_cls(k, side_of(tok[2]));
	} else if (strcmp(op, "rly") == 0)
	    emit_rly("chk");
	else if (strcmp(op, "slp") == 0 && nt == 2)
	    nap(atoi(tok[1]) * 1000);
	else if (strcmp(op, "E") == 0)
	    end_exec();
	else if (strcmp(op, "stop") == 0)
	    relay_stop();
	else
	    die("bad script line: %s", op);
    }
    if (relay_pid > 0 && !relay_gone) {
	kill(relay_pid, SIGKILL);
	waitpid(relay_pid, NULL, 0);
    }
    if (ssock != NULL)
	xcm_close(ssock);
    fclose(out);
    return 0;
}
