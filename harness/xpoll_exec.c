/*
 * xpoll_exec <script> <trace>: drives the real libxcm/core/xpoll.c (with the real active_fd.c underneath) through
 * the call sequences of spec/XPoll.tla and records, per call, what spec/XPollTrace.tla compares with the model:
 *   ret    the id returned
 *   sys    the epoll_ctl calls made inside the call (link-time wrap), and active_fd_get / active_fd_put as seen by
 *          the library's own observation points (verif.h), in order: [name, descriptor slot, mask, succeeded]
 *   ker    the interest list of the epoll instance as the kernel reports it (/proc/self/fdinfo/<epoll fd>)
 *   rd     whether the epoll descriptor polls readable
 *   users  active_fd users held (gets - puts)
 * Descriptors are named by slot: 0 = the always-active eventfd, 1.. = the user descriptors (eventfds, always
 * writable, readable while their counter is non-zero).
 *
 * script:  X <id> | fa <slot> <mask> | fm <id> <mask> | fd <id> | ba 0 <ring> | bm <id> <ring> | bd <id> |
 *          cl <slot> | rd <slot> <0|1> | E
 */
#include <errno.h>
#include <fcntl.h>
#include <sys/resource.h>
#include <poll.h>
#include <setjmp.h>
#include <signal.h>
#include <stdbool.h>
#include <stdint.h>
#include <stdio.h>
#include <stdlib.h>
#include <string.h>
#include <sys/epoll.h>
#include <sys/eventfd.h>
#include <unistd.h>

#include "xpoll.h"
#include "verif.h"

#define NSLOT 8
static int ufd[NSLOT];		/* open user descriptor of a slot, -1 = none */
static int unum[NSLOT];		/* its number, kept after a close for as long as the registration may mention it */
static int afd = -1;
static long ngets, nputs;
static int epfd = -1;

static struct { const char *op; int slot, ev, ok; } sys[64];
static int nsys;
static bool in_call;

static int slot_of(int fd)
{
    if (fd == afd)
	return 0;
    for (int i = 1; i < NSLOT; i++)
	if (ufd[i] == fd)
	    return i;
    for (int i = 1; i < NSLOT; i++)
	if (unum[i] == fd)
	    return i;
    return -fd - 100;
}

static void rec(const char *op, int slot, int ev, int ok)
{
    if (nsys < 64) {
	sys[nsys].op = op;
	sys[nsys].slot = slot;
	sys[nsys].ev = ev;
	sys[nsys].ok = ok;
	nsys++;
    }
}

int __real_epoll_ctl(int epfd, int op, int fd, struct epoll_event *event);
int __wrap_epoll_ctl(int ep, int op, int fd, struct epoll_event *event)
{
    int rc = __real_epoll_ctl(ep, op, fd, event);
    int e = errno;
    if (in_call)
	rec(op == EPOLL_CTL_ADD ? "ADD" : op == EPOLL_CTL_MOD ? "MOD" : "DEL", slot_of(fd),
	    event ? (int)(event->events & (EPOLLIN | EPOLLOUT)) : 0, rc == 0);
    errno = e;
    return rc;
}

static void on_ev(const char *ev, long a, long b, long c)
{
    (void)b; (void)c;
    if (strcmp(ev, "afd_new") == 0 || strcmp(ev, "afd_get") == 0) {
	afd = (int)a;
	ngets++;
	rec("afd_get", 0, 0, 1);
    } else if (strcmp(ev, "afd_put") == 0) {
	nputs++;
	rec("afd_put", 0, 0, 1);
    } else if (strcmp(ev, "afd_close") == 0 && (int)a == afd)
	afd = -1;
}

static sigjmp_buf jb;
static void on_abort(int sig)
{
    (void)sig;
    siglongjmp(jb, 1);
}

static FILE *out;
static long xid, stepno;

static void emit(const char *o, int a, int b, long ret, int crash)
{
    stepno++;
    fprintf(out, "{\"x\":%ld,\"n\":%ld,\"op\":[\"%s\",%d,%d],\"ret\":%ld,\"sys\":[", xid, stepno, o, a, b, ret);
    for (int i = 0; i < nsys; i++)
	fprintf(out, "%s[\"%s\",%d,%d,%d]", i ? "," : "", sys[i].op, sys[i].slot, sys[i].ev, sys[i].ok);
    fprintf(out, "],\"ker\":[");
    int rd = 0;
    if (epfd >= 0 && !crash) {
	char p[64], line[256];
	snprintf(p, sizeof(p), "/proc/self/fdinfo/%d", epfd);
	FILE *f = fopen(p, "r");
	int k = 0;
	while (f && fgets(line, sizeof(line), f)) {
	    int tfd;
	    unsigned ev;
	    if (sscanf(line, "tfd: %d events: %x", &tfd, &ev) == 2)
		fprintf(out, "%s[%d,%u]", k++ ? "," : "", slot_of(tfd), ev & (EPOLLIN | EPOLLOUT));
	}
	if (f)
	    fclose(f);
	struct pollfd pf = { .fd = epfd, .events = POLLIN };
	rd = poll(&pf, 1, 0) > 0 && (pf.revents & POLLIN);
    }
    fprintf(out, "],\"rd\":%d,\"users\":%ld,\"crash\":%d}\n", rd, ngets - nputs, crash);
}

int main(int argc, char **argv)
{
    if (argc < 3)
	return 2;
    FILE *in = fopen(argv[1], "r");
    out = fopen(argv[2], "w");
    if (!in || !out)
	return 2;
    setvbuf(out, NULL, _IOLBF, 0);
    xcm_verif_cb = on_ev;
    struct rlimit rl = { 1 << 20, 1 << 20 };
    setrlimit(RLIMIT_NOFILE, &rl);	/* descriptor numbers are never re-used within a run */
    signal(SIGABRT, on_abort);
    for (int i = 0; i < NSLOT; i++)
	ufd[i] = unum[i] = -1;
    struct xpoll *xp = NULL;
    bool skip = false;
    char line[256];
    while (fgets(line, sizeof(line), in)) {
	char o[16];
	int a = 0, b = 0;
	if (sscanf(line, "%15s %d %d", o, &a, &b) < 1)
	    continue;
	nsys = 0;
	if (strcmp(o, "X") == 0) {
	    xid = a;
	    stepno = -1;
	    skip = false;
	    xp = xpoll_create(NULL);
	    epfd = xp ? xpoll_get_fd(xp) : -1;
	    ngets = nputs = 0;
	    afd = -1;
	    emit("X", 0, 0, 0, 0);
	    continue;
	}
	if (skip || xp == NULL)
	    continue;
	if (strcmp(o, "E") == 0) {
	    if (sigsetjmp(jb, 1) == 0) {
		in_call = true;
		xpoll_destroy(xp);
		in_call = false;
		epfd = -1;
		emit("E", 0, 0, 0, 0);
	    } else {
		in_call = false;
		emit("E", 0, 0, 0, 1);
	    }
	    xp = NULL;
	    for (int i = 1; i < NSLOT; i++) {
		if (ufd[i] >= 0)
		    close(ufd[i]);
		ufd[i] = unum[i] = -1;
	    }
	    continue;
	}
	long ret = 0;
	if (strcmp(o, "cl") == 0) {
	    if (a > 0 && a < NSLOT && ufd[a] >= 0) {
		close(ufd[a]);
		ufd[a] = -1;		/* unum[a] still names it */
	    }
	    emit(o, a, b, 0, 0);
	    continue;
	}
	if (strcmp(o, "rd") == 0) {
	    if (a > 0 && a < NSLOT && ufd[a] >= 0) {
		uint64_t v = 1;
		if (b)
		    (void)!write(ufd[a], &v, sizeof(v));
		else
		    (void)!read(ufd[a], &v, sizeof(v));
	    }
	    emit(o, a, b, 0, 0);
	    continue;
	}
	if (sigsetjmp(jb, 1) != 0) {
	    in_call = false;
	    emit(o, a, b, -1, 1);
	    skip = true;	/* the instance is in an unknown state: this execution ends here */
	    continue;
	}
	in_call = true;
	if (strcmp(o, "fa") == 0) {
	    if (a > 0 && a < NSLOT) {
		if (ufd[a] < 0) {
		    /* a number never used before: a registration left behind by "cl" still names the old one, and
		       registering a re-used number under it would be the caller's mistake, not xpoll's */
		    static int next_num = 400;
		    int t = eventfd(0, EFD_NONBLOCK);
		    ufd[a] = fcntl(t, F_DUPFD, next_num);
		    close(t);
		    next_num = ufd[a] + 1;
		    unum[a] = ufd[a];
		}
		ret = xpoll_fd_reg_add(xp, ufd[a], b);
	    }
	} else if (strcmp(o, "fm") == 0)
	    xpoll_fd_reg_mod(xp, a, b);
	else if (strcmp(o, "fd") == 0)
	    xpoll_fd_reg_del(xp, a);
	else if (strcmp(o, "ba") == 0)
	    ret = xpoll_bell_reg_add(xp, b != 0);
	else if (strcmp(o, "bm") == 0)
	    xpoll_bell_reg_mod(xp, a, b != 0);
	else if (strcmp(o, "bd") == 0)
	    xpoll_bell_reg_del(xp, a);
	in_call = false;
	emit(o, a, b, ret, 0);
    }
    fclose(out);
    return 0;
}
