/* attr_exec: executes attribute vectors (C10) and attribute life paths (C11) that TLC enumerated from
 * spec/AttrMC.tla against the real library and records what happened; spec/AttrTrace.tla is the oracle.
 * The harness never judges.
 *
 * usage: attr_exec <script> <out.ndjson>
 *
 * Vector scripts (C10):
 *   sit <sid> <kind> <tp> <life>          socket situation for the following vectors
 *   g <id> <name> <ic> <acc> <cc>         read: name = template | hex:<bytes>; ic = index class 0|l|n|-;
 *                                         acc = accessor; cc = capacity class 0|1|sz-1|sz|sz+1|8|4096
 *   s <id> <name> <ic> <ty> <lc> <vc>     write: type number, length class, value class
 * Path scripts (C11):
 *   P <x> <tp>  ... steps ...  E          one behaviour; steps: c S A t T b o e p (see run_step)
 *
 * Every read is executed three times: twice into a canary-framed buffer with two different fill patterns
 * (the extent of the bytes written is the union of what changed) and - when the frame stayed intact - once
 * into a heap block of exactly `capacity` bytes so that AddressSanitizer sees any access beyond it.
 * Values passed to xcm_attr_set live in heap blocks of exactly their length.
 */
#include "shim.h"
#include "xcm.h"
#include "xcm_addr.h"
#include "xcm_attr.h"
#include "xcm_attr_map.h"

#include <arpa/inet.h>
#include <ctype.h>
#include <errno.h>
#include <fcntl.h>
#include <netinet/in.h>
#include <netinet/tcp.h>
#include <poll.h>
#include <signal.h>
#include <stdarg.h>
#include <stdint.h>
#include <stdio.h>
#include <stdlib.h>
#include <string.h>
#include <sys/socket.h>
#include <sys/stat.h>
#include <sys/time.h>
#include <time.h>
#include <unistd.h>

/* the link rule wraps these internal seams for conn_exec; here they pass through */
struct xcm_socket;
int __real_xcm_tp_socket_send(struct xcm_socket *s, const void *buf, size_t len);
int __real_xcm_tp_socket_receive(struct xcm_socket *s, void *buf, size_t cap);
int __real_xcm_tp_socket_finish(struct xcm_socket *s);
int __wrap_xcm_tp_socket_send(struct xcm_socket *s, const void *buf, size_t len) { return __real_xcm_tp_socket_send(s, buf, len); }
int __wrap_xcm_tp_socket_receive(struct xcm_socket *s, void *buf, size_t cap) { return __real_xcm_tp_socket_receive(s, buf, cap); }
int __wrap_xcm_tp_socket_finish(struct xcm_socket *s) { return __real_xcm_tp_socket_finish(s); }

#define PRE 64
#define POST 20480
#define BIG 65536
#define EXIT_USAGE 2
#define EXIT_UNSETTLED 4

static FILE *out;
static unsigned watchdog;	/* seconds per step (VERIF_ALARM); a step that takes longer kills the run: the orchestrator
				   repeats it alone and without the watchdog before it draws any conclusion */
static char rundir[512];
static int seq;
static char *pem_cert, *pem_key, *pem_tc;
static char cert_dir[512];

static void die(const char *fmt, ...)
{
    va_list ap;
    va_start(ap, fmt);
    fprintf(stderr, "attr_exec: ");
    vfprintf(stderr, fmt, ap);
    fprintf(stderr, "\n");
    va_end(ap);
    exit(EXIT_USAGE);
}

static double now(void)
{
    struct timespec ts;
    clock_gettime(CLOCK_MONOTONIC, &ts);
    return ts.tv_sec + ts.tv_nsec / 1e9;
}

static void nap(long us)
{
    struct timespec ts = { us / 1000000, (us % 1000000) * 1000 };
    nanosleep(&ts, NULL);
}

static char *slurp(const char *dir, const char *name)
{
    char p[1024];
    snprintf(p, sizeof(p), "%s/%s", dir, name);
    FILE *f = fopen(p, "r");
    if (!f)
	die("cannot read %s", p);
    char *b = malloc(BIG);
    size_t n = fread(b, 1, BIG - 1, f);
    b[n] = 0;
    fclose(f);
    return b;
}

static int hexval(int c)
{
    return c <= '9' ? c - '0' : (c | 32) - 'a' + 10;
}

static void put_bytes(FILE *f, const unsigned char *b, size_t n)
{
    fputc('[', f);
    for (size_t i = 0; i < n; i++)
	fprintf(f, i ? ",%u" : "%u", b[i]);
    fputc(']', f);
}

static void put_str(FILE *f, const char *s)
{
    fputc('"', f);
    for (; *s; s++) {
	unsigned char c = (unsigned char)*s;
	if (c == '"' || c == '\\')
	    fprintf(f, "\\%c", c);
	else if (c < 32 || c > 126)
	    fprintf(f, "?");
	else
	    fputc(c, f);
    }
    fputc('"', f);
}

/* "[12]" -> "[]" */
static void normalise(const char *name, char *tn, size_t cap)
{
    size_t j = 0;
    for (size_t i = 0; name[i] && j + 2 < cap; i++) {
	tn[j++] = name[i];
	if (name[i] == '[') {
	    size_t k = i + 1;
	    while (isdigit((unsigned char)name[k]))
		k++;
	    if (name[k] == ']' && k > i + 1)
		i = k - 1;
	}
    }
    tn[j] = 0;
}

/* ---- library calls, each inside a shim context -------------------------------------- */
#define LIB(ctx, expr) (shim_enter(ctx), (expr))
#define LEAVE() shim_leave()

static struct xcm_socket *x_connect(int ctx, const char *addr, struct xcm_attr_map *m)
{
    shim_enter(ctx);
    errno = 0;
    struct xcm_socket *s = xcm_connect_a(addr, m);
    int e = errno;
    shim_leave();
    errno = e;
    return s;
}

static struct xcm_socket *x_server(int ctx, const char *addr, struct xcm_attr_map *m)
{
    shim_enter(ctx);
    errno = 0;
    struct xcm_socket *s = xcm_server_a(addr, m);
    int e = errno;
    shim_leave();
    errno = e;
    return s;
}

static struct xcm_socket *x_accept(int ctx, struct xcm_socket *srv, struct xcm_attr_map *m)
{
    shim_enter(ctx);
    errno = 0;
    struct xcm_socket *s = xcm_accept_a(srv, m);
    int e = errno;
    shim_leave();
    errno = e;
    return s;
}

static int x_finish(int ctx, struct xcm_socket *s)
{
    shim_enter(ctx);
    errno = 0;
    int rc = xcm_finish(s);
    int e = errno;
    shim_leave();
    errno = e;
    return rc;
}

static void x_close(int ctx, struct xcm_socket *s)
{
    if (s == NULL)
	return;
    shim_enter(ctx);
    xcm_close(s);
    shim_leave();
}

static void x_cleanup(int ctx, struct xcm_socket *s)
{
    if (s == NULL)
	return;
    shim_enter(ctx);
    xcm_cleanup(s);
    shim_leave();
}

static int x_receive(int ctx, struct xcm_socket *s, void *buf, size_t cap)
{
    shim_enter(ctx);
    errno = 0;
    int rc = xcm_receive(s, buf, cap);
    int e = errno;
    shim_leave();
    errno = e;
    return rc;
}

static int x_send(int ctx, struct xcm_socket *s, const void *buf, size_t len)
{
    shim_enter(ctx);
    errno = 0;
    int rc = xcm_send(s, buf, len);
    int e = errno;
    shim_leave();
    errno = e;
    return rc;
}

/* ---- endpoints ----------------------------------------------------------------------- */
struct world {
    char tp[16];
    int base;			/* shim contexts base+1 (server), base+2 (client), base+3 (accepted) */
    struct xcm_socket *srv, *cli, *acc;
    int lfd;			/* kernel listen descriptor while a connect is held */
    int filler;
    bool held;
    char srv_addr[256], cli_addr[256];
};

#define CTX_S(w) ((w)->base + 1)
#define CTX_C(w) ((w)->base + 2)
#define CTX_A(w) ((w)->base + 3)

static bool tp_is(const char *tp, const char *a) { return strcmp(tp, a) == 0; }
static bool tp_tcpfam(const char *tp) { return tp_is(tp, "tcp") || tp_is(tp, "tcp6") || tp_is(tp, "tls") || tp_is(tp, "utls") || tp_is(tp, "btcp") || tp_is(tp, "btls"); }
static bool tp_tlsfam(const char *tp) { return tp_is(tp, "tls") || tp_is(tp, "utls") || tp_is(tp, "btls"); }

/* what the server socket / the client address is called for a transport label and the kind of subject */
static void server_addr_for(const char *tp, const char *kind, char *buf, size_t cap)
{
    seq++;
    if (tp_is(tp, "ux"))
	snprintf(buf, cap, "ux:vfattr-%d-%d", (int)getpid(), seq);
    else if (tp_is(tp, "uxf"))
	snprintf(buf, cap, "uxf:%s/vfattr-%d-%d", rundir, (int)getpid(), seq);
    else if (tp_is(tp, "tcp6"))
	snprintf(buf, cap, "tcp:[::1]:0");
    else if (tp_is(tp, "utlsx"))
	snprintf(buf, cap, "utls:127.0.0.1:0");
    else if (tp_is(tp, "utls"))
	/* a UTLS connection over TLS: UTLS client to a TLS server, or TLS client to a UTLS server */
	snprintf(buf, cap, "%s:127.0.0.1:0", strcmp(kind, "conn") == 0 ? "tls" : "utls");
    else
	snprintf(buf, cap, "%s:127.0.0.1:0", tp);
}

static const char *client_proto_for(const char *tp, const char *kind)
{
    if (tp_is(tp, "tcp6"))
	return "tcp";
    if (tp_is(tp, "utlsx"))
	return "utls";
    if (tp_is(tp, "utls"))
	return strcmp(kind, "conn") == 0 ? "utls" : "tls";
    return tp;
}

static void client_addr_from(const char *tp, const char *kind, struct xcm_socket *srv, char *buf, size_t cap)
{
    const char *la = xcm_local_addr(srv);
    if (la == NULL)
	die("server socket without a local address");
    const char *colon = strchr(la, ':');
    snprintf(buf, cap, "%s%s", client_proto_for(tp, kind), colon);
}

static struct xcm_attr_map *base_map(const char *tp, bool conn_side)
{
    struct xcm_attr_map *m = xcm_attr_map_create();
    xcm_attr_map_add_bool(m, "xcm.blocking", false);
    if (tp_is(tp, "btcp") || tp_is(tp, "btls"))
	xcm_attr_map_add_str(m, "xcm.service", "any");	/* the default, "messaging", is refused by byte streams */
    if (conn_side && (tp_tlsfam(tp) || tp_is(tp, "utlsx"))) {
	/* connecting side: credentials by value, so that the binary attributes have values */
	xcm_attr_map_add_bin(m, "tls.cert", pem_cert, strlen(pem_cert));
	xcm_attr_map_add_bin(m, "tls.key", pem_key, strlen(pem_key));
	xcm_attr_map_add_bin(m, "tls.tc", pem_tc, strlen(pem_tc));
	/* ... and a list of acceptable peer names (those of the test certificate), so that the attribute has a
	   value before the handshake is over */
	xcm_attr_map_add_bool(m, "tls.verify_peer_name", true);
	xcm_attr_map_add_str(m, "tls.peer_names", "localhost:second.example");
    }
    if (conn_side && tp_tcpfam(tp))
	xcm_attr_map_add_double(m, "tcp.connect_timeout", 30.0);	/* a held connect must not time out */
    return m;
}

/* the kernel descriptor of the connection whose library calls ran in context ctx: the stream socket the
   library created there that has a peer.  Once found it stays the answer for as long as it is open (after a
   reset the kernel no longer reports a peer). */
#define MAXCTX 512
static int kfd_cache[MAXCTX];

static int conn_kfd(int ctx)
{
    int fds[16];
    int n = shim_find(ctx, SK_STREAM, fds, 16);
    for (int i = 0; i < n; i++) {
	struct sockaddr_storage ss;
	socklen_t sl = sizeof(ss);
	if (getpeername(fds[i], (struct sockaddr *)&ss, &sl) == 0 && ss.ss_family != AF_UNIX) {
	    if (ctx >= 0 && ctx < MAXCTX)
		kfd_cache[ctx] = fds[i] + 1;
	    return fds[i];
	}
    }
    if (ctx >= 0 && ctx < MAXCTX && kfd_cache[ctx] > 0) {
	int fd = kfd_cache[ctx] - 1;
	for (int i = 0; i < n; i++)
	    if (fds[i] == fd)
		return fd;
	kfd_cache[ctx] = 0;
    }
    return -1;
}

static void kfd_forget(int base)
{
    for (int c = base; c < base + 4 && c < MAXCTX; c++)
	kfd_cache[c] = 0;
}

static int listen_kfd(int ctx)
{
    int fds[8];
    int n = shim_find(ctx, SK_LISTEN, fds, 8);
    for (int i = 0; i < n; i++) {
	struct sockaddr_storage ss;
	socklen_t sl = sizeof(ss);
	if (getsockname(fds[i], (struct sockaddr *)&ss, &sl) == 0 && ss.ss_family != AF_UNIX)
	    return fds[i];
    }
    return -1;
}

/* occupy the single slot of a backlog-0 accept queue: further SYNs are dropped, connects stay pending */
static int hold_begin(struct world *w)
{
    w->lfd = listen_kfd(CTX_S(w));
    if (w->lfd < 0)
	return -1;
    if (listen(w->lfd, 0) < 0)
	return -1;
    struct sockaddr_storage ss;
    socklen_t sl = sizeof(ss);
    if (getsockname(w->lfd, (struct sockaddr *)&ss, &sl) < 0)
	return -1;
    w->filler = socket(ss.ss_family, SOCK_STREAM, 0);
    if (w->filler < 0)
	return -1;
    if (connect(w->filler, (struct sockaddr *)&ss, sl) < 0)
	return -1;
    w->held = true;
    return 0;
}

static void hold_release(struct world *w)
{
    if (!w->held)
	return;
    int fd = accept4(w->lfd, NULL, NULL, 0);
    if (fd >= 0)
	close(fd);
    close(w->filler);
    w->filler = -1;
    listen(w->lfd, 32);
    w->held = false;
}

static void world_init(struct world *w, const char *tp, int base)
{
    kfd_forget(base);
    memset(w, 0, sizeof(*w));
    snprintf(w->tp, sizeof(w->tp), "%s", tp);
    w->base = base;
    w->lfd = w->filler = -1;
}

static void world_close(struct world *w)
{
    if (w->held)
	hold_release(w);
    x_close(CTX_C(w), w->cli);
    x_close(CTX_A(w), w->acc);
    x_close(CTX_S(w), w->srv);
    w->cli = w->acc = w->srv = NULL;
    if (w->filler >= 0)
	close(w->filler);
    w->filler = -1;
}

/* run both ends until neither has work left; 0 = both ready */
static int pump(struct world *w, double limit)
{
    double t0 = now();
    for (;;) {
	int rc = 0, ra = 0;
	if (w->cli)
	    rc = x_finish(CTX_C(w), w->cli);
	int ec = errno;
	if (w->acc)
	    ra = x_finish(CTX_A(w), w->acc);
	int ea = errno;
	if (rc == 0 && ra == 0)
	    return 0;
	if ((rc < 0 && ec != EAGAIN) || (ra < 0 && ea != EAGAIN))
	    return -1;
	if (now() - t0 > limit)
	    return -2;
	nap(200);
    }
}

static struct xcm_socket *accept_wait(struct world *w, struct xcm_attr_map *m, double limit)
{
    double t0 = now();
    for (;;) {
	struct xcm_socket *a = x_accept(CTX_A(w), w->srv, m);
	if (a != NULL || errno != EAGAIN)
	    return a;
	/* a pending client may need to make progress first (it is connecting) */
	if (w->cli)
	    x_finish(CTX_C(w), w->cli);
	if (now() - t0 > limit) {
	    errno = EAGAIN;
	    return NULL;
	}
	nap(200);
    }
}

/* wait until the kernel has finished the TCP handshake of the client's descriptor */
static int wait_tcp_established(int ctx, double limit)
{
    double t0 = now();
    for (;;) {
	if (conn_kfd(ctx) >= 0)
	    return 0;
	if (now() - t0 > limit)
	    return -1;
	nap(200);
    }
}

/* ---- attribute snapshots --------------------------------------------------------------- */
struct aval {
    char name[160];
    int type;
    size_t len;
    unsigned char head[96];
    uint64_t hash;
};
struct snap {
    struct aval v[160];
    int n;
};

static void snap_cb(const char *name, enum xcm_attr_type type, void *value, size_t len, void *data)
{
    struct snap *s = data;
    if (s->n >= 160)
	return;
    struct aval *a = &s->v[s->n++];
    snprintf(a->name, sizeof(a->name), "%s", name);
    a->type = (int)type;
    a->len = len;
    memset(a->head, 0, sizeof(a->head));
    memcpy(a->head, value, len < sizeof(a->head) ? len : sizeof(a->head));
    uint64_t h = 1469598103934665603ULL;
    for (size_t i = 0; i < len; i++)
	h = (h ^ ((unsigned char *)value)[i]) * 1099511628211ULL;
    a->hash = h;
}

static void snap_take(int ctx, struct xcm_socket *s, struct snap *sn)
{
    sn->n = 0;
    shim_enter(ctx);
    xcm_attr_get_all(s, snap_cb, sn);
    shim_leave();
}

static const struct aval *snap_find(const struct snap *s, const char *name)
{
    for (int i = 0; i < s->n; i++)
	if (strcmp(s->v[i].name, name) == 0)
	    return &s->v[i];
    return NULL;
}

/* names (normalised) whose value differs between two snapshots, as a JSON list */
static void put_changes(FILE *f, const struct snap *a, const struct snap *b)
{
    int k = 0;
    fputc('[', f);
    for (int i = 0; i < a->n; i++) {
	const struct aval *o = snap_find(b, a->v[i].name);
	if (o == NULL || o->type != a->v[i].type || o->len != a->v[i].len || o->hash != a->v[i].hash) {
	    char tn[200];
	    normalise(a->v[i].name, tn, sizeof(tn));
	    if (k++ < 12) {
		if (k > 1)
		    fputc(',', f);
		put_str(f, tn);
	    }
	}
    }
    for (int i = 0; i < b->n; i++)
	if (snap_find(a, b->v[i].name) == NULL) {
	    char tn[200];
	    normalise(b->v[i].name, tn, sizeof(tn));
	    if (k++ < 12) {
		if (k > 1)
		    fputc(',', f);
		put_str(f, tn);
	    }
	}
    fputc(']', f);
}

static void kopt_get(int fd, long k[5])
{
    static const int lev[5] = { SOL_SOCKET, IPPROTO_TCP, IPPROTO_TCP, IPPROTO_TCP, IPPROTO_TCP };
    static const int opt[5] = { SO_KEEPALIVE, TCP_KEEPIDLE, TCP_KEEPINTVL, TCP_KEEPCNT, TCP_USER_TIMEOUT };
    for (int i = 0; i < 5; i++) {
	int v = -1;
	socklen_t l = sizeof(v);
	if (fd < 0 || getsockopt(fd, lev[i], opt[i], &v, &l) < 0)
	    v = -1;
	k[i] = v;
    }
}

/* ======================================================================================== */
/*                                    C10: vectors                                          */
/* ======================================================================================== */
static struct world W;		/* the current situation */
static struct xcm_socket *subj;	/* the socket the vectors are about */
static int subj_ctx;
static long sit_id;
static char sit_kind[16], sit_tp[16], sit_life[24];
static bool sit_dirty, sit_built;
static struct xcm_socket *pending[64];	/* clients waiting in the accept queue (fresh / acc) */
static int npending;

/* connections nobody took out of the server socket's accept queue(s) */
static void drain_accept_queue(int ctx)
{
    int fds[8];
    int n = shim_find(ctx, SK_LISTEN, fds, 8);
    for (int i = 0; i < n; i++)
	for (;;) {
	    struct pollfd pfd = { fds[i], POLLIN, 0 };
	    if (poll(&pfd, 1, 0) <= 0 || !(pfd.revents & POLLIN))
		break;
	    int fd = accept4(fds[i], NULL, NULL, SOCK_NONBLOCK);
	    if (fd < 0)
		break;
	    close(fd);
	}
}

static void drop_pending(void)
{
    for (int i = 0; i < npending; i++) {
	if (pending[i] == W.cli)
	    W.cli = NULL;
	x_close(CTX_C(&W), pending[i]);
    }
    npending = 0;
}

static void sit_teardown(void)
{
    drop_pending();
    if (sit_built)
	world_close(&W);
    subj = NULL;
    sit_built = false;
}

static void unsettled(const char *why)
{
    fprintf(stderr, "attr_exec: situation %s/%s/%s did not settle: %s\n", sit_kind, sit_tp, sit_life, why);
    fflush(out);
    exit(EXIT_UNSETTLED);
}

static void sit_build(void)
{
    sit_teardown();
    world_init(&W, sit_tp, 0);
    sit_built = true;
    sit_dirty = false;
    const char *tp = sit_tp, *kind = sit_kind, *life = sit_life;
    bool fresh = strcmp(life, "fresh") == 0;

    if (fresh && strcmp(kind, "server") == 0)
	return;		/* the vector itself creates the server socket */

    struct xcm_attr_map *sm = base_map(tp, false);
    server_addr_for(tp, kind, W.srv_addr, sizeof(W.srv_addr));
    W.srv = x_server(CTX_S(&W), W.srv_addr, sm);
    xcm_attr_map_destroy(sm);
    if (W.srv == NULL)
	die("xcm_server_a(%s) failed: %s", W.srv_addr, strerror(errno));
    client_addr_from(tp, kind, W.srv, W.cli_addr, sizeof(W.cli_addr));

    if (strcmp(kind, "server") == 0) {
	subj = W.srv;
	subj_ctx = CTX_S(&W);
	return;
    }
    if (fresh)
	return;

    bool want_conn = strcmp(kind, "conn") == 0;
    if (want_conn && strcmp(life, "connecting") == 0) {
	if (hold_begin(&W) < 0)
	    unsettled("cannot hold");
    }
    struct xcm_attr_map *cm = base_map(tp, true);
    W.cli = x_connect(CTX_C(&W), W.cli_addr, cm);
    xcm_attr_map_destroy(cm);
    if (W.cli == NULL)
	unsettled("xcm_connect_a failed");

    if (want_conn && strcmp(life, "connecting") == 0) {
	if (x_finish(CTX_C(&W), W.cli) == 0 || errno != EAGAIN)
	    unsettled("held connect completed");
	subj = W.cli;
	subj_ctx = CTX_C(&W);
	return;
    }
    if (want_conn && strcmp(life, "handshaking") == 0) {
	if (wait_tcp_established(CTX_C(&W), 2.0) < 0)
	    unsettled("TCP handshake");
	if (x_finish(CTX_C(&W), W.cli) == 0 || errno != EAGAIN)
	    unsettled("TLS handshake cannot have completed");
	subj = W.cli;
	subj_ctx = CTX_C(&W);
	return;
    }
    W.acc = accept_wait(&W, NULL, 3.0);
    if (W.acc == NULL)
	unsettled("xcm_accept");
    if (!want_conn && strcmp(life, "handshaking") == 0) {
	subj = W.acc;
	subj_ctx = CTX_A(&W);
	if (x_finish(subj_ctx, subj) == 0 || errno != EAGAIN)
	    unsettled("accepted side cannot be ready before the client");
	return;
    }
    if (pump(&W, 5.0) != 0)
	unsettled("establishment");
    subj = want_conn ? W.cli : W.acc;
    subj_ctx = want_conn ? CTX_C(&W) : CTX_A(&W);
    struct xcm_socket *peer = want_conn ? W.acc : W.cli;
    int peer_ctx = want_conn ? CTX_A(&W) : CTX_C(&W);
    /* one message / chunk each way so that the counters and the TCP statistics are not all zero */
    char msg[32] = "attribute-check";
    x_send(subj_ctx, subj, msg, 15);
    x_send(peer_ctx, peer, msg, 15);
    pump(&W, 2.0);
    char rb[64];
    double t0 = now();
    while (x_receive(subj_ctx, subj, rb, sizeof(rb)) < 0 && errno == EAGAIN && now() - t0 < 2.0)
	nap(200);

    if (strcmp(life, "established") == 0)
	return;

    if (strcmp(life, "peer_closed") == 0) {
	t0 = now();
	while (x_receive(peer_ctx, peer, rb, sizeof(rb)) < 0 && errno == EAGAIN && now() - t0 < 2.0)
	    nap(200);
	x_close(peer_ctx, peer);
	if (want_conn)
	    W.acc = NULL;
	else
	    W.cli = NULL;
	t0 = now();
	for (;;) {
	    int rc = x_receive(subj_ctx, subj, rb, sizeof(rb));
	    if (rc == 0)
		return;
	    if (rc < 0 && errno != EAGAIN)
		unsettled("peer close seen as an error");
	    if (now() - t0 > 3.0)
		unsettled("peer close not seen");
	    nap(200);
	}
    }
    if (strcmp(life, "failed") == 0) {
	/* the peer goes away abortively: RST for TCP (SO_LINGER 0 and no TLS shutdown: xcm_cleanup),
	   unread data in the peer's queue for AF_UNIX */
	x_send(subj_ctx, subj, msg, 15);
	pump(&W, 1.0);
	int pfd = conn_kfd(peer_ctx);
	if (pfd >= 0) {
	    struct linger lg = { 1, 0 };
	    setsockopt(pfd, SOL_SOCKET, SO_LINGER, &lg, sizeof(lg));
	    x_cleanup(peer_ctx, peer);
	} else
	    x_close(peer_ctx, peer);
	if (want_conn)
	    W.acc = NULL;
	else
	    W.cli = NULL;
	t0 = now();
	for (;;) {
	    int rc = x_receive(subj_ctx, subj, rb, sizeof(rb));
	    if (rc < 0 && errno != EAGAIN)
		return;
	    if (rc == 0)
		unsettled("abortive close seen as an orderly one");
	    if (now() - t0 > 3.0)
		unsettled("failure not seen");
	    nap(200);
	}
    }
    die("unknown life point %s", life);
}

/* ---- names ------------------------------------------------------------------------------- */
/* template + index class -> actual name.  returns 0, or -1 if the list does not exist on this socket */
static int instantiate(const char *tmpl, const char *ic, char *name, size_t cap)
{
    const char *br = strstr(tmpl, "[]");
    if (br == NULL) {
	snprintf(name, cap, "%s", tmpl);
	return 0;
    }
    char list[200];
    snprintf(list, sizeof(list), "%.*s", (int)(br - tmpl), tmpl);
    shim_enter(subj_ctx);
    int n = subj ? xcm_attr_get_list_len(subj, list) : -1;
    shim_leave();
    long idx;
    if (n < 0)
	idx = 0;
    else if (ic[0] == '0')
	idx = 0;
    else if (ic[0] == 'l')
	idx = n > 0 ? n - 1 : 0;
    else
	idx = n;
    snprintf(name, cap, "%s[%ld]%s", list, idx, br + 2);
    return n < 0 ? -1 : 0;
}

static char *parse_name(const char *arg, const char *ic, char *tn, size_t tncap, size_t *len)
{
    char *name;
    if (strncmp(arg, "hex:", 4) == 0) {
	const char *h = arg + 4;
	size_t n = strlen(h) / 2;
	name = malloc(n + 1);		/* exactly sized: an over-read of the name is visible */
	for (size_t i = 0; i < n; i++)
	    name[i] = (char)(hexval(h[2 * i]) * 16 + hexval(h[2 * i + 1]));
	name[n] = 0;
	normalise(name, tn, tncap);	/* an alias such as "[00]" of a real attribute is looked up under its template */
	*len = n;
	return name;
    }
    char buf[512];
    instantiate(arg, ic, buf, sizeof(buf));
    snprintf(tn, tncap, "%s", arg);
    *len = strlen(buf);
    name = malloc(*len + 1);
    memcpy(name, buf, *len + 1);
    return name;
}

/* ---- reads --------------------------------------------------------------------------------- */
struct gres { int ret, err, ty; };

static struct gres do_get(const char *acc, const char *name, void *buf, size_t cap)
{
    struct gres r = { 0, 0, 0 };
    enum xcm_attr_type ty = 0;
    shim_enter(subj_ctx);
    errno = 0;
    if (!strcmp(acc, "gen")) {
	r.ret = xcm_attr_get(subj, name, &ty, buf, cap);
	r.ty = (int)ty;
    } else if (!strcmp(acc, "gen0"))
	r.ret = xcm_attr_get(subj, name, NULL, buf, cap);
    else if (!strcmp(acc, "fgen")) {
	r.ret = xcm_attr_getf(subj, &ty, buf, cap, "%s", name);
	r.ty = (int)ty;
    } else if (!strcmp(acc, "bool"))
	r.ret = xcm_attr_get_bool(subj, name, buf);
    else if (!strcmp(acc, "int64"))
	r.ret = xcm_attr_get_int64(subj, name, buf);
    else if (!strcmp(acc, "double"))
	r.ret = xcm_attr_get_double(subj, name, buf);
    else if (!strcmp(acc, "str"))
	r.ret = xcm_attr_get_str(subj, name, buf, cap);
    else if (!strcmp(acc, "bin"))
	r.ret = xcm_attr_get_bin(subj, name, buf, cap);
    else if (!strcmp(acc, "fbool"))
	r.ret = xcm_attr_getf_bool(subj, buf, "%s", name);
    else if (!strcmp(acc, "fint64"))
	r.ret = xcm_attr_getf_int64(subj, buf, "%s", name);
    else if (!strcmp(acc, "fdouble"))
	r.ret = xcm_attr_getf_double(subj, buf, "%s", name);
    else if (!strcmp(acc, "fstr"))
	r.ret = xcm_attr_getf_str(subj, buf, cap, "%s", name);
    else if (!strcmp(acc, "fbin"))
	r.ret = xcm_attr_getf_bin(subj, buf, cap, "%s", name);
    else
	die("unknown accessor %s", acc);
    r.err = r.ret < 0 ? errno : 0;
    shim_leave();
    return r;
}

static long acc_cap(const char *acc)
{
    if (!strcmp(acc, "bool") || !strcmp(acc, "fbool"))
	return 1;
    if (!strcmp(acc, "int64") || !strcmp(acc, "double") || !strcmp(acc, "fint64") || !strcmp(acc, "fdouble"))
	return 8;
    return -1;
}

static long cap_of(const char *cc, long n)
{
    if (!strcmp(cc, "0")) return 0;
    if (!strcmp(cc, "1")) return 1;
    if (!strcmp(cc, "8")) return 8;
    if (!strcmp(cc, "4096")) return 4096;
    if (!strcmp(cc, "sz-1")) return n > 0 ? n - 1 : 0;
    if (!strcmp(cc, "sz")) return n;
    if (!strcmp(cc, "sz+1")) return n + 1;
    die("unknown capacity class %s", cc);
    return 0;
}

static void line_head(const char *op, long id, const char *tn, const unsigned char *nb, size_t nblen)
{
    fprintf(out, "{\"op\":\"%s\",\"id\":%ld,\"sid\":%ld,\"kind\":\"%s\",\"tp\":\"%s\",\"life\":\"%s\",\"tn\":",
	    op, id, sit_id, sit_kind, sit_tp, sit_life);
    put_str(out, tn);
    fprintf(out, ",\"nb\":");
    put_bytes(out, nb, nblen);
}

static unsigned char ref[BIG];

static void vec_get(long id, const char *narg, const char *ic, const char *acc, const char *cc)
{
    char tn[256];
    size_t nlen;
    char *name = parse_name(narg, ic, tn, sizeof(tn), &nlen);

    /* reference read: generic, large buffer */
    memset(ref, 0, 64);
    struct gres r0 = do_get("gen", name, ref, BIG);
    long n = r0.ret >= 0 ? r0.ret : 0;
    long cap = acc_cap(acc) >= 0 ? acc_cap(acc) : cap_of(cc, n);

    /* two runs into a framed buffer */
    long wr = 0, pre = 0, nul = -1;
    int same = 0;
    struct gres r = { 0, 0, 0 }, rb = { 0, 0, 0 };
    static const unsigned char fills[2] = { 0xA5, 0x5A };
    for (int run = 0; run < 2; run++) {
	size_t total = PRE + (size_t)cap + POST;
	unsigned char *frame = malloc(total);
	memset(frame, fills[run], total);
	struct gres rr = do_get(acc, name, frame + PRE, (size_t)cap);
	if (run == 0)
	    r = rr;
	else
	    rb = rr;
	for (size_t i = 0; i < PRE; i++)
	    if (frame[i] != fills[run])
		pre++;
	for (size_t i = PRE; i < total; i++)
	    if (frame[i] != fills[run] && (long)(i - PRE) + 1 > wr)
		wr = (long)(i - PRE) + 1;
	if (run == 0 && rr.ret >= 0) {
	    unsigned char *z = rr.ret > 0 ? memchr(frame + PRE, 0, (size_t)rr.ret) : NULL;
	    nul = z ? (long)(z - (frame + PRE)) : -1;
	    same = r0.ret == rr.ret && memcmp(frame + PRE, ref, (size_t)rr.ret) == 0;
	}
	free(frame);
    }
    /* exactly sized heap block: AddressSanitizer watches both sides */
    struct gres r2 = { -9, 0, 0 };
    if (pre == 0 && wr <= cap) {
	unsigned char *exact = malloc((size_t)cap);
	r2 = do_get(acc, name, exact, (size_t)cap);
	free(exact);
    }
    line_head("g", id, tn, (unsigned char *)name, nlen);
    fprintf(out, ",\"acc\":\"%s\",\"cc\":\"%s\",\"cap\":%ld,\"ty\":0,\"lc\":\"\",\"vc\":\"\",\"len\":0,"
	    "\"r0\":[%d,%d,%d],\"ret\":%d,\"err\":%d,\"rty\":%d,\"rb\":[%d,%d],\"wr\":%ld,\"pre\":%ld,\"nul\":%ld,\"same\":%d,"
	    "\"a2\":[%d,%d],\"chg\":[],\"kchg\":0,\"gas\":-1,\"names\":[],\"why\":\"\"}\n",
	    acc, cc, cap, r0.ret, r0.err, r0.ty, r.ret, r.err, r.ty, rb.ret, rb.err, wr, pre, nul, same, r2.ret, r2.err);
    fflush(out);
    free(name);
}

/* ---- writes ---------------------------------------------------------------------------------- */
struct val { unsigned char *p; size_t len; };	/* natural encoding of the value */

static struct val val_of(const void *p, size_t len)
{
    struct val v = { malloc(len ? len : 1), len };
    memcpy(v.p, p, len);
    return v;
}

static struct val val_str(const char *s) { return val_of(s, strlen(s) + 1); }
static struct val val_i64(int64_t x) { return val_of(&x, 8); }
static struct val val_dbl(double x) { return val_of(&x, 8); }
static struct val val_bool(bool x) { return val_of(&x, 1); }

/* (attribute, type, value class) -> bytes.  cur: the current value (read), or a type sample if there is none. */
static struct val value_for(const char *tn, int ty, const char *vc, const char *name)
{
    bool own = false;
    /* does the type asked for match what the attribute holds?  (decided by reading it) */
    unsigned char cur[BIG];
    struct gres c = { -1, 0, 0 };
    if (subj)
	c = do_get("gen", name, cur, sizeof(cur));
    own = c.ret >= 0 && c.ty == ty && !(ty == 3 && c.ret == 0);	/* (a string of length 0 is not a string) */
    if (!strcmp(vc, "cur") && own)
	return val_of(cur, (size_t)c.ret);
    switch (ty) {
    case 1: {
	bool b = own ? !cur[0] : true;
	if (!strcmp(vc, "zero"))
	    b = false;
	return val_bool(b);
    }
    case 2: {
	int64_t v = 2;
	if (own) {
	    memcpy(&v, cur, 8);
	    v = v + 1;
	}
	if (!strcmp(vc, "zero")) v = 0;
	else if (!strcmp(vc, "neg")) v = -1;
	else if (!strcmp(vc, "huge")) v = 3000000;
	else if (!strcmp(vc, "kmax")) v = 40000;
	else if (!strcmp(tn, "ipv6.scope")) v = 0;
	return val_i64(v);
    }
    case 5: {
	double d = 1.5;
	if (!strcmp(vc, "zero")) d = 0.0;
	else if (!strcmp(vc, "neg")) d = -1.0;
	return val_dbl(d);
    }
    case 3: {
	if (!strcmp(vc, "junk"))
	    return val_str("no such value !");
	if (!strcmp(tn, "xcm.service"))
	    return val_str("any");
	if (!strcmp(tn, "xcm.local_addr")) {
	    char b[64];
	    const char *p = sit_tp;
	    if (!strcmp(p, "tcp6")) p = "tcp";
	    if (!strcmp(p, "utlsx")) p = "utls";
	    snprintf(b, sizeof(b), "%s:127.0.0.2:0", p);
	    return val_str(b);
	}
	if (!strcmp(tn, "dns.algorithm"))
	    return val_str("sequential");
	if (!strcmp(tn, "tls.peer_names"))
	    return val_str("a.example:b.example");
	if (!strcmp(tn, "tls.cert_file") || !strcmp(tn, "tls.key_file") || !strcmp(tn, "tls.tc_file") || !strcmp(tn, "tls.crl_file")) {
	    char b[700];
	    snprintf(b, sizeof(b), "%s/%s.pem", cert_dir, !strcmp(tn, "tls.cert_file") ? "cert" : !strcmp(tn, "tls.key_file") ? "key" : "tc");
	    return val_str(b);
	}
	return val_str("value");
    }
    case 4: {
	if (!strcmp(vc, "junk"))
	    return val_of("ab\0cd", 5);
	const char *pem = !strcmp(tn, "tls.key") ? pem_key : !strcmp(tn, "tls.cert") ? pem_cert : pem_tc;
	return val_of(pem, strlen(pem));
    }
    }
    die("unknown type %d", ty);
    return val_of("", 0);
}

/* apply the length class: returns an exactly sized heap block */
static struct val shape(struct val v, int ty, const char *lc)
{
    size_t len = v.len;
    if (!strcmp(lc, "zero"))
	len = 0;
    else if (!strcmp(lc, "short"))
	len = v.len ? v.len - 1 : 0;
    else if (!strcmp(lc, "long"))
	len = v.len + 1;
    else if (!strcmp(lc, "nonul")) {
	if (ty == 3 && v.len > 1)
	    len = v.len - 1;	/* the characters without the terminating NUL */
    } else if (strcmp(lc, "ok"))
	die("unknown length class %s", lc);
    struct val o = { malloc(len), len };
    for (size_t i = 0; i < len; i++)
	o.p[i] = i < v.len ? v.p[i] : 0x41;
    free(v.p);
    return o;
}

static void vec_set(long id, const char *narg, const char *ic, int ty, const char *lc, const char *vc)
{
    char tn[256];
    size_t nlen;
    bool fresh = strcmp(sit_life, "fresh") == 0;
    char *name = parse_name(narg, ic, tn, sizeof(tn), &nlen);
    struct val v = shape(value_for(tn, ty, vc, name), ty, lc);
    int ret = 0, err = 0, gas = -1;
    long k0[5], k1[5];
    int kchg = 0;
    static struct snap before, after;
    before.n = after.n = 0;

    if (!fresh) {
	int kfd = conn_kfd(subj_ctx);
	kopt_get(kfd, k0);
	snap_take(subj_ctx, subj, &before);
	shim_enter(subj_ctx);
	errno = 0;
	ret = xcm_attr_set(subj, name, (enum xcm_attr_type)ty, v.p, v.len);
	err = ret < 0 ? errno : 0;
	shim_leave();
	snap_take(subj_ctx, subj, &after);
	kopt_get(conn_kfd(subj_ctx), k1);
	for (int i = 0; i < 5; i++)
	    if (k0[i] != k1[i])
		kchg |= 1 << i;
	if (ret == 0) {
	    unsigned char back[BIG];
	    struct gres g = do_get("gen", name, back, sizeof(back));
	    gas = g.ret == (int)v.len && g.ty == ty && memcmp(back, v.p, v.len) == 0;
	}
	if (ret == 0 || kchg)
	    sit_dirty = true;
	for (int i = 0; i < before.n && !sit_dirty; i++) {
	    const struct aval *o = snap_find(&after, before.v[i].name);
	    if (o == NULL || o->hash != before.v[i].hash || o->len != before.v[i].len)
		sit_dirty = true;
	}
    } else {
	/* the write happens through the attribute map of the creating call */
	struct xcm_attr_map *m = xcm_attr_map_create();
	bool is_conn = strcmp(sit_kind, "conn") == 0, is_acc = strcmp(sit_kind, "acc") == 0;
	if (strcmp(name, "xcm.blocking") != 0)
	    xcm_attr_map_add_bool(m, "xcm.blocking", false);
	if ((tp_is(sit_tp, "btcp") || tp_is(sit_tp, "btls")) && strcmp(name, "xcm.service") != 0 && !is_acc)
	    xcm_attr_map_add_str(m, "xcm.service", "any");
	xcm_attr_map_add(m, name, (enum xcm_attr_type)ty, v.p, v.len);
	struct xcm_socket *s = NULL;
	int ctx;
	if (is_conn) {
	    ctx = CTX_C(&W);
	    s = x_connect(ctx, W.cli_addr, m);
	} else if (is_acc) {
	    ctx = CTX_A(&W);
	    if (npending == 0) {
		struct xcm_attr_map *cm = base_map(sit_tp, true);
		struct xcm_socket *c = x_connect(CTX_C(&W), W.cli_addr, cm);
		xcm_attr_map_destroy(cm);
		if (c == NULL)
		    unsettled("client for accept");
		pending[npending++] = c;
		W.cli = c;
	    }
	    s = accept_wait(&W, m, 3.0);
	    if (s == NULL && errno == EAGAIN)
		unsettled("nothing to accept");
	} else {
	    ctx = CTX_S(&W);
	    char addr[256];
	    server_addr_for(sit_tp, "server", addr, sizeof(addr));
	    s = x_server(ctx, addr, m);
	}
	ret = s ? 0 : -1;
	err = s ? 0 : errno;
	if (s != NULL) {
	    struct xcm_socket *keep = subj;
	    int keepctx = subj_ctx;
	    subj = s;
	    subj_ctx = ctx;
	    unsigned char back[BIG];
	    struct gres g = do_get("gen", name, back, sizeof(back));
	    gas = g.ret == (int)v.len && g.ty == ty && memcmp(back, v.p, v.len) == 0;
	    subj = keep;
	    subj_ctx = keepctx;
	    x_close(ctx, s);
	}
	if (is_acc) {
	    /* whether the kernel connection was consumed or not: start the next vector from a clean queue */
	    drop_pending();
	    W.cli = NULL;
	    nap(300);
	    drain_accept_queue(CTX_S(&W));
	}
	xcm_attr_map_destroy(m);
	if (is_conn && ret == 0 && ++npending >= 8) {
	    /* connections pile up in the server socket's accept queue */
	    npending = 0;
	    sit_dirty = true;
	}
    }
    line_head("s", id, tn, (unsigned char *)name, nlen);
    fprintf(out, ",\"acc\":\"\",\"cc\":\"\",\"cap\":0,\"ty\":%d,\"lc\":\"%s\",\"vc\":\"%s\",\"len\":%zu,"
	    "\"r0\":[0,0,0],\"ret\":%d,\"err\":%d,\"rty\":0,\"rb\":[0,0],\"wr\":0,\"pre\":0,\"nul\":-1,\"same\":0,"
	    "\"a2\":[0,0],\"chg\":", ty, lc, vc, v.len, ret, err);
    put_changes(out, &before, &after);
    fprintf(out, ",\"kchg\":%d,\"gas\":%d,\"names\":[],\"why\":\"\"}\n", kchg, gas);
    fflush(out);
    free(v.p);
    free(name);
}

/* the attributes the socket really has */
static void vec_ls(void)
{
    static struct snap sn;
    if (subj == NULL)
	return;
    snap_take(subj_ctx, subj, &sn);
    line_head("ls", 0, "", (const unsigned char *)"", 0);
    fprintf(out, ",\"acc\":\"\",\"cc\":\"\",\"cap\":0,\"ty\":0,\"lc\":\"\",\"vc\":\"\",\"len\":0,"
	    "\"r0\":[0,0,0],\"ret\":0,\"err\":0,\"rty\":0,\"rb\":[0,0],\"wr\":0,\"pre\":0,\"nul\":-1,\"same\":0,"
	    "\"a2\":[0,0],\"chg\":[],\"kchg\":0,\"gas\":-1,\"names\":[");
    for (int i = 0; i < sn.n; i++) {
	char tn[200];
	normalise(sn.v[i].name, tn, sizeof(tn));
	fprintf(out, "%s[", i ? "," : "");
	put_str(out, tn);
	fprintf(out, ",%d,%zu]", sn.v[i].type, sn.v[i].len);
    }
    fprintf(out, "],\"why\":\"\"}\n");
    fflush(out);
}

/* ======================================================================================== */
/*                                    C11: paths                                            */
/* ======================================================================================== */
#define MAXSTEPS 24
#define MAXARGS 40
#define BATCH 24

struct path {
    long x;
    char tp[16];
    int nsteps;
    char *step[MAXSTEPS];
    int next;			/* next step to run */
    int stepno;
    bool waiting;		/* parked at an 'e' step of a held connect */
    bool done, inconclusive;
    struct world w;
    struct xcm_socket *subj;	/* the socket under observation */
    int subj_ctx;
    char *outbuf;
    size_t outlen;
    FILE *of;
    bool est_seen;
};

static long str_code_service(const char *s)
{
    return !strcmp(s, "any") ? 1 : !strcmp(s, "messaging") ? 2 : !strcmp(s, "bytestream") ? 3 : 4;
}

/* value codes of the model -> entries of an attribute map / arguments of xcm_attr_set */
static void add_entry(struct xcm_attr_map *m, const char *tp, const char *name, long v)
{
    if (!strcmp(name, "tcp.keepalive") || !strcmp(name, "xcm.blocking") || !strncmp(name, "tls.auth", 8) ||
	!strcmp(name, "tls.check_time") || !strcmp(name, "tls.verify_peer_name") || !strcmp(name, "tls.client"))
	xcm_attr_map_add_bool(m, name, v != 0);
    else if (!strcmp(name, "xcm.service"))
	xcm_attr_map_add_str(m, name, v == 1 ? "any" : v == 2 ? "messaging" : v == 3 ? "bytestream" : "datagram");
    else if (!strcmp(name, "xcm.local_addr")) {
	char b[64];
	snprintf(b, sizeof(b), "%s:127.0.0.%ld:0", tp, v);
	xcm_attr_map_add_str(m, name, b);
    } else if (!strcmp(name, "tls.peer_names"))
	xcm_attr_map_add_str(m, name, v == 1 ? "a.example:b.example" : "c.example");
    else if (!strcmp(name, "tcp.connect_timeout") || !strcmp(name, "dns.timeout"))
	xcm_attr_map_add_double(m, name, (double)v);
    else
	xcm_attr_map_add_int64(m, name, (int64_t)v);
}

static int set_entry(int ctx, struct xcm_socket *s, const char *tp, const char *name, long v)
{
    struct xcm_attr_map *m = xcm_attr_map_create();
    add_entry(m, tp, name, v);
    enum xcm_attr_type ty;
    size_t len;
    const void *val = xcm_attr_map_get(m, name, &ty, &len);
    void *exact = malloc(len);
    memcpy(exact, val, len);
    shim_enter(ctx);
    errno = 0;
    int rc = xcm_attr_set(s, name, ty, exact, len);
    int e = errno;
    shim_leave();
    free(exact);
    xcm_attr_map_destroy(m);
    errno = e;
    return rc;
}

static long get_i(int ctx, struct xcm_socket *s, const char *name, bool is_bool)
{
    long r = -1;
    shim_enter(ctx);
    if (is_bool) {
	bool b;
	if (xcm_attr_get_bool(s, name, &b) >= 0)
	    r = b;
    } else {
	int64_t v;
	if (xcm_attr_get_int64(s, name, &v) >= 0)
	    r = (long)v;
    }
    shim_leave();
    return r;
}

static long last_octet(const char *addr)
{
    /* "<proto>:a.b.c.d:port" */
    if (addr == NULL)
	return -1;
    const char *p = strrchr(addr, ':');
    if (p == NULL)
	return -1;
    const char *q = p;
    while (q > addr && q[-1] != '.' && q[-1] != ':')
	q--;
    if (q == addr || q[-1] != '.')
	return -1;
    return strtol(q, NULL, 10);
}

static void observe(struct path *p, const char *act, const char *an, const long *a, int na, const char *mjson,
		    int ret, int err, const struct snap *before)
{
    static const char *tcpn[5] = { "tcp.keepalive", "tcp.keepalive_time", "tcp.keepalive_interval", "tcp.keepalive_count", "tcp.user_timeout" };
    static const char *tlsn[4] = { "tls.auth", "tls.check_time", "tls.verify_peer_name", "tls.client" };
    long g[5] = { -1, -1, -1, -1, -1 }, k[5] = { -1, -1, -1, -1, -1 }, t[4] = { -1, -1, -1, -1 };
    long blk = -1, isb = -1, src = -1, psrc = -1, nm = -1, stls[4] = { -1, -1, -1, -1 }, sblk = -1;
    struct xcm_socket *s = p->subj;
    static struct snap after;
    after.n = 0;
    if (s != NULL) {
	int ctx = p->subj_ctx;
	for (int i = 0; i < 5; i++)
	    g[i] = get_i(ctx, s, tcpn[i], i == 0);
	for (int i = 0; i < 4; i++)
	    t[i] = get_i(ctx, s, tlsn[i], true);
	blk = get_i(ctx, s, "xcm.blocking", true);
	isb = xcm_is_blocking(s);
	int kfd = conn_kfd(ctx);
	kopt_get(kfd, k);
	if (kfd >= 0) {
	    struct sockaddr_in sin;
	    socklen_t sl = sizeof(sin);
	    if (getsockname(kfd, (struct sockaddr *)&sin, &sl) == 0 && sin.sin_family == AF_INET)
		src = ntohl(sin.sin_addr.s_addr) & 0xff;
	}
	if (p->w.acc != NULL && s == p->w.cli) {
	    shim_enter(CTX_A(&p->w));
	    psrc = last_octet(xcm_remote_addr(p->w.acc));
	    shim_leave();
	}
	char names[256];
	shim_enter(ctx);
	int rc = xcm_attr_get_str(s, "tls.peer_names", names, sizeof(names));
	shim_leave();
	nm = rc < 0 ? 0 : !strcmp(names, "a.example:b.example") ? 1 : !strcmp(names, "c.example") ? 2 : 9;
	if (before != NULL)
	    snap_take(ctx, s, &after);
    }
    if (p->w.srv != NULL) {
	for (int i = 0; i < 4; i++)
	    stls[i] = get_i(CTX_S(&p->w), p->w.srv, tlsn[i], true);
	sblk = xcm_is_blocking(p->w.srv);
    }
    FILE *f = p->of;
    fprintf(f, "{\"op\":\"p\",\"x\":%ld,\"n\":%d,\"tp\":\"%s\",\"act\":\"%s\",\"an\":\"%s\",\"a\":[", p->x, p->stepno, p->tp, act, an);
    for (int i = 0; i < na; i++)
	fprintf(f, i ? ",%ld" : "%ld", a[i]);
    fprintf(f, "],\"m\":%s,\"ret\":%d,\"err\":%d,\"g\":[%ld,%ld,%ld,%ld,%ld],\"k\":[%ld,%ld,%ld,%ld,%ld],"
	    "\"blk\":%ld,\"isb\":%ld,\"src\":%ld,\"psrc\":%ld,\"tls\":[%ld,%ld,%ld,%ld],\"nm\":%ld,"
	    "\"stls\":[%ld,%ld,%ld,%ld],\"sblk\":%ld,\"chg\":",
	    mjson, ret, err, g[0], g[1], g[2], g[3], g[4], k[0], k[1], k[2], k[3], k[4], blk, isb, src, psrc,
	    t[0], t[1], t[2], t[3], nm, stls[0], stls[1], stls[2], stls[3], sblk);
    if (before != NULL && s != NULL)
	put_changes(f, before, &after);
    else
	fprintf(f, "[]");
    fprintf(f, ",\"why\":\"\"}\n");
    p->stepno++;
}

static void path_note(struct path *p, const char *what, const char *why)
{
    fprintf(p->of, "{\"op\":\"%s\",\"x\":%ld,\"n\":%d,\"tp\":\"%s\",\"act\":\"\",\"an\":\"\",\"a\":[],\"m\":[],\"ret\":0,\"err\":0,"
	    "\"g\":[-1,-1,-1,-1,-1],\"k\":[-1,-1,-1,-1,-1],\"blk\":-1,\"isb\":-1,\"src\":-1,\"psrc\":-1,\"tls\":[-1,-1,-1,-1],\"nm\":-1,"
	    "\"stls\":[-1,-1,-1,-1],\"sblk\":-1,\"chg\":[],\"why\":", what, p->x, p->stepno, p->tp);
    put_str(p->of, why);
    fprintf(p->of, "}\n");
}

/* parse "k name v name v ..." into a map; also renders it as JSON */
static struct xcm_attr_map *parse_map(const char *tp, char **tok, int ntok, int at, char *mjson, size_t cap, int *used)
{
    int k = atoi(tok[at]);
    struct xcm_attr_map *m = xcm_attr_map_create();
    size_t o = 0;
    o += (size_t)snprintf(mjson + o, cap - o, "[");
    for (int i = 0; i < k; i++) {
	const char *name = tok[at + 1 + 2 * i];
	long v = atol(tok[at + 2 + 2 * i]);
	add_entry(m, tp, name, v);
	o += (size_t)snprintf(mjson + o, cap - o, "%s[\"%s\",%ld]", i ? "," : "", name, v);
    }
    snprintf(mjson + o, cap - o, "]");
    *used = 1 + 2 * k;
    (void)ntok;
    return m;
}

static const char *proto_of(const char *tp) { return tp; }

/* runs steps until the path ends or parks at an establish step; returns when nothing more can be done now */
static void path_run(struct path *p)
{
    struct world *w = &p->w;
    while (!p->done && p->next < p->nsteps) {
	char line[1024];
	snprintf(line, sizeof(line), "%s", p->step[p->next]);
	char *tok[MAXARGS];
	int nt = 0;
	for (char *t = strtok(line, " \t\n"); t && nt < MAXARGS; t = strtok(NULL, " \t\n"))
	    tok[nt++] = t;
	if (nt == 0) {
	    p->next++;
	    continue;
	}
	fprintf(stderr, "@RUN %ld\n", p->x);
	alarm(watchdog);
	char op = tok[0][0];
	char mjson[1024] = "[]";
	int used;
	if (op == 'S') {
	    struct xcm_attr_map *m = parse_map(p->tp, tok, nt, 1, mjson, sizeof(mjson), &used);
	    /* TLS-family servers of this harness are always non-blocking unless the map says otherwise:
	       the model's map is passed as it is */
	    server_addr_for(p->tp, "server", w->srv_addr, sizeof(w->srv_addr));
	    if (tp_is(p->tp, "utls"))
		snprintf(w->srv_addr, sizeof(w->srv_addr), "utls:127.0.0.1:0");
	    w->srv = x_server(CTX_S(w), w->srv_addr, m);
	    int e = errno;
	    xcm_attr_map_destroy(m);
	    observe(p, "srv", "", NULL, 0, mjson, w->srv ? 0 : -1, w->srv ? 0 : e, NULL);
	    if (w->srv == NULL)
		p->done = true;
	} else if (op == 'c') {
	    long hold = atol(tok[1]);
	    struct xcm_attr_map *m = parse_map(p->tp, tok, nt, 2, mjson, sizeof(mjson), &used);
	    /* the peer: a plain server socket of the transport */
	    struct xcm_attr_map *sm = base_map(p->tp, false);
	    server_addr_for(p->tp, "conn", w->srv_addr, sizeof(w->srv_addr));
	    w->srv = x_server(CTX_S(w), w->srv_addr, sm);
	    xcm_attr_map_destroy(sm);
	    if (w->srv == NULL)
		die("peer server socket: %s", strerror(errno));
	    client_addr_from(p->tp, "conn", w->srv, w->cli_addr, sizeof(w->cli_addr));
	    if (hold && hold_begin(w) < 0) {
		p->inconclusive = true;
		path_note(p, "inc", "cannot hold the connect");
		p->done = true;
		break;
	    }
	    if (tp_tcpfam(p->tp) && !xcm_attr_map_exists(m, "tcp.connect_timeout"))
		xcm_attr_map_add_double(m, "tcp.connect_timeout", 30.0);
	    w->cli = x_connect(CTX_C(w), w->cli_addr, m);
	    int e = errno;
	    xcm_attr_map_destroy(m);
	    long a[1] = { hold };
	    if (w->cli == NULL) {
		observe(p, "conn", "", a, 1, mjson, -1, e, NULL);
		p->done = true;
		break;
	    }
	    p->subj = w->cli;
	    p->subj_ctx = CTX_C(w);
	    if (hold) {
		if (x_finish(CTX_C(w), w->cli) == 0 || errno != EAGAIN) {
		    p->inconclusive = true;
		    path_note(p, "inc", "held connect completed");
		    p->done = true;
		    break;
		}
	    } else if (!xcm_is_blocking(w->cli) || tp_tcpfam(p->tp) || true) {
		w->acc = accept_wait(w, NULL, 3.0);
		bool blocking = xcm_is_blocking(w->cli);
		if (w->acc == NULL || (!blocking && pump(w, 5.0) != 0)) {
		    p->inconclusive = true;
		    path_note(p, "inc", "establishment did not settle");
		    p->done = true;
		    break;
		}
		if (blocking) {
		    double t0 = now();
		    while (x_finish(CTX_A(w), w->acc) < 0 && errno == EAGAIN && now() - t0 < 3.0)
			nap(200);
		}
	    }
	    observe(p, "conn", "", a, 1, mjson, 0, 0, NULL);
	} else if (op == 'A') {
	    struct xcm_attr_map *m = parse_map(p->tp, tok, nt, 1, mjson, sizeof(mjson), &used);
	    if (w->cli == NULL) {
		const char *cp = tp_is(p->tp, "utls") ? "tls" : p->tp;
		const char *la = xcm_local_addr(w->srv);
		snprintf(w->cli_addr, sizeof(w->cli_addr), "%s%s", cp, strchr(la, ':'));
		struct xcm_attr_map *cm = base_map(p->tp, true);
		w->cli = x_connect(CTX_C(w), w->cli_addr, cm);
		xcm_attr_map_destroy(cm);
		if (w->cli == NULL) {
		    p->inconclusive = true;
		    path_note(p, "inc", "client connect failed");
		    p->done = true;
		    break;
		}
		if (tp_tcpfam(p->tp) && wait_tcp_established(CTX_C(w), 3.0) < 0) {
		    p->inconclusive = true;
		    path_note(p, "inc", "client TCP handshake");
		    p->done = true;
		    break;
		}
		/* make sure the connection sits in the accept queue before a blocking accept */
		int lfd = listen_kfd(CTX_S(w));
		struct pollfd pfd = { lfd, POLLIN, 0 };
		if (lfd >= 0)
		    poll(&pfd, 1, 2000);
	    }
	    struct xcm_socket *a;
	    if (xcm_is_blocking(w->srv)) {
		a = x_accept(CTX_A(w), w->srv, m);
	    } else
		a = accept_wait(w, m, 3.0);
	    int e = errno;
	    xcm_attr_map_destroy(m);
	    if (a == NULL && e == EAGAIN) {
		p->inconclusive = true;
		path_note(p, "inc", "nothing to accept");
		p->done = true;
		break;
	    }
	    if (a != NULL) {
		w->acc = a;
		p->subj = a;
		p->subj_ctx = CTX_A(w);
	    }
	    observe(p, "acc", "", NULL, 0, mjson, a ? 0 : -1, a ? 0 : e, NULL);
	    if (a == NULL)
		p->done = true;
	    else if (tp_tlsfam(p->tp) && !xcm_is_blocking(a) && pump(w, 5.0) != 0) {
		/* the TLS handshake did not come about with these settings: the behaviour ends here
		   (what the settings do to a handshake is property C09's business) */
		p->done = true;
		break;
	    }
	} else if (op == 't' || op == 'T' || op == 'o') {
	    const char *name = tok[1];
	    long v = atol(tok[2]);
	    struct xcm_socket *s = op == 'T' ? w->srv : p->subj;
	    int ctx = op == 'T' ? CTX_S(w) : p->subj_ctx;
	    static struct snap before;
	    struct xcm_socket *keep = p->subj;
	    int keepctx = p->subj_ctx;
	    if (op == 'T') {		/* changes are looked for on the socket that is written */
		p->subj = w->srv;
		p->subj_ctx = CTX_S(w);
	    }
	    snap_take(ctx, s, &before);
	    int rc = set_entry(ctx, s, proto_of(p->tp), name, v);
	    int e = errno;
	    long a[1] = { v };
	    observe(p, op == 't' ? "set" : op == 'T' ? "sset" : "setco", name, a, 1, "[]", rc, rc < 0 ? e : 0, &before);
	    p->subj = keep;
	    p->subj_ctx = keepctx;
	} else if (op == 'b') {
	    long v = atol(tok[1]);
	    shim_enter(p->subj_ctx);
	    errno = 0;
	    int rc = xcm_set_blocking(p->subj, v != 0);
	    int e = errno;
	    shim_leave();
	    long a[1] = { v };
	    observe(p, "sblk", "", a, 1, "[]", rc, rc < 0 ? e : 0, NULL);
	} else if (op == 'e') {
	    if (w->held) {
		p->waiting = true;	/* the driver releases all held connects of the batch at once */
		return;
	    }
	    if (!p->est_seen) {
		/* after the release: bring the connection up */
		double t0 = now();
		bool ok = false;
		while (now() - t0 < 12.0) {
		    int rc = x_finish(CTX_C(w), w->cli);
		    if (rc < 0 && errno != EAGAIN)
			break;
		    if (w->acc == NULL) {
			w->acc = x_accept(CTX_A(w), w->srv, NULL);
		    } else {
			int ra = x_finish(CTX_A(w), w->acc);
			if (rc == 0 && ra == 0) {
			    ok = true;
			    break;
			}
		    }
		    nap(500);
		}
		if (!ok) {
		    p->inconclusive = true;
		    path_note(p, "inc", "held connect did not complete");
		    p->done = true;
		    break;
		}
		p->est_seen = true;
	    }
	    observe(p, "est", "", NULL, 0, "[]", 0, 0, NULL);
	} else if (op == 'p') {
	    struct xcm_socket *peer = p->subj == w->cli ? w->acc : w->cli;
	    int pctx = p->subj == w->cli ? CTX_A(w) : CTX_C(w);
	    x_close(pctx, peer);
	    if (p->subj == w->cli)
		w->acc = NULL;
	    else
		w->cli = NULL;
	    char rb[64];
	    double t0 = now();
	    int rc = -1;
	    bool was_blocking = xcm_is_blocking(p->subj);
	    if (was_blocking) {
		shim_enter(p->subj_ctx);
		xcm_set_blocking(p->subj, false);
		shim_leave();
	    }
	    while (now() - t0 < 3.0) {
		rc = x_receive(p->subj_ctx, p->subj, rb, sizeof(rb));
		if (rc == 0 || (rc < 0 && errno != EAGAIN))
		    break;
		nap(200);
	    }
	    if (rc != 0) {
		p->inconclusive = true;
		path_note(p, "inc", "peer close not seen as end of stream");
		p->done = true;
		break;
	    }
	    observe(p, "pcl", "", NULL, 0, "[]", 0, 0, NULL);
	} else
	    die("unknown step %s", p->step[p->next]);
	p->next++;
    }
    p->done = true;
}

static void path_finish(struct path *p)
{
    world_close(&p->w);
    fclose(p->of);
    fwrite(p->outbuf, 1, p->outlen, out);
    fflush(out);
    free(p->outbuf);
    for (int i = 0; i < p->nsteps; i++)
	free(p->step[i]);
}

static void run_batch(struct path *ps, int n)
{
    for (int i = 0; i < n; i++) {
	world_init(&ps[i].w, ps[i].tp, 4 * (i + 1));
	ps[i].of = open_memstream(&ps[i].outbuf, &ps[i].outlen);
	path_run(&ps[i]);
    }
    bool any = false;
    for (int i = 0; i < n; i++)
	if (ps[i].waiting) {
	    hold_release(&ps[i].w);
	    any = true;
	}
    if (any) {
	for (int i = 0; i < n; i++)
	    if (ps[i].waiting) {
		ps[i].waiting = false;
		ps[i].done = false;
		path_run(&ps[i]);
	    }
    }
    for (int i = 0; i < n; i++)
	path_finish(&ps[i]);
}

/* ======================================================================================== */
int main(int argc, char **argv)
{
    if (argc != 3)
	die("usage: attr_exec <script> <out.ndjson>");
    signal(SIGPIPE, SIG_IGN);
    FILE *in = fopen(argv[1], "r");
    if (!in)
	die("cannot open %s", argv[1]);
    out = fopen(argv[2], "w");
    if (!out)
	die("cannot write %s", argv[2]);
    watchdog = getenv("VERIF_ALARM") ? (unsigned)atoi(getenv("VERIF_ALARM")) : 0;
    const char *rd = getenv("VERIF_RUN_DIR");
    snprintf(rundir, sizeof(rundir), "%s", rd ? rd : ".");
    const char *cd = getenv("XCM_TLS_CERT");
    if (cd == NULL)
	die("XCM_TLS_CERT is not set");
    snprintf(cert_dir, sizeof(cert_dir), "%s", cd);
    pem_cert = slurp(cd, "cert.pem");
    pem_key = slurp(cd, "key.pem");
    pem_tc = slurp(cd, "tc.pem");

    static struct path batch[BATCH];
    int nb = 0;
    struct path *cur = NULL;
    char line[8192];
    while (fgets(line, sizeof(line), in)) {
	char copy[8192];
	snprintf(copy, sizeof(copy), "%s", line);
	char *tok[MAXARGS];
	int nt = 0;
	for (char *t = strtok(line, " \t\n"); t && nt < MAXARGS; t = strtok(NULL, " \t\n"))
	    tok[nt++] = t;
	if (nt == 0 || tok[0][0] == '#')
	    continue;
	if (cur != NULL) {
	    if (!strcmp(tok[0], "E")) {
		cur = NULL;
		if (nb == BATCH) {
		    run_batch(batch, nb);
		    nb = 0;
		}
	    } else {
		if (cur->nsteps >= MAXSTEPS)
		    die("path too long");
		cur->step[cur->nsteps++] = strdup(copy);
	    }
	    continue;
	}
	if (!strcmp(tok[0], "P")) {
	    cur = &batch[nb++];
	    memset(cur, 0, sizeof(*cur));
	    cur->x = atol(tok[1]);
	    snprintf(cur->tp, sizeof(cur->tp), "%s", tok[2]);
	} else if (!strcmp(tok[0], "sit")) {
	    sit_teardown();
	    sit_id = atol(tok[1]);
	    snprintf(sit_kind, sizeof(sit_kind), "%s", tok[2]);
	    snprintf(sit_tp, sizeof(sit_tp), "%s", tok[3]);
	    snprintf(sit_life, sizeof(sit_life), "%s", tok[4]);
	    alarm(watchdog);
	    sit_build();
	    vec_ls();
	    alarm(0);
	} else if (!strcmp(tok[0], "g") || !strcmp(tok[0], "s")) {
	    if (!sit_built)
		die("vector before any situation");
	    if (sit_dirty) {
		sit_build();
	    }
	    fprintf(stderr, "@RUN %s\n", tok[1]);
	    alarm(watchdog);
	    if (tok[0][0] == 'g') {
		if (nt != 6)
		    die("bad g line");
		vec_get(atol(tok[1]), tok[2], tok[3], tok[4], tok[5]);
	    } else {
		if (nt != 7)
		    die("bad s line");
		vec_set(atol(tok[1]), tok[2], tok[3], atoi(tok[4]), tok[5], tok[6]);
	    }
	} else
	    die("unknown line %s", copy);
    }
    if (nb > 0)
	run_batch(batch, nb);
    sit_teardown();
    fclose(out);
    return 0;
}
