/* conn_exec: script interpreter that drives a connected pair of XCM sockets
 * (both ends in this process) through a sequence of API calls under a
 * controlled lower layer (shim credits / injections) and records, after every
 * step, everything the trace specification XcmTrace.tla needs.  The harness
 * never judges: the TLA+ trace specification is the oracle.  The only
 * "history" facts computed here are those that need byte contents
 * (which message / which stream bytes were delivered, intact or not).
 *
 * usage: conn_exec <script> <trace.ndjson>
 */
#include "shim.h"
#include "xcm.h"
#include "xcm_attr.h"
#include "xcm_attr_map.h"
#include "xcm_tp.h"

#include <arpa/inet.h>
#include <errno.h>
#include <fcntl.h>
#include <netinet/in.h>
#include <netinet/tcp.h>
#include <poll.h>
#include <pthread.h>
#include <signal.h>
#include <stdio.h>
#include <stdlib.h>
#include <string.h>
#include <sys/epoll.h>
#include <sys/ioctl.h>
#include <sys/socket.h>
#include <sys/stat.h>
#include <time.h>
#include <unistd.h>

#define MAXMSG 400000	/* byte-stream sends may be much larger than a message */
#define MAXSENT 4096

static FILE *out;
static volatile int busy_ep;	/* endpoint whose socket is in use by the helper thread (0 = none): hands off */
static long xid, stepno;
static char tp[32];
static bool raw_mode;	/* endpoint 2 is a raw kernel socket driven by the harness */
static bool is_stream;	/* byte-stream service */
static bool is_seq;	/* kernel socket is SOCK_SEQPACKET */
static bool framing;	/* tcp / tls framing layer present */

static struct xcm_socket *ep[3];	/* 1 = connecting side, 2 = accepted side */
static int kfd[3];	/* kernel data descriptor of each endpoint (-1 unknown) */
static int xfd0[3];	/* xcm_fd() at establishment */
static int rawfd = -1;
static struct xcm_socket *rawxs;	/* raw peer of a tls connection: a btls (byte-stream) XCM socket, which can put
					   arbitrary bytes into the TLS stream after a genuine handshake */
static long raw_written;

/* content oracle */
static int sent_len[3][MAXSENT];	/* messaging: lengths of accepted messages, per sending endpoint */
static long sent_tok[3][MAXSENT];	/* ... and the number of the send call (content token) that offered each */
static int fail_len[3][MAXSENT];	/* messaging: send calls that returned -1 */
static long fail_tok[3][MAXSENT];
static int nfail[3];
static int nsent[3];
static int ndeliv[3];	/* messages delivered to endpoint e */
static unsigned char *stream[3];	/* byte stream accepted from endpoint e */
static long stream_len[3], stream_cap[3], stream_rd[3];	/* stream_rd[e]: bytes of e's peer stream delivered to e */
static long ntok[3];	/* send calls made by e (token for content) */
static long ref_tok[3], ref_len[3];	/* token and length of the last refused stream send */
/* accepted stream sends, with the refused send (if any) that was pending when they were accepted:
   a TLS library may have captured the refused call's bytes and transmit them in place of the
   first bytes of the accepted call */
#define MAXCALLS 4096
static struct acall { long start, len, ptok, plen, poff; } acalls[3][MAXCALLS];
static int nacalls[3];
static long cap_tok[3], cap_len[3], cap_off[3];	/* the first send refused since the last accepted one (later refusals do not replace a captured record) */
static int unchk[3];	/* content of the stream delivered to e is no longer judged (after a classified mismatch) */

static unsigned char sbuf[MAXMSG + 16], rbufg[MAXMSG + 64];

/* raw peer pending bytes */
static unsigned char *rawpend;
static long rawpend_len, rawpend_cap, rawpend_off;
static long raw_frames;

/* ---- nested layer calls (link-time seam on xcm_tp_socket_*) ------------ */
static __thread int depth;
static __thread const char *pstack[16];

int __real_xcm_tp_socket_send(struct xcm_socket *s, const void *buf, size_t len);
int __real_xcm_tp_socket_receive(struct xcm_socket *s, void *buf, size_t cap);
int __real_xcm_tp_socket_finish(struct xcm_socket *s);

/* ---- what btls asked of OpenSSL during the current API call (link-time seam) ----
   nops: SSL_read/SSL_write calls; op: the last one (1 read, 2 write); res: how it ended
   (1 success, 2 WANT_READ, 3 WANT_WRITE, 4 anything else) */
#include <openssl/ssl.h>
static __thread struct { int nops, op, res; } sslcur;
static SSL *ssl_of[3];
int __real_SSL_read(SSL *ssl, void *buf, int num);
int __real_SSL_write(SSL *ssl, const void *buf, int num);
int __real_SSL_get_error(const SSL *ssl, int ret);
static void ssl_note(SSL *ssl, int op, int rc)
{
    int c = shim_ctx();
    if (c >= 1 && c <= 2)
	ssl_of[c] = ssl;
    sslcur.nops++;
    sslcur.op = op;
    sslcur.res = rc > 0 ? 1 : 4;
}
int __wrap_SSL_read(SSL *ssl, void *buf, int num)
{
    int rc = __real_SSL_read(ssl, buf, num);
    int e = errno;
    ssl_note(ssl, 1, rc);
    errno = e;
    return rc;
}
int __wrap_SSL_write(SSL *ssl, const void *buf, int num)
{
    int rc = __real_SSL_write(ssl, buf, num);
    int e = errno;
    ssl_note(ssl, 2, rc);
    errno = e;
    return rc;
}
int __wrap_SSL_get_error(const SSL *ssl, int ret)
{
    int e = errno;
    int r = __real_SSL_get_error(ssl, ret);
    if (sslcur.nops > 0 && sslcur.res != 1)
	sslcur.res = r == SSL_ERROR_WANT_READ ? 2 : r == SSL_ERROR_WANT_WRITE ? 3 : 4;
    errno = e;
    return r;
}

struct lsum { long wu; int wt; long ru; int rt; int frc; int ferr; int n; };
static __thread struct lsum lcur;	/* calls the framing layer (tcp/tls) made to the layer below, this API call */

static void lrec(struct xcm_socket *s, char op, long req, int rc, int err)
{
    (void)s;
    if (depth < 1)
	return;
    const char *parent = pstack[depth - 1];
    if (strcmp(parent, "tcp") != 0 && strcmp(parent, "tls") != 0)
	return;
    lcur.n++;
    if (op == 's') {
	if (rc > 0) { lcur.wu += rc; lcur.wt = 0; }
	else if (rc < 0) lcur.wt = err;
    } else if (op == 'r') {
	if (rc > 0) { lcur.ru += rc; lcur.rt = 0; }
	else if (rc == 0 && req > 0) lcur.rt = SHIM_T_EOF;
	else if (rc == 0) lcur.rt = -2;	/* zero-length read request returned 0 */
	else lcur.rt = err;
    } else if (op == 'f') {
	lcur.frc = rc;
	lcur.ferr = err;
    }
}

static void lreset(void)
{
    memset(&lcur, 0, sizeof(lcur));
    lcur.frc = 1;	/* 1 = no finish call seen */
}

int __wrap_xcm_tp_socket_send(struct xcm_socket *s, const void *buf, size_t len)
{
    pstack[depth] = s->proto->name;
    depth++;
    int rc = __real_xcm_tp_socket_send(s, buf, len);
    int e = errno;
    depth--;
    lrec(s, 's', len, rc, rc < 0 ? e : 0);
    errno = e;
    return rc;
}

int __wrap_xcm_tp_socket_receive(struct xcm_socket *s, void *buf, size_t cap)
{
    pstack[depth] = s->proto->name;
    depth++;
    int rc = __real_xcm_tp_socket_receive(s, buf, cap);
    int e = errno;
    depth--;
    lrec(s, 'r', cap, rc, rc < 0 ? e : 0);
    errno = e;
    return rc;
}

int __wrap_xcm_tp_socket_finish(struct xcm_socket *s)
{
    pstack[depth] = s->proto->name;
    depth++;
    int rc = __real_xcm_tp_socket_finish(s);
    int e = errno;
    depth--;
    lrec(s, 'f', 0, rc, rc < 0 ? e : 0);
    errno = e;
    return rc;
}

static struct lsum l1_summary(void)
{
    return lcur;
}

/* ---- content ----------------------------------------------------------- */
static inline unsigned char mix(unsigned a, unsigned b, unsigned c)
{
    unsigned h = a * 2654435761u ^ (b + 0x9e3779b9u) * 40503u ^ c * 2246822519u;
    h ^= h >> 15; h *= 2654435761u; h ^= h >> 13;
    return (unsigned char)h;
}

static void fill_msg(unsigned char *b, int e, long idx, int len)
{
    for (int j = 0; j < len; j++)
	b[j] = mix(e * 7 + (unsigned)xid * 131, (unsigned)idx, j);
}

static void stream_append(int e, const unsigned char *b, long n)
{
    if (stream_len[e] + n > stream_cap[e]) {
	stream_cap[e] = (stream_len[e] + n) * 2 + 4096;
	stream[e] = realloc(stream[e], stream_cap[e]);
    }
    memcpy(stream[e] + stream_len[e], b, n);
    stream_len[e] += n;
}

/* ---- observation -------------------------------------------------------- */
static const char *cnt_names[8] = {
    "xcm.to_app_bytes", "xcm.from_app_bytes", "xcm.to_lower_bytes", "xcm.from_lower_bytes",
    "xcm.to_app_msgs", "xcm.from_app_msgs", "xcm.to_lower_msgs", "xcm.from_lower_msgs"
};

static void get_cnts(int e, long long *c)
{
    for (int i = 0; i < 8; i++) {
	c[i] = -1;
	if (ep[e] == NULL || busy_ep == e)
	    continue;
	if (is_stream && i >= 4) { c[i] = 0; continue; }
	int64_t v;
	shim_enter(e);
	int rc = xcm_attr_get_int64(ep[e], cnt_names[i], &v);
	shim_leave();
	if (rc >= 0)
	    c[i] = v;
    }
}

static int poll_fd(int fd, int events)
{
    if (fd < 0)
	return -1;
    struct pollfd p = { .fd = fd, .events = events };
    int rc = poll(&p, 1, 0);
    if (rc < 0)
	return -1;
    return p.revents;
}

static void settle(void)
{
    /* wait until what one end's kernel socket accepted is visible at the other end */
    if (is_seq)
	return;	/* AF_UNIX delivery is synchronous */
    for (int e = 1; e <= 2; e++) {
	int p = 3 - e;
	int pfd = (raw_mode && p == 2) ? rawfd : kfd[p];
	int efd = (raw_mode && e == 2) ? rawfd : kfd[e];
	if (pfd < 0 || efd < 0)
	    continue;
	long written = (raw_mode && e == 2) ? raw_written : shim_fds[efd].wtotal;
	long readn = (raw_mode && p == 2) ? 0 : shim_fds[pfd].rtotal;
	if (raw_mode && p == 2)
	    continue;	/* nobody reads at the raw side via the shim */
	long want = written - readn;
	int last = -2, same = 0;
	for (int i = 0; i < 4000; i++) {
	    int av = 0;
	    if (ioctl(pfd, FIONREAD, &av) < 0)
		break;
	    if (av >= want)
		break;
	    /* flow control may keep part of it in the sender's queue for good:
	       give up once nothing has moved for 2 ms (readiness is sampled
	       on both sides of the XCM descriptor anyway, see emit_obs) */
	    if (av == last) {
		if (++same >= 40)
		    break;
	    } else {
		same = 0;
		last = av;
	    }
	    struct timespec ts = { 0, 50000 };
	    nanosleep(&ts, NULL);
	}
    }
}

static int fionread(int fd)
{
    int av = -1;
    if (fd < 0 || ioctl(fd, FIONREAD, &av) < 0)
	return -1;
    return av;
}

static void emit_obs(void)
{
    long long c[3][8];
    int rd[3], kr[3], em[3], bl[3], fdc[3], av[3], ka[3] = { -1, -1, -1 };
    for (int e = 1; e <= 2; e++) {
	get_cnts(e, c[e]);
	rd[e] = kr[e] = em[e] = bl[e] = -1;
	fdc[e] = 0;
	av[e] = -1;
	if (ep[e] != NULL && busy_ep != e) {
	    int xf = xcm_fd(ep[e]);
	    if (xf != xfd0[e] && xf >= 0)
		fdc[e] = 1;
	    ka[e] = kfd[e] >= 0 ? poll_fd(kfd[e], POLLIN | POLLOUT) : -1;
	    int rv = poll_fd(xf, POLLIN | POLLOUT | POLLPRI);
	    rd[e] = rv < 0 ? -1 : rv;
	    /* what is registered in this endpoint's epoll instance */
	    em[e] = 0;
	    bl[e] = 0;
	    for (int i = 0; i < shim_nregs; i++) {
		struct shim_reg *g = &shim_regs[i];
		if (g->epfd != xf || g->events == 0)
		    continue;
		if (g->fd == kfd[e])
		    em[e] = g->events & (EPOLLIN | EPOLLOUT);
		else if (g->fd >= 0 && g->fd < SHIM_MAX_FD && shim_fds[g->fd].kind == SK_EVENTFD)
		    bl[e] = 1;
	    }
	    if (kfd[e] >= 0) {
		/* the kernel's view is sampled on both sides of the sample of the
		   XCM descriptor; if it moved in between the environment was not
		   settled and the readiness comparison is skipped (kr = -1) */
		int kb = poll_fd(kfd[e], POLLIN | POLLOUT);
		kr[e] = (kb == ka[e]) ? kb : -1;
		av[e] = fionread(kfd[e]);
	    }
	}
    }
    fprintf(out, ",\"c\":[[");
    for (int e = 1; e <= 2; e++) {
	for (int i = 0; i < 8; i++)
	    fprintf(out, "%s%lld", i ? "," : "", c[e][i]);
	fprintf(out, e == 1 ? "],[" : "]]");
    }
    fprintf(out, ",\"rd\":[%d,%d],\"kr\":[%d,%d],\"em\":[%d,%d],\"bl\":[%d,%d],\"fdc\":[%d,%d],\"av\":[%d,%d]",
	    rd[1], rd[2], kr[1], kr[2], em[1], em[2], bl[1], bl[2], fdc[1], fdc[2], av[1], av[2]);
}

/* every line carries every field so that the trace specification can treat
   lines as records of one shape */
static struct { long len, cap; int cond, ret, err, mi, fl, ok, rst, rty; long gl; } F;

/* byte streams, "flushed and closed gracefully" (C02): fin_ok[e]: the last thing e did after its last send was an
   xcm_finish that returned 0; grace[e]: e then closed in an orderly way, its peer never calling xcm_send (data sent to a closed
   peer is answered with a reset, which is TCP's doing); noisy: an
   errno was injected or a blocking-mode call was used somewhere in this execution (nothing is concluded then) */
static int fin_ok[3], grace[3], noisy, cut[3], tried_send[3];	/* cut[e]: a send of e was refused */

static void emit_begin(const char *op, int e)
{
    stepno++;
    fprintf(out, "{\"x\":%ld,\"n\":%ld,\"op\":\"%s\",\"e\":%d,\"len\":%ld,\"cap\":%ld,\"cond\":%d,"
	    "\"ret\":%d,\"err\":%d,\"mi\":%d,\"fl\":%d,\"ok\":%d,\"rst\":%d,\"rty\":%d,\"gl\":%ld,\"pcl\":%d",
	    xid, stepno, op, e, F.len, F.cap, F.cond, F.ret, F.err, F.mi, F.fl, F.ok, F.rst, F.rty, F.gl - 1,
	    /* pcl: the peer of this endpoint has been closed by now (only then may this endpoint be shown the end) */
	    (e == 1 || e == 2) ? (raw_mode ? -1 : ep[3 - e] == NULL) : -1);
    memset(&F, 0, sizeof(F));
}

static void emit_noio(void)
{
    fprintf(out, ",\"k\":[0,0,0,0,0],\"lg\":[0,0,0,0,1,0,0],\"ssl\":[0,0,0,-1],\"w\":%d", shim_wait_seen());
}

static void emit_end(void)
{
    fprintf(out, "}\n");
}

static void emit_io(int e)
{
    struct shim_io io = { 0 };
    if (kfd[e] >= 0)
	io = shim_io_get(kfd[e]);
    struct lsum l = l1_summary();
    /* SSL_has_pending as the library's update() saw it at the end of the call (nothing has touched the object since) */
    int hp = (e >= 1 && e <= 2 && ssl_of[e] != NULL && ep[e] != NULL) ? SSL_has_pending(ssl_of[e]) : -1;
    fprintf(out, ",\"k\":[%ld,%d,%ld,%d,%ld],\"lg\":[%ld,%d,%ld,%d,%d,%d,%d],\"ssl\":[%d,%d,%d,%d],\"w\":%d",
	    io.wu, io.wt, io.ru, io.rt, io.rlast,
	    l.wu, l.wt, l.ru, l.rt, l.frc, l.ferr, l.n, sslcur.nops, sslcur.op, sslcur.res, hp, shim_wait_seen());
}

/* ---- crash handling ------------------------------------------------------ */
static void crash_line(const char *why)
{
    if (out) {
	fprintf(out, "{\"x\":%ld,\"n\":%ld,\"op\":\"crash\",\"e\":0,\"why\":\"%s\"}\n", xid, stepno + 1, why);
	fflush(out);
    }
}

static void on_signal(int sig)
{
    crash_line(sig == SIGABRT ? "abort" : sig == SIGSEGV ? "segv" : sig == SIGALRM ? "hang" : "signal");
    _exit(3);
}

void __asan_on_error(void);
void __asan_on_error(void)
{
    crash_line("asan");
}

/* ---- set-up / tear-down --------------------------------------------------- */
static struct xcm_attr_map *nb_attrs(void)
{
    struct xcm_attr_map *a = xcm_attr_map_create();
    xcm_attr_map_add_bool(a, "xcm.blocking", false);
    return a;
}

static void close_all(void)
{
    for (int e = 1; e <= 2; e++) {
	if (ep[e]) {
	    shim_enter(e);
	    xcm_close(ep[e]);
	    shim_leave();
	    ep[e] = NULL;
	}
	kfd[e] = -1;
    }
    if (rawfd >= 0) {
	close(rawfd);
	rawfd = -1;
    }
    if (rawxs) {
	xcm_close(rawxs);
	rawxs = NULL;
    }
}

static int find_kfd(int ctx)
{
    int fds[16];
    int kind = is_seq ? SK_SEQPACKET : SK_STREAM;
    int n = shim_find(ctx, kind, fds, 16);
    for (int i = 0; i < n; i++) {
	struct sockaddr_storage ss;
	socklen_t sl = sizeof(ss);
	if (getpeername(fds[i], (struct sockaddr *)&ss, &sl) == 0)
	    return fds[i];
    }
    return -1;
}

static int setup(const char *tpname, const char *mode)
{
    static long seq;
    char addr[256], saddr[256];
    const char *base = tpname;
    bool utls_tls = false;

    close_all();
    shim_reset();
    ssl_of[1] = ssl_of[2] = NULL;
    snprintf(tp, sizeof(tp), "%s", tpname);
    raw_mode = strcmp(mode, "raw") == 0;
    is_stream = strcmp(tp, "btcp") == 0 || strcmp(tp, "btls") == 0;
    is_seq = strcmp(tp, "ux") == 0 || strcmp(tp, "uxf") == 0 || strcmp(tp, "utls") == 0;
    framing = strcmp(tp, "tcp") == 0 || strcmp(tp, "tls") == 0 || strcmp(tp, "utlst") == 0;
    if (strcmp(tp, "utlst") == 0) {	/* utls forced onto its TLS leg */
	base = "utls";
	utls_tls = true;
    }
    for (int e = 1; e <= 2; e++) {
	nsent[e] = ndeliv[e] = nfail[e] = 0;
	stream_len[e] = stream_rd[e] = 0;
	ntok[e] = 0;
	ref_len[e] = 0;
	nacalls[e] = 0;
	cap_len[e] = 0;
	unchk[e] = 0;
	fin_ok[e] = grace[e] = cut[e] = tried_send[e] = 0;
    }
    noisy = 0;
    rawpend_len = rawpend_off = 0;
    raw_written = 0;
    raw_frames = 0;
    stepno = 0;
    seq++;

    if (strcmp(base, "ux") == 0)
	snprintf(addr, sizeof(addr), "ux:verif-%d-%ld", getpid(), seq);
    else if (strcmp(base, "uxf") == 0) {
	const char *d = getenv("VERIF_RUN_DIR");
	snprintf(addr, sizeof(addr), "uxf:%s/s%d-%ld", d ? d : "/tmp", getpid(), seq);
    } else if (utls_tls)	/* a plain tls server: the utls client finds no UX socket and falls back to its TLS leg */
	snprintf(addr, sizeof(addr), "tls:127.0.0.1:0");
    else
	snprintf(addr, sizeof(addr), "%s:127.0.0.1:0", base);

    struct xcm_attr_map *a = nb_attrs();
    if (is_stream)
	xcm_attr_map_add_str(a, "xcm.service", "bytestream");
    shim_enter(3);
    struct xcm_socket *srv = xcm_server_a(addr, a);
    shim_leave();
    if (srv == NULL) {
	xcm_attr_map_destroy(a);
	fprintf(stderr, "setup: xcm_server_a(%s): %s\n", addr, strerror(errno));
	return -1;
    }
    snprintf(saddr, sizeof(saddr), "%s", xcm_local_addr(srv));
    if (utls_tls) {
	char tmp[256];
	snprintf(tmp, sizeof(tmp), "utls:%s", strchr(saddr, ':') + 1);
	strcpy(saddr, tmp);
    }

    if (raw_mode && strcmp(base, "tls") == 0) {
	/* hostile peer of a tls connection: a btls client; its bytes are what the tls framing layer of endpoint 1 reads */
	char baddr[256];
	snprintf(baddr, sizeof(baddr), "btls:%s", strchr(saddr, ':') + 1);
	struct xcm_attr_map *ba = nb_attrs();
	xcm_attr_map_add_str(ba, "xcm.service", "bytestream");
	rawxs = xcm_connect_a(baddr, ba);
	xcm_attr_map_destroy(ba);
	if (rawxs == NULL) {
	    fprintf(stderr, "setup: raw btls connect: %s\n", strerror(errno));
	    return -1;
	}
	bool okr = false, ok1 = false;
	for (int i = 0; i < 20000 && !(okr && ok1); i++) {
	    if (ep[1] == NULL) {
		shim_enter(1);
		ep[1] = xcm_accept_a(srv, a);
		shim_leave();
	    }
	    okr = xcm_finish(rawxs) == 0;
	    if (ep[1]) {
		shim_enter(1);
		ok1 = xcm_finish(ep[1]) == 0;
		shim_leave();
	    }
	    if (!(okr && ok1))
		usleep(200);
	}
	if (!(okr && ok1)) {
	    fprintf(stderr, "setup: raw btls establishment did not complete\n");
	    return -1;
	}
    } else if (raw_mode) {
	/* endpoint 1 is the library's accepted connection?  No: endpoint 1 is
	   always a library socket; in raw mode the library side is the
	   accepting (server) side when mode == "raw" and the connecting side
	   when mode == "rawc".  Keep it simple: raw peer connects, the library
	   accepts, and the library connection is endpoint 1. */
	struct sockaddr_in sin = { .sin_family = AF_INET };
	int port = atoi(strrchr(saddr, ':') + 1);
	sin.sin_port = htons(port);
	sin.sin_addr.s_addr = htonl(INADDR_LOOPBACK);
	rawfd = socket(AF_INET, SOCK_STREAM, 0);
	if (connect(rawfd, (struct sockaddr *)&sin, sizeof(sin)) < 0) {
	    fprintf(stderr, "setup: raw connect: %s\n", strerror(errno));
	    return -1;
	}
	int one = 1;
	setsockopt(rawfd, IPPROTO_TCP, TCP_NODELAY, &one, sizeof(one));
	fcntl(rawfd, F_SETFL, fcntl(rawfd, F_GETFL) | O_NONBLOCK);
	for (int i = 0; i < 2000 && ep[1] == NULL; i++) {
	    shim_enter(1);
	    ep[1] = xcm_accept_a(srv, a);
	    shim_leave();
	    if (ep[1] == NULL)
		usleep(500);
	}
	if (ep[1] == NULL) {
	    fprintf(stderr, "setup: raw accept failed: %s\n", strerror(errno));
	    return -1;
	}
    } else {
	if (utls_tls)
	    ;	/* handled by the caller through shim connect refusal (later stage) */
	shim_enter(1);
	ep[1] = xcm_connect_a(saddr, a);
	shim_leave();
	if (ep[1] == NULL) {
	    fprintf(stderr, "setup: xcm_connect_a(%s): %s\n", saddr, strerror(errno));
	    shim_enter(3); xcm_close(srv); shim_leave();
	    xcm_attr_map_destroy(a);
	    return -1;
	}
	bool ok1 = false, ok2 = false;
	for (int i = 0; i < 20000 && !(ok1 && ok2); i++) {
	    if (ep[2] == NULL) {
		shim_enter(2);
		ep[2] = xcm_accept_a(srv, a);
		shim_leave();
	    }
	    shim_enter(1);
	    ok1 = xcm_finish(ep[1]) == 0;
	    int e1 = errno;
	    shim_leave();
	    if (!ok1 && e1 != EAGAIN) {
		fprintf(stderr, "setup: finish(1): %s\n", strerror(e1));
		return -1;
	    }
	    if (ep[2]) {
		shim_enter(2);
		ok2 = xcm_finish(ep[2]) == 0;
		int e2 = errno;
		shim_leave();
		if (!ok2 && e2 != EAGAIN) {
		    fprintf(stderr, "setup: finish(2): %s\n", strerror(e2));
		    return -1;
		}
	    }
	    if (!(ok1 && ok2))
		usleep(200);
	}
	if (!(ok1 && ok2)) {
	    fprintf(stderr, "setup: establishment did not complete\n");
	    return -1;
	}
    }
    xcm_attr_map_destroy(a);
    shim_enter(3);
    xcm_close(srv);
    shim_leave();

    for (int e = 1; e <= 2; e++) {
	if (ep[e] == NULL)
	    continue;
	if (strcmp(base, "utls") == 0) {
	    /* utls masquerades: the live leg decides the kernel socket type */
	    char t[32] = "";
	    xcm_attr_get_str(ep[e], "xcm.transport", t, sizeof(t));
	    is_seq = strcmp(t, "ux") == 0;
	    framing = !is_seq;
	}
	kfd[e] = find_kfd(e);
	if (kfd[e] < 0) {
	    fprintf(stderr, "setup: kernel fd of endpoint %d not found\n", e);
	    return -1;
	}
	shim_track(kfd[e], true);
	xfd0[e] = xcm_fd(ep[e]);
    }
    return 0;
}

static int stream_check(int e, int rc);

/* ---- blocking-mode calls (helper thread) ---------------------------------- */
static struct {
    pthread_t th;
    bool running;
    volatile bool done;
    int e, op;	/* op: 's' or 'r' */
    long len, cap, tok, sstart, stok;
    int sidx, setfail;
    int ret, err;
    struct lsum ls;
    int mi, fl, ok;
} blk;

static void on_usr1(int sig) { (void)sig; }

static void *blk_main(void *arg)
{
    (void)arg;
    int e = blk.e;
    lreset();
    shim_enter(e);
    errno = 0;
    /* switching to blocking mode finishes outstanding work first (and may wait for it) */
    if (xcm_set_blocking(ep[e], true) < 0) {
	blk.ret = -1;
	blk.err = errno;
	blk.setfail = 1;
    } else {
	errno = 0;
	if (blk.op == 's')
	    blk.ret = xcm_send(ep[e], sbuf, blk.len);
	else
	    blk.ret = xcm_receive(ep[e], rbufg, blk.cap);
	blk.err = errno;
    }
    shim_leave();
    blk.ls = l1_summary();
    blk.done = true;
    return NULL;
}

static void emit_lsum(int e, struct lsum l)
{
    struct shim_io io = { 0 };
    if (kfd[e] >= 0)
	io = shim_io_get(kfd[e]);
    fprintf(out, ",\"k\":[%ld,%d,%ld,%d,%ld],\"lg\":[%ld,%d,%ld,%d,%d,%d,%d],\"ssl\":[0,0,0,-1],\"w\":%d",
	    io.wu, io.wt, io.ru, io.rt, io.rlast,
	    l.wu, l.wt, l.ru, l.rt, l.frc, l.ferr, l.n, 0);
}

/* start a blocking send / receive on endpoint e in the helper thread */
static void do_blk_start(int e, int op, long arg)
{
    noisy = 1;
    if (ep[e] == NULL || blk.running)
	return;
    memset(&blk, 0, sizeof(blk));
    blk.e = e;
    blk.op = op;
    if (kfd[e] >= 0) {
	shim_credit(kfd[e], SHIM_UNLIMITED, 0, SHIM_UNLIMITED, 0);
	shim_io_reset(kfd[e]);
    }
    if (op == 's') {
	long blen = arg > MAXMSG ? MAXMSG : arg;
	blk.len = blen;
	if (is_stream) {
	    long tok = ++ntok[e];
	    blk.stok = tok;
	    for (long j = 0; j < blen; j++)
		sbuf[j] = mix(e * 11 + (unsigned)xid * 131, (unsigned)tok, j);
	    /* the peer may read while the call is in progress: what it may see is a prefix of this */
	    blk.sstart = stream_len[e];
	    if (nacalls[e] < MAXCALLS)
		acalls[e][nacalls[e]++] = (struct acall){ stream_len[e], blen, cap_tok[e], cap_len[e], cap_off[e] };
	    cap_len[e] = 0;
	    ref_len[e] = 0;
	    stream_append(e, sbuf, blen);
	} else {
	    blk.tok = ++ntok[e];
	    fill_msg(sbuf, e, blk.tok, blen);
	    /* the peer may receive it before the call returns: registered tentatively */
	    blk.sidx = -1;
	    if (blen >= 1 && blen <= 65535 && nsent[e] < MAXSENT) {
		blk.sidx = nsent[e];
		sent_tok[e][nsent[e]] = blk.tok;
		sent_len[e][nsent[e]++] = (int)blen;
	    }
	}
	F.len = blen;
    } else {
	blk.cap = arg > MAXMSG ? MAXMSG : arg;
	memset(rbufg, 0xA5, blk.cap + 32);
	F.cap = blk.cap;
    }
    blk.running = true;
    busy_ep = e;
    emit_begin(op == 's' ? "bs0" : "br0", e);
    emit_noio();
    emit_obs();
    emit_end();
    pthread_create(&blk.th, NULL, blk_main, NULL);
}

/* wait for the blocking call; sig: interrupt it with a signal if it has not returned after the grace period */
static bool do_blk_join(int sig, int grace_ms)
{
    if (!blk.running)
	return true;
    int e = blk.e, p = 3 - e;
    bool signalled = false;
    for (int i = 0; i < grace_ms * 10 && !blk.done; i++)
	usleep(100);
    if (!blk.done && sig) {
	pthread_kill(blk.th, SIGUSR1);
	signalled = true;
	for (int i = 0; i < 20000 && !blk.done; i++)
	    usleep(100);
    }
    if (!blk.done) {
	/* still blocked: report it (ret = -2) and abandon this execution */
	F.ret = -2;
	F.len = blk.len;
	F.cap = blk.cap;
	emit_begin(blk.op == 's' ? "bs1" : "br1", e);
	emit_noio();
	emit_obs();
	emit_end();
	pthread_cancel(blk.th);
	pthread_join(blk.th, NULL);
	blk.running = false;
	busy_ep = 0;
	return false;
    }
    pthread_join(blk.th, NULL);
    blk.running = false;
    busy_ep = 0;
    int rc = blk.ret, err = blk.err;
    int mi = 0, fl = 0, ok = 1;
    if (blk.op == 's') {
	if (is_stream) {
	    /* keep only what the call reported as accepted */
	    stream_len[e] = blk.sstart + (rc > 0 ? rc : 0);
	    if (rc <= 0 && nacalls[e] > 0 && acalls[e][nacalls[e] - 1].start == blk.sstart) {
		/* nothing accepted: a record captured earlier is still pending */
		nacalls[e]--;
		cap_tok[e] = acalls[e][nacalls[e]].ptok;
		cap_len[e] = acalls[e][nacalls[e]].plen;
		cap_off[e] = acalls[e][nacalls[e]].poff;
	    }
	    if (rc <= 0 && cap_len[e] == 0 && blk.len > 0) {
		/* failed as a whole (a signal while it waited after the lower layer's refusal): like a send refused with
		   EAGAIN, the TLS library may hold a record made of the bytes it offered */
		cap_tok[e] = blk.stok;
		cap_off[e] = 0;
		cap_len[e] = blk.len;
	    } else if (rc > 0 && rc < blk.len) {
		/* accepted in part (interrupted): the TLS library may hold a record made of the
		   bytes that follow */
		cap_tok[e] = blk.stok;
		cap_off[e] = rc;
		cap_len[e] = blk.len - rc;
	    }
	    /* the call reports that nothing of the buffer was accepted, yet the peer has already been handed bytes
	       of it (it read them while the call was in progress) */
	    if (rc <= 0 && !blk.setfail && stream_rd[p] > blk.sstart)
		mi = 1;
	} else if (rc != 0 && blk.sidx >= 0) {
	    /* the call failed: withdraw the tentative registration (it is the last one) */
	    if (ndeliv[p] > blk.sidx)
		mi = 1;	/* ... but the peer has already been handed this message */
	    else
		nsent[e] = blk.sidx;
	    if (nfail[e] < MAXSENT) {
		fail_tok[e][nfail[e]] = blk.tok;
		fail_len[e][nfail[e]++] = (int)blk.len;
	    }
	}
	F.len = blk.len;
    } else {
	for (int j = 0; j < 32; j++)
	    if (rbufg[blk.cap + j] != 0xA5)
		ok = 0;
	if (rc > 0) {
	    if (rc > blk.cap)
		ok = 0;
	    else if (is_stream) {
		ok = stream_check(e, rc);
		stream_rd[e] += rc;
	    } else {
		static unsigned char exp[MAXMSG + 16];
		int i = ndeliv[e] + 1;
		if (i <= nsent[p] && rc <= sent_len[p][i - 1]) {
		    fill_msg(exp, p, sent_tok[p][i - 1], rc);
		    if (memcmp(exp, rbufg, rc) == 0) {
			mi = i;
			fl = sent_len[p][i - 1];
		    }
		}
		if (mi == 0) {
		    ok = 0;
		    for (int k = 0; k < nfail[p] && ok == 0; k++) {
			if (rc > fail_len[p][k])
			    continue;
			fill_msg(exp, p, fail_tok[p][k], rc);
			if (memcmp(exp, rbufg, rc) == 0)
			    ok = 4;
		    }
		}
		ndeliv[e]++;
	    }
	}
	F.cap = blk.cap;
    }
    settle();
    /* back to non-blocking mode for the rest of the script (only flips the flag), so that the
       observation below can use xcm_fd() */
    shim_enter(e);
    xcm_set_blocking(ep[e], false);
    shim_leave();
    F.ret = rc; F.err = rc < 0 ? err : 0; F.mi = mi; F.fl = fl; F.ok = ok; F.rst = signalled;
    F.rty = blk.setfail;	/* 1: xcm_set_blocking itself failed, the call was not made */
    emit_begin(blk.op == 's' ? "bs1" : "br1", e);
    emit_lsum(e, blk.ls);
    emit_obs();
    emit_end();
    return true;
}

static void do_receive(int e, long cap, long rc_credit, int rerr, long wc, int werr);
static int stream_check(int e, int rc);

/* D <e> <n> <cap>: endpoint e runs a small event loop (await RECEIVABLE, poll, receive) for at most n
   receives or until the blocking call in flight has returned */
static void do_drain(int e, int n, long cap)
{
    if (ep[e] == NULL || busy_ep == e)
	return;
    shim_enter(e);
    xcm_await(ep[e], XCM_SO_RECEIVABLE);
    shim_leave();
    F.cond = XCM_SO_RECEIVABLE;
    emit_begin("a", e);
    emit_noio();
    emit_obs();
    emit_end();
    for (int i = 0; i < n && !(blk.running && blk.done); i++) {
	struct pollfd pfd = { .fd = xcm_fd(ep[e]), .events = POLLIN };
	poll(&pfd, 1, 20);
	do_receive(e, cap, SHIM_UNLIMITED, 0, SHIM_UNLIMITED, 0);
    }
}

/* shrink the kernel buffers so that back-pressure is real */
static void do_smallbuf(int bytes)
{
    for (int e = 1; e <= 2; e++)
	if (kfd[e] >= 0) {
	    setsockopt(kfd[e], SOL_SOCKET, SO_SNDBUF, &bytes, sizeof(bytes));
	    setsockopt(kfd[e], SOL_SOCKET, SO_RCVBUF, &bytes, sizeof(bytes));
	}
}

/* ---- script commands ------------------------------------------------------ */
static void plan(int e, long wc, int werr, long rc, int rerr)
{
    if (kfd[e] >= 0) {
	shim_credit(kfd[e], wc, werr, rc, rerr);
	shim_io_reset(kfd[e]);
    }
    lreset();
    memset(&sslcur, 0, sizeof(sslcur));
    shim_wait_seen();
    shim_nonblock_watch(true);
}

static void unplan(int e)
{
    if (kfd[e] >= 0)
	shim_credit(kfd[e], SHIM_UNLIMITED, 0, SHIM_UNLIMITED, 0);
    shim_nonblock_watch(false);
}

/* byte streams: how a send refused with EAGAIN is retried.  pol 0: fresh data (another token),
   1: exactly the refused buffer again, 2: a longer buffer starting with the refused one */
/* byte streams: do the rc bytes just delivered to e continue the stream accepted from its peer?
   returns ok: 1 intact, 0 altered, 2 altered by the bytes of a refused send, 3 not judged */
static int stream_check(int e, int rc)
{
    int p = 3 - e;
    int ok = 1;
    if (raw_mode || unchk[e]) {
		if (unchk[e])
		    ok = 3;	/* not judged */
    } else if (stream_rd[e] + rc > stream_len[p] ||
		memcmp(stream[p] + stream_rd[e], rbufg, rc) != 0) {
		/* classify: are the unexpected bytes those of a send call that was refused (EAGAIN)?
		   ok = 2: yes (history class "refused_bytes"), ok = 0: no */
		long d = 0;
		while (d < rc && stream_rd[e] + d < stream_len[p] && stream[p][stream_rd[e] + d] == rbufg[d])
		    d++;
		ok = 0;
		long pos = stream_rd[e] + d;	/* absolute stream offset of the first unexpected byte */
		long ptok = 0, plen = 0, o = 0, poff = 0;
		if (pos >= stream_len[p]) {	/* beyond everything accepted: a send that is still refused */
		    ptok = cap_tok[p];
		    plen = cap_len[p];
		    poff = cap_off[p];
		    o = pos - stream_len[p];
		} else
		    for (int c = nacalls[p] - 1; c >= 0; c--)
			if (acalls[p][c].start <= pos) {
			    ptok = acalls[p][c].ptok;
			    plen = acalls[p][c].plen;
			    poff = acalls[p][c].poff;
			    o = pos - acalls[p][c].start;
			    break;
			}
		if (plen > 0 && o < plen) {
		    long n = rc - d < plen - o ? rc - d : plen - o;
		    long j;
		    for (j = 0; j < n; j++)
			if (rbufg[d + j] != mix(p * 11 + (unsigned)xid * 131, (unsigned)ptok, poff + o + j))
			    break;
		    if (j == n)
			ok = 2;
		    if (ok == 0 && getenv("VERIF_DEBUG_STREAM")) {
			for (long t = 1; t <= ntok[p] + 2; t++)
			    for (long off = 0; off < 70000; off++) {
				int k;
				for (k = 0; k < 12 && k < rc - d; k++)
				    if (rbufg[d + k] != mix(p * 11 + (unsigned)xid * 131, (unsigned)t, off + k))
					break;
				if (k == 12)
				    fprintf(stderr, "DEBUG stream: unexpected bytes at pos %ld (d=%ld) are token %ld offset %ld; expected ptok %ld poff %ld o %ld plen %ld\n",
					    pos, d, t, off, ptok, poff, o, plen);
			    }
		    }
		}
		unchk[e] = 1;
    }
    return ok;
}

static int last_rc, last_err;	/* result of the last do_send / do_receive / do_finish (for the event-loop driver) */

static void do_send(int e, long len, long wc, int werr, int pol)
{
    if (ep[e] == NULL)
	return;
    fin_ok[e] = 0;
    tried_send[e] = 1;
    if (werr)
	noisy = 1;
    long tok;
    int rty = 0;
    if (is_stream && pol > 0 && ref_len[e] > 0) {
	tok = ref_tok[e];
	rty = pol;
	len = pol == 1 ? ref_len[e] : (len > ref_len[e] ? len : ref_len[e] + 1 + len);
    } else
	tok = ++ntok[e];
    long blen = len > MAXMSG ? MAXMSG : len;
    if (is_stream)
	for (long j = 0; j < blen; j++)
	    sbuf[j] = mix(e * 11 + (unsigned)xid * 131, (unsigned)tok, j);
    else
	fill_msg(sbuf, e, tok, blen);
    plan(e, wc, werr, SHIM_UNLIMITED, 0);
    shim_enter(e);
    errno = 0;
    int rc = xcm_send(ep[e], sbuf, blen);
    int err = errno;
    shim_leave();
    unplan(e);
    if (is_stream) {
	if (rc > 0) {
	    if (nacalls[e] < MAXCALLS)
		acalls[e][nacalls[e]++] = (struct acall){ stream_len[e], rc, cap_tok[e], cap_len[e], cap_off[e] };
	    stream_append(e, sbuf, rc);
	    cap_len[e] = 0;
	}
	/* the buffer is the application's again as soon as the call has returned: what was accepted must not depend
	   on what the application writes into it afterwards */
	memset(sbuf, 0xEE, (size_t)blen);
	if (rc < 0 && err == EAGAIN && blen > 0) {
	    ref_tok[e] = tok;
	    ref_len[e] = blen;
	    if (cap_len[e] == 0) {
		cap_tok[e] = tok;
		cap_len[e] = blen;
		cap_off[e] = 0;
	    }
	} else
	    ref_len[e] = 0;
    } else if (rc == 0 && nsent[e] < MAXSENT) {
	sent_tok[e][nsent[e]] = tok;
	sent_len[e][nsent[e]++] = (int)blen;
    } else if (rc < 0 && nfail[e] < MAXSENT && blen > 0) {
	fail_tok[e][nfail[e]] = tok;
	fail_len[e][nfail[e]++] = (int)blen;
    }
    if (is_stream && rc < 0)	/* refused: btls may hold a half-written record from now on */
	cut[e] = 1;
    settle();
    last_rc = rc; last_err = rc < 0 ? err : 0;
    F.len = blen; F.ret = rc; F.err = rc < 0 ? err : 0; F.rty = rty;
    emit_begin("s", e);
    emit_io(e);
    emit_obs();
    emit_end();
}

static void do_receive(int e, long cap, long rc_credit, int rerr, long wc, int werr)
{
    if (ep[e] == NULL)
	return;
    int p = 3 - e;
    if (cap > MAXMSG)
	cap = MAXMSG;
    memset(rbufg, 0xA5, cap + 32);
    if (werr || rerr)
	noisy = 1;
    plan(e, wc, werr, rc_credit, rerr);
    shim_enter(e);
    errno = 0;
    int rc = xcm_receive(ep[e], rbufg, cap);
    int err = errno;
    shim_leave();
    unplan(e);
    int mi = 0, ok = 1, fl = 0;
    /* canary: nothing beyond capacity may be written */
    for (int j = 0; j < 32; j++)
	if (rbufg[cap + j] != 0xA5)
	    ok = 0;
    if (rc > 0) {
	if (rc > cap)
	    ok = 0;
	else if (is_stream) {
	    /* the delivered bytes must continue the peer's accepted stream */
	    ok = stream_check(e, rc);
	    stream_rd[e] += rc;
	    mi = 0;
	} else {
	    /* which accepted message is this?  expected next first */
	    static unsigned char exp[MAXMSG + 16];
	    int cand = ndeliv[e] + 1;
	    mi = 0;
	    if (!raw_mode) {
		for (int tries = 0; tries <= nsent[p] && mi == 0; tries++) {
		    int i = tries == 0 ? cand : tries;
		    if (i < 1 || i > nsent[p] || (tries > 0 && i == cand))
			continue;
		    int L = sent_len[p][i - 1];
		    if (rc > L)
			continue;
		    fill_msg(exp, p, sent_tok[p][i - 1], rc);
		    if (memcmp(exp, rbufg, rc) == 0) {
			mi = i;
			fl = L;
		    }
		}
		if (mi == 0) {
		    ok = 0;
		    /* is it a message whose send call reported failure? */
		    for (int i = 0; i < nfail[p] && ok == 0; i++) {
			if (rc > fail_len[p][i])
			    continue;
			fill_msg(exp, p, fail_tok[p][i], rc);
			if (memcmp(exp, rbufg, rc) == 0)
			    ok = 4;
		    }
		}
	    } else {
		/* raw peer: payload of raw frame i is fill_msg(2, i, ..) */
		int i = ndeliv[e] + 1;
		fill_msg(exp, 2, i, rc);
		mi = memcmp(exp, rbufg, rc) == 0 ? i : 0;
		if (mi == 0)
		    ok = 0;
	    }
	    ndeliv[e]++;
	}
    }
    settle();
    last_rc = rc; last_err = rc < 0 ? err : 0;
    F.cap = cap; F.ret = rc; F.err = rc < 0 ? err : 0; F.mi = mi; F.fl = fl; F.ok = ok;
    /* the end of a stream whose sender flushed and closed gracefully: how many accepted bytes never came (C02) */
    if (is_stream && !raw_mode && !noisy && !unchk[e] && !tried_send[e] && grace[p] && (rc == 0 || (rc < 0 && err != EAGAIN)))
	F.gl = (stream_len[p] - stream_rd[e]) + 1;
    emit_begin("r", e);
    emit_io(e);
    emit_obs();
    emit_end();
}

static void do_finish(int e, long wc, int werr)
{
    if (ep[e] == NULL)
	return;
    if (werr)
	noisy = 1;
    plan(e, wc, werr, SHIM_UNLIMITED, 0);
    shim_enter(e);
    errno = 0;
    int rc = xcm_finish(ep[e]);
    int err = errno;
    fin_ok[e] = rc == 0;
    shim_leave();
    unplan(e);
    settle();
    last_rc = rc; last_err = rc < 0 ? err : 0;
    F.ret = rc; F.err = rc < 0 ? err : 0;
    emit_begin("f", e);
    emit_io(e);
    emit_obs();
    emit_end();
}

static void do_await(int e, int cond)
{
    if (ep[e] == NULL)
	return;
    plan(e, SHIM_UNLIMITED, 0, SHIM_UNLIMITED, 0);
    shim_enter(e);
    errno = 0;
    int rc = xcm_await(ep[e], cond);
    int err = errno;
    shim_leave();
    unplan(e);
    F.cond = cond; F.ret = rc; F.err = rc < 0 ? err : 0;
    emit_begin("a", e);
    emit_io(e);
    emit_obs();
    emit_end();
}

static void do_close(int e, int rst)
{
    if (raw_mode && e == 2 && rawxs != NULL) {
	xcm_close(rawxs);	/* an orderly TLS close (close_notify) */
	rawxs = NULL;
    } else if (raw_mode && e == 2) {
	if (rawfd >= 0) {
	    if (rst) {
		struct linger lg = { 1, 0 };
		setsockopt(rawfd, SOL_SOCKET, SO_LINGER, &lg, sizeof(lg));
	    }
	    close(rawfd);
	    rawfd = -1;
	}
    } else {
	if (ep[e] == NULL)
	    return;
	if (rst && kfd[e] >= 0) {
	    struct linger lg = { 1, 0 };
	    setsockopt(kfd[e], SOL_SOCKET, SO_LINGER, &lg, sizeof(lg));
	}
	if (!rst && is_stream && fin_ok[e] && !cut[e] && stream_len[3 - e] == 0 && !blk.running)
	    grace[e] = 1;
	plan(e, SHIM_UNLIMITED, 0, SHIM_UNLIMITED, 0);
	shim_enter(e);
	xcm_close(ep[e]);
	shim_leave();
	shim_nonblock_watch(false);
	ep[e] = NULL;
	kfd[e] = -1;
	ssl_of[e] = NULL;
    }
    /* let the FIN / RST reach the other end */
    int p = 3 - e;
    if (kfd[p] >= 0)
	for (int i = 0; i < 4000; i++) {
	    int rv = poll_fd(kfd[p], POLLIN | POLLRDHUP);
	    if (rv & (POLLIN | POLLRDHUP | POLLHUP | POLLERR))
		break;
	    struct timespec ts = { 0, 50000 };
	    nanosleep(&ts, NULL);
	}
    F.rst = rst;
    emit_begin("c", e);
    emit_noio();
    lreset();
    emit_obs();
    emit_end();
}


/* ---- event-loop driver (C04) ------------------------------------------------
   Two applications that follow the documented protocol and trust nothing but
   poll(xcm_fd): each declares what it waits for with xcm_await, acts only when
   its descriptor is readable, and then calls the intended operation or
   xcm_finish.  Every call is an ordinary trace step (validated like any other);
   the lower layer cuts / refuses at random but fairly.  The run ends when the
   goals are met, or when both descriptors have stayed quiet for a long time:
   the final "q" line states what was still owed at that point. */
static unsigned long lrng;
static unsigned long lrand(void)
{
    lrng ^= lrng << 13; lrng ^= lrng >> 7; lrng ^= lrng << 17;
    return lrng;
}
static long lcredit(long need)
{
    unsigned long x = lrand() % 100;
    if (x < 50)
	return -1;
    if (x < 62)
	return 0;
    if (x < 85)
	return 1 + (long)(lrand() % 8);
    return 1 + (long)(lrand() % (unsigned long)(need > 1 ? need : 1));
}

static void do_loop(long n1, long n2, long lenclass, long seed, long closer)
{
    long todo[3] = { 0, n1, n2 };
    int eof[3] = { 0, 0, 0 }, dead[3] = { 0, 0, 0 }, cond[3] = { -1, -1, -1 };
    int quiet = 0, stuck = 0;
    long turns = 0, qpolls = 0;
    struct timespec t0;
    clock_gettime(CLOCK_MONOTONIC, &t0);
    lrng = 88172645463325252UL ^ ((unsigned long)seed * 2654435761UL) ^ ((unsigned long)xid << 20);
    if (raw_mode)
	return;
    for (;;) {
	/* declare interest */
	for (int e = 1; e <= 2; e++) {
	    if (ep[e] == NULL || dead[e])
		continue;
	    int want = (eof[e] ? 0 : XCM_SO_RECEIVABLE) | (todo[e] > 0 ? XCM_SO_SENDABLE : 0);
	    if (want != cond[e]) {
		do_await(e, want);
		cond[e] = want;
	    }
	}
	/* the closer closes once it has sent everything and the socket has finished its work */
	if (closer >= 1 && closer <= 2 && ep[closer] != NULL && todo[closer] == 0 && !dead[closer]) {
	    do_finish(closer, -1, 0);
	    if (last_rc == 0) {
		do_close(closer, 0);
		cond[closer] = -1;
	    }
	}
	/* goals met? */
	bool done = true;
	for (int e = 1; e <= 2; e++) {
	    int p = 3 - e;
	    if (ep[e] == NULL || dead[e])
		continue;
	    if (todo[e] > 0 && ep[p] != NULL && !dead[p] && !eof[e])
		done = false;
	    if (ep[p] != NULL && !dead[p]) {
		if (is_stream ? stream_rd[p] < stream_len[e] : ndeliv[p] < nsent[e])
		    done = false;
	    }
	    if (ep[p] == NULL && !eof[e])
		done = false;	/* the peer has closed: this end must get to see it */
	}
	if (done || ++turns > 4000)
	    break;
	/* wait until some descriptor is readable: the only thing the applications trust */
	struct pollfd pf[2];
	int idx[2], n = 0;
	for (int e = 1; e <= 2; e++)
	    if (ep[e] != NULL && !dead[e]) {
		pf[n].fd = xcm_fd(ep[e]);
		pf[n].events = POLLIN;
		pf[n].revents = 0;
		idx[n++] = e;
	    }
	if (n == 0)
	    break;
	int pr = poll(pf, n, 25);
	if (pr <= 0) {
	    qpolls++;
	    if (++quiet >= 60) {	/* 1.5 s without any readable descriptor */
		stuck = 1;
		break;
	    }
	    continue;
	}
	quiet = 0;
	int first = (int)(lrand() % (unsigned long)n);
	for (int k = 0; k < n; k++) {
	    int j = (first + k) % n;
	    int e = idx[j];
	    if (!(pf[j].revents & (POLLIN | POLLERR | POLLHUP)) || ep[e] == NULL)
		continue;
	    /* the intended operation, or finish */
	    int ops[3], no = 0;
	    if (cond[e] & XCM_SO_RECEIVABLE)
		ops[no++] = 'r';
	    if (cond[e] & XCM_SO_SENDABLE)
		ops[no++] = 's';
	    ops[no++] = 'f';
	    int op = ops[lrand() % (unsigned long)no];
	    if (no > 1 && op == 'f' && lrand() % 3 != 0)
		op = ops[lrand() % (unsigned long)(no - 1)];
	    if (op == 's') {
		long len = lenclass == 0 ? 1 + (long)(lrand() % 9)
			 : lenclass == 1 ? 1 + (long)(lrand() % 2000)
			 : 20000 + (long)(lrand() % 45000);
		do_send(e, len, is_seq ? (lrand() % 4 ? -1 : 0) : lcredit(len + 8), 0, 0);
		if (is_stream ? last_rc > 0 : last_rc == 0)
		    todo[e]--;
		else if (last_err != EAGAIN)
		    dead[e] = 1;
	    } else if (op == 'r') {
		long cap = lrand() % 4 ? 70000 : 1 + (long)(lrand() % 50);
		long rcr = is_seq ? (lrand() % 4 ? -1 : 0) : lcredit(80);
		do_receive(e, cap, rcr, 0, is_seq ? -1 : lcredit(40), 0);
		if (last_rc == 0)
		    eof[e] = 1;
		else if (last_rc < 0 && last_err != EAGAIN)
		    dead[e] = 1;
	    } else {
		do_finish(e, is_seq ? -1 : lcredit(40), 0);
		if (last_rc < 0 && last_err != EAGAIN)
		    dead[e] = 1;
	    }
	}
    }
    /* what is still owed, in terms of the applications' own histories */
    long und[3] = { 0, 0, 0 };
    for (int e = 1; e <= 2; e++) {
	int p = 3 - e;
	und[e] = is_stream ? stream_len[e] - stream_rd[p] : nsent[e] - ndeliv[p];
    }
    stepno++;
    struct timespec t1;
    clock_gettime(CLOCK_MONOTONIC, &t1);
    fprintf(out, "{\"x\":%ld,\"n\":%ld,\"op\":\"q\",\"e\":0,\"ms\":%ld,\"qp\":%ld,\"stk\":%d,\"turns\":%ld,\"und\":[%ld,%ld],\"td\":[%ld,%ld],"
	    "\"eofs\":[%d,%d],\"alive\":[%d,%d],\"clsd\":[%d,%d],\"cnd\":[%d,%d],\"w\":0",
	    xid, stepno, (t1.tv_sec - t0.tv_sec) * 1000 + (t1.tv_nsec - t0.tv_nsec) / 1000000, qpolls, stuck, turns, und[1], und[2], todo[1], todo[2], eof[1], eof[2],
	    ep[1] != NULL && !dead[1], ep[2] != NULL && !dead[2], ep[1] == NULL, ep[2] == NULL, cond[1], cond[2]);
    emit_obs();
    emit_end();
}

static void do_probe(void)
{
    emit_begin("p", 0);
    emit_noio();
    emit_obs();
    emit_end();
}

static void rawpend_add(const unsigned char *b, long n)
{
    if (rawpend_len + n > rawpend_cap) {
	rawpend_cap = (rawpend_len + n) * 2 + 4096;
	rawpend = realloc(rawpend, rawpend_cap);
    }
    memcpy(rawpend + rawpend_len, b, n);
    rawpend_len += n;
}

/* W h <value>: queue a 4-byte header; W p <n>: queue n payload bytes of the
   current raw frame; W g <n> <seed>: queue n garbage bytes */
static void do_rawqueue(const char *kind, long a, long b)
{
    static unsigned char tmp[MAXMSG + 16];
    if (kind[0] == 'h') {
	uint32_t v = htonl((uint32_t)a);
	rawpend_add((unsigned char *)&v, 4);
	raw_frames++;
	F.len = (unsigned long)(uint32_t)a > 1000000UL ? 1000000L : (long)(uint32_t)a;
	emit_begin("Wh", 2);
	emit_noio();
	emit_obs();
	emit_end();
    } else if (kind[0] == 'p') {
	if (a > MAXMSG) a = MAXMSG;
	fill_msg(tmp, 2, raw_frames, a);
	rawpend_add(tmp, a);
    } else {
	if (a > MAXMSG) a = MAXMSG;
	for (long j = 0; j < a; j++)
	    tmp[j] = mix(b, j, 77);
	rawpend_add(tmp, a);
    }
}

/* w <k>: transmit the next k queued raw bytes (-1: all) */
static void do_rawwrite(long k)
{
    long left = rawpend_len - rawpend_off;
    if (k < 0 || k > left)
	k = left;
    long done = 0;
    while (done < k && rawfd >= 0) {
	ssize_t r = shim_real_send(rawfd, rawpend + rawpend_off + done, k - done, MSG_NOSIGNAL);
	if (r < 0) {
	    if (errno == EAGAIN) { usleep(200); continue; }
	    break;
	}
	done += r;
    }
    for (int spins = 0; done < k && rawxs != NULL && spins < 20000; spins++) {
	int r = xcm_send(rawxs, rawpend + rawpend_off + done, k - done);
	if (r < 0) {
	    if (errno == EAGAIN) { usleep(200); continue; }
	    break;
	}
	done += r;
    }
    if (rawxs)
	for (int i = 0; i < 2000 && xcm_finish(rawxs) < 0 && errno == EAGAIN; i++)
	    usleep(100);
    rawpend_off += done;
    raw_written += done;
    settle();
    if (rawxs != NULL && kfd[1] >= 0) {
	/* TLS: wire bytes differ from plaintext bytes; wait until the receiving kernel queue has stopped growing */
	int last = -2, same = 0;
	for (int i = 0; i < 4000 && same < 40; i++) {
	    int av = fionread(kfd[1]);
	    if (av == last && av > 0)
		same++;
	    else if (av != last)
		same = 0;
	    else if (++same >= 100)
		break;
	    last = av;
	    struct timespec ts = { 0, 50000 };
	    nanosleep(&ts, NULL);
	}
    }
    F.len = done;
    emit_begin("w", 2);
    emit_noio();
    emit_obs();
    emit_end();
}

int main(int argc, char **argv)
{
    if (argc < 3) {
	fprintf(stderr, "usage: %s <script> <trace>\n", argv[0]);
	return 2;
    }
    FILE *in = strcmp(argv[1], "-") == 0 ? stdin : fopen(argv[1], "r");
    out = fopen(argv[2], "w");
    if (!in || !out) {
	perror("open");
	return 2;
    }
    setvbuf(out, NULL, _IOFBF, 1 << 20);
    signal(SIGPIPE, SIG_IGN);
    signal(SIGABRT, on_signal);
    signal(SIGSEGV, on_signal);
    signal(SIGALRM, on_signal);
    {
	struct sigaction sa = { 0 };
	sa.sa_handler = on_usr1;	/* no SA_RESTART: poll() fails with EINTR */
	sigaction(SIGUSR1, &sa, NULL);
    }
    kfd[1] = kfd[2] = -1;

    char line[512];
    bool live = false;
    while (fgets(line, sizeof(line), in)) {
	char cmd[8] = "", a1[64] = "", a2[64] = "";
	long v[6] = { 0, 0, 0, 0, 0, 0 };
	if (line[0] == '#' || line[0] == '\n')
	    continue;
	alarm(60);
	if (line[0] == 'X') {
	    if (blk.running && !do_blk_join(1, 300))
		live = false;
	    sscanf(line, "%7s %ld %63s %63s", cmd, &xid, a1, a2);
	    if (a2[0] == 0)
		strcpy(a2, "pair");
	    live = setup(a1, a2) == 0;
	    fprintf(out, "{\"x\":%ld,\"n\":0,\"op\":\"X\",\"e\":0,\"tp\":\"%s\",\"mode\":\"%s\",\"up\":%d",
		    xid, a1, a2, live ? 1 : 0);
	    emit_end();
	    continue;
	}
	if (!live)
	    continue;
	if (line[0] == 'B') {
	    sscanf(line, "%7s %63s %ld %ld", cmd, a1, &v[0], &v[1]);
	    do_blk_start(v[0], a1[0], v[1]);
	    continue;
	}
	if (blk.running && line[0] != 'J') {
	    /* while a blocking call is in flight only the other endpoint may act */
	    long who = 0;
	    if (sscanf(line, "%*s %ld", &who) == 1 && who == blk.e && strchr("srfac", line[0]))
		continue;
	}
	if (line[0] == 'W') {
	    sscanf(line, "%7s %63s %ld %ld", cmd, a1, &v[0], &v[1]);
	    do_rawqueue(a1, v[0], v[1]);
	    continue;
	}
	int n = sscanf(line, "%7s %ld %ld %ld %ld %ld %ld", cmd, &v[0], &v[1], &v[2], &v[3], &v[4], &v[5]);
	if (n < 1)
	    continue;
	switch (cmd[0]) {
	case 's': do_send(v[0], v[1], n > 3 ? v[2] : -1, n > 4 ? v[3] : 0, n > 5 ? v[4] : 0); break;
	case 'r': do_receive(v[0], v[1], n > 3 ? v[2] : -1, n > 4 ? v[3] : 0, n > 5 ? v[4] : -1, n > 6 ? v[5] : 0); break;
	case 'f': do_finish(v[0], n > 2 ? v[1] : -1, n > 3 ? v[2] : 0); break;
	case 'a': do_await(v[0], v[1]); break;
	case 'c': do_close(v[0], n > 2 ? v[1] : 0); break;
	case 'p': do_probe(); break;
	case 'B': /* B s <e> <len> | B r <e> <cap> handled below */ break;
	case 'J': if (!do_blk_join(n > 1 ? v[0] : 0, n > 2 ? v[1] : 300)) live = false; break;
	case 'Z': do_smallbuf(v[0]); break;
	case 'D': do_drain(v[0], v[1], n > 3 ? v[2] : 70000); break;
	case 'w': do_rawwrite(n > 1 ? v[0] : -1); break;
	case 'L': do_loop(v[0], v[1], n > 3 ? v[2] : 0, n > 4 ? v[3] : 1, n > 5 ? v[4] : 0); break;
	default: break;
	}
    }
    alarm(0);
    if (blk.running)
	do_blk_join(1, 300);
    close_all();
    fclose(out);
    return 0;
}
