/*
 * tlsmx_exec - replays cells of the TLS policy matrix (spec/TlsPolicy.tla, property C09) as REAL
 * handshakes between a server socket, the connection it accepts and a connecting socket, all
 * non-blocking and inside this one process, and records what each side observed.  The harness
 * never judges: the records are validated by TLC against spec/TlsPolicyTrace.tla.
 *
 * usage: tlsmx_exec <credentials dir> <vector file> <output ndjson>
 *
 * vector file, one block per cell (the attribute lists are computed by the specification):
 *   cell <id> <tls|btls|utls> <ip|name>
 *   S <attr> <kind> [<value>]      attribute of the xcm_server_a() map
 *   L <attr> <kind> [<value>]      set on the server socket after its creation (xcm_attr_set_*)
 *   A <attr> <kind> [<value>]      attribute of the xcm_accept_a() map
 *   C <attr> <kind> [<value>]      attribute of the xcm_connect_a() map
 *   end
 * kinds: b = boolean (T|F), s = string, e = empty string, f = string "<credentials dir>/<value>" (a file
 * attribute), v = binary attribute whose value is the content of <credentials dir>/<value>.
 *
 * Per cell: server = xcm_server_a(<tp>:<addr>:0), client = xcm_connect_a(address of the server), then both
 * ends are driven alternately (xcm_accept_a, xcm_finish, xcm_send of one 8-byte message per side,
 * xcm_receive) until each is settled: failed (an errno other than EAGAIN), closed by the peer, complete
 * (finished, own message accepted, peer's message received), or nothing moves any more (the descriptors of
 * both ends stay silent over several polls).  A premature "nothing moves" can only lose an observation
 * (a side is reported as not established), it can never make a side look usable.
 *
 * utls runs over its TLS leg: the server binds the wildcard address, so its UX name differs from the one
 * derived from the client's address and the client falls back to TLS; "utx":1 is reported if a connection
 * ended up on UX anyway.
 */
#include <errno.h>
#include <poll.h>
#include <stdbool.h>
#include <stdint.h>
#include <stdio.h>
#include <stdlib.h>
#include <string.h>
#include <unistd.h>

#include <xcm.h>
#include <xcm_attr.h>
#include <xcm_attr_map.h>

#define MSG_LEN 8
#define MAX_ROUNDS 4000
#define IDLE_POLL_MS 150
#define IDLE_LIMIT 3

/* the common link rule wraps the internal layer seams; this harness does not use them */
struct xcm_socket;
int __real_xcm_tp_socket_send(struct xcm_socket *s, const void *buf, size_t len);
int __real_xcm_tp_socket_receive(struct xcm_socket *s, void *buf, size_t cap);
int __real_xcm_tp_socket_finish(struct xcm_socket *s);
int __wrap_xcm_tp_socket_send(struct xcm_socket *s, const void *buf, size_t len)
{
    return __real_xcm_tp_socket_send(s, buf, len);
}
int __wrap_xcm_tp_socket_receive(struct xcm_socket *s, void *buf, size_t cap)
{
    return __real_xcm_tp_socket_receive(s, buf, cap);
}
int __wrap_xcm_tp_socket_finish(struct xcm_socket *s)
{
    return __real_xcm_tp_socket_finish(s);
}

static const char *creds;
static FILE *out;

struct ent { char place; char name[64]; char kind; char value[256]; };
#define MAX_ENT 96

struct side {
    struct xcm_socket *sock;
    const char *msg, *expect;
    int est;            /* xcm_finish returned 0 at least once */
    int sent;           /* own message accepted by xcm_send */
    int got;            /* 0 nothing, 1 the peer's message intact, 2 other bytes */
    int nrx;
    char rxbuf[MSG_LEN];
    int ferr;           /* errno of the failing call, 0 = none */
    const char *fop;    /* which call failed */
    int closed;         /* xcm_receive returned 0 */
    bool done;
    char ski[80];
    char tp[16];
    char pn[128];
};

static void die(const char *what, const char *arg)
{
    fprintf(stderr, "tlsmx_exec: %s %s\n", what, arg ? arg : "");
    exit(3);
}

static char *load(const char *file, size_t *len)
{
    char path[600];
    snprintf(path, sizeof(path), "%s/%s", creds, file);
    FILE *f = fopen(path, "rb");
    if (f == NULL)
	die("cannot read by-value credential", path);
    char *buf = malloc(1 << 20);
    *len = fread(buf, 1, (1 << 20) - 1, f);
    /* by-value material is padded with trailing newlines (ignored by the PEM parser) to one common length, so
       that different credentials of one kind have the same byte length: whatever identifies a configuration must then
       depend on the content itself, not on its length or its first bytes */
    if (*len > 0 && buf[0] == '-') {
	size_t target = *len <= 12288 ? 12288 : *len;	/* one length for (nearly) everything */
	while (*len < target)
	    buf[(*len)++] = '\n';
    }
    buf[*len] = '\0';
    fclose(f);
    return buf;
}

static struct xcm_attr_map *make_map(struct ent *ents, int n, char place)
{
    struct xcm_attr_map *m = xcm_attr_map_create();
    xcm_attr_map_add_bool(m, "xcm.blocking", false);
    for (int i = 0; i < n; i++) {
	struct ent *e = &ents[i];
	if (e->place != place)
	    continue;
	switch (e->kind) {
	case 'b':
	    xcm_attr_map_add_bool(m, e->name, e->value[0] == 'T');
	    break;
	case 's':
	    xcm_attr_map_add_str(m, e->name, e->value);
	    break;
	case 'e':
	    xcm_attr_map_add_str(m, e->name, "");
	    break;
	case 'f': {
	    char path[600];
	    snprintf(path, sizeof(path), "%s/%s", creds, e->value);
	    xcm_attr_map_add_str(m, e->name, path);
	    break;
	}
	case 'v': {
	    size_t len;
	    char *data = load(e->value, &len);
	    xcm_attr_map_add_bin(m, e->name, data, len);
	    free(data);
	    break;
	}
	default:
	    die("unknown attribute kind in", e->name);
	}
    }
    return m;
}

/* attributes set on the server socket after its creation; returns the first errno met (0 = none) */
static int late_set(struct xcm_socket *server, struct ent *ents, int n)
{
    int first = 0;
    for (int i = 0; i < n; i++) {
	struct ent *e = &ents[i];
	if (e->place != 'L')
	    continue;
	int rc;
	if (e->kind == 'b')
	    rc = xcm_attr_set_bool(server, e->name, e->value[0] == 'T');
	else if (e->kind == 's')
	    rc = xcm_attr_set_str(server, e->name, e->value);
	else if (e->kind == 'e')
	    rc = xcm_attr_set_str(server, e->name, "");
	else if (e->kind == 'f') {
	    char path[600];
	    snprintf(path, sizeof(path), "%s/%s", creds, e->value);
	    rc = xcm_attr_set_str(server, e->name, path);
	} else {
	    size_t len;
	    char *data = load(e->value, &len);
	    rc = xcm_attr_set(server, e->name, xcm_attr_type_bin, data, len);
	    free(data);
	}
	if (rc < 0 && first == 0)
	    first = errno ? errno : -2;
    }
    return first;
}

static void fail(struct side *s, const char *op, int err)
{
    s->ferr = err ? err : -2;
    s->fop = op;
    s->done = true;
}

static void read_attrs(struct side *s)
{
    if (s->sock == NULL)
	return;
    unsigned char ski[64];
    enum xcm_attr_type type;
    int n = xcm_attr_get(s->sock, "tls.peer_subject_key_id", &type, ski, sizeof(ski));
    if (n > 0 && n <= 32)
	for (int i = 0; i < n; i++)
	    sprintf(s->ski + 2 * i, "%02x", ski[i]);
    else if (n < 0)
	snprintf(s->ski, sizeof(s->ski), "err%d", errno);
    char buf[128];
    if (xcm_attr_get_str(s->sock, "xcm.transport", buf, sizeof(buf)) > 0)
	snprintf(s->tp, sizeof(s->tp), "%s", buf);
}

/* one turn of a connection socket; returns true if anything changed */
static bool step(struct side *s, bool bytestream)
{
    bool progress = false;
    if (s->done || s->sock == NULL)
	return false;
    if (!s->est) {
	int rc = xcm_finish(s->sock);
	if (rc == 0) {
	    s->est = 1;
	    progress = true;
	    read_attrs(s);
	} else if (errno != EAGAIN) {
	    fail(s, "finish", errno);
	    return true;
	}
    }
    if (!s->sent) {
	int rc = xcm_send(s->sock, s->msg, MSG_LEN);
	if (rc >= 0 && (!bytestream || rc == MSG_LEN)) {
	    s->sent = 1;
	    progress = true;
	} else if (rc >= 0) {
	    fail(s, "send_partial", EIO);       /* an 8-byte write on an idle connection is never split */
	    return true;
	} else if (errno != EAGAIN) {
	    fail(s, "send", errno);
	    return true;
	}
    }
    if (!s->got) {
	char buf[64];
	int rc = xcm_receive(s->sock, buf, bytestream ? (size_t)(MSG_LEN - s->nrx) : sizeof(buf));
	if (rc > 0) {
	    progress = true;
	    if (bytestream) {
		memcpy(s->rxbuf + s->nrx, buf, rc);
		s->nrx += rc;
		if (s->nrx == MSG_LEN)
		    s->got = memcmp(s->rxbuf, s->expect, MSG_LEN) == 0 ? 1 : 2;
	    } else
		s->got = (rc == MSG_LEN && memcmp(buf, s->expect, MSG_LEN) == 0) ? 1 : 2;
	} else if (rc == 0) {
	    s->closed = 1;
	    s->done = true;
	    return true;
	} else if (errno != EAGAIN) {
	    fail(s, "receive", errno);
	    return true;
	}
    }
    if (s->est && s->sent && s->got)
	s->done = true;
    return progress;
}

static void side_init(struct side *s, const char *msg, const char *expect)
{
    memset(s, 0, sizeof(*s));
    s->msg = msg;
    s->expect = expect;
    s->fop = "none";
}

static void close_side(struct side *s)
{
    if (s->sock != NULL) {
	xcm_close(s->sock);
	s->sock = NULL;
    }
}

static void print_side(const char *p, struct side *s)
{
    fprintf(out, ",\"%s_est\":%d,\"%s_tx\":%d,\"%s_rx\":%d,\"%s_fe\":%d,\"%s_fop\":\"%s\",\"%s_cl\":%d,"
	    "\"%s_ski\":\"%s\",\"%s_tp\":\"%s\"", p, s->est, p, s->sent, p, s->got, p, s->ferr, p, s->fop, p,
	    s->closed, p, s->ski, p, s->tp);
}

static void run_cell(long id, const char *tp, const char *hostkind, struct ent *ents, int n)
{
    bool bytestream = strcmp(tp, "btls") == 0;
    struct side c, a;
    side_init(&c, "c09-c2s!", "c09-s2c!");
    side_init(&a, "c09-s2c!", "c09-c2s!");
    int sc = 0, cc = -1, ac = -1, late = 0, rounds = 0, stuck = 0;

    char saddr[128];
    snprintf(saddr, sizeof(saddr), "%s:%s:0", tp, strcmp(tp, "utls") == 0 ? "0.0.0.0" : "127.0.0.1");

    struct xcm_attr_map *sm = make_map(ents, n, 'S');
    struct xcm_attr_map *am = make_map(ents, n, 'A');
    struct xcm_attr_map *cm = make_map(ents, n, 'C');

    errno = 0;
    struct xcm_socket *server = xcm_server_a(saddr, sm);
    if (server == NULL)
	sc = errno ? errno : -2;
    else {
	late = late_set(server, ents, n);

	const char *la = xcm_local_addr(server);
	const char *colon = la ? strrchr(la, ':') : NULL;
	if (colon == NULL)
	    die("no local address on", saddr);
	char caddr[128];
	snprintf(caddr, sizeof(caddr), "%s:%s:%s", tp, strcmp(hostkind, "name") == 0 ? "localhost" : "127.0.0.1",
		 colon + 1);

	errno = 0;
	c.sock = xcm_connect_a(caddr, cm);
	cc = c.sock == NULL ? (errno ? errno : -2) : 0;

	int idle = 0;
	bool accepting = c.sock != NULL;
	if (c.sock == NULL)
	    c.done = true;
	a.done = !accepting;
	while (rounds < MAX_ROUNDS) {
	    rounds++;
	    bool progress = false;
	    if (accepting) {
		errno = 0;
		a.sock = xcm_accept_a(server, am);
		if (a.sock != NULL) {
		    ac = 0;
		    accepting = false;
		    progress = true;
		} else if (errno != EAGAIN) {
		    ac = errno ? errno : -2;
		    accepting = false;
		    a.done = true;
		    progress = true;
		}
	    }
	    /* a side that failed or saw the peer close is closed at once (the peer then observes the
	       teardown); a complete side stays open until the other one is settled */
	    progress |= step(&c, bytestream);
	    if (c.done && (c.ferr != 0 || c.closed))
		close_side(&c);
	    progress |= step(&a, bytestream);
	    if (a.done && (a.ferr != 0 || a.closed))
		close_side(&a);
	    if (c.done && a.done && !accepting)
		break;
	    if (progress) {
		idle = 0;
		continue;
	    }
	    struct pollfd pfd[3];
	    int np = 0;
	    if (accepting) {
		xcm_await(server, XCM_SO_ACCEPTABLE);
		pfd[np++] = (struct pollfd) { .fd = xcm_fd(server), .events = POLLIN };
	    }
	    if (!c.done && c.sock != NULL) {
		xcm_await(c.sock, XCM_SO_RECEIVABLE | (c.sent ? 0 : XCM_SO_SENDABLE));
		pfd[np++] = (struct pollfd) { .fd = xcm_fd(c.sock), .events = POLLIN };
	    }
	    if (!a.done && a.sock != NULL) {
		xcm_await(a.sock, XCM_SO_RECEIVABLE | (a.sent ? 0 : XCM_SO_SENDABLE));
		pfd[np++] = (struct pollfd) { .fd = xcm_fd(a.sock), .events = POLLIN };
	    }
	    if (np == 0)
		break;
	    int rc = poll(pfd, np, IDLE_POLL_MS);
	    if (rc == 0 && ++idle >= IDLE_LIMIT) {
		stuck = 1;
		break;
	    }
	}
	if (c.sock != NULL && c.est && c.ski[0] == '\0')
	    read_attrs(&c);
	if (a.sock != NULL && a.est && a.ski[0] == '\0')
	    read_attrs(&a);
    }

    close_side(&c);
    close_side(&a);
    if (server != NULL)
	xcm_close(server);
    xcm_attr_map_destroy(sm);
    xcm_attr_map_destroy(am);
    xcm_attr_map_destroy(cm);

    int utx = (c.tp[0] && strcmp(c.tp, "ux") == 0) || (a.tp[0] && strcmp(a.tp, "ux") == 0);
    fprintf(out, "{\"id\":%ld,\"sc\":%d,\"late\":%d,\"cc\":%d,\"ac\":%d,\"rounds\":%d,\"stuck\":%d,\"utx\":%d", id, sc,
	    late, cc, ac, rounds, stuck, utx);
    print_side("c", &c);
    print_side("s", &a);
    fprintf(out, "}\n");
    fflush(out);
}

int main(int argc, char **argv)
{
    if (argc != 4) {
	fprintf(stderr, "usage: tlsmx_exec <credentials dir> <vector file> <output ndjson>\n");
	return 2;
    }
    creds = argv[1];
    FILE *in = fopen(argv[2], "r");
    out = fopen(argv[3], "w");
    if (in == NULL || out == NULL)
	die("cannot open", in == NULL ? argv[2] : argv[3]);

    char nodef[600];
    snprintf(nodef, sizeof(nodef), "%s/no-default-credentials", creds);
    setenv("XCM_TLS_CERT", nodef, 1);
    setenv("XCM_CTL", "/nonexistent-xcm-ctl", 1);

    static struct ent ents[MAX_ENT];
    int n = 0;
    long id = -1;
    char tp[16] = "", hostkind[16] = "";
    char line[1024];
    while (fgets(line, sizeof(line), in) != NULL) {
	char *nl = strchr(line, '\n');
	if (nl)
	    *nl = '\0';
	if (line[0] == '\0' || line[0] == '#')
	    continue;
	if (strncmp(line, "cell ", 5) == 0) {
	    if (sscanf(line, "cell %ld %15s %15s", &id, tp, hostkind) != 3)
		die("bad cell line", line);
	    n = 0;
	} else if (strcmp(line, "end") == 0) {
	    if (id < 0)
		die("end without cell", NULL);
	    run_cell(id, tp, hostkind, ents, n);
	    id = -1;
	} else if (strchr("SLAC", line[0]) != NULL && line[1] == ' ') {
	    if (n >= MAX_ENT)
		die("too many attributes", line);
	    struct ent *e = &ents[n++];
	    memset(e, 0, sizeof(*e));
	    e->place = line[0];
	    int off = 0;
	    if (sscanf(line + 2, "%63s %c %n", e->name, &e->kind, &off) < 2)
		die("bad attribute line", line);
	    if (off > 0)
		snprintf(e->value, sizeof(e->value), "%s", line + 2 + off);
	} else
	    die("bad line", line);
    }
    fclose(in);
    fclose(out);
    return 0;
}
