/*
 * timer_exec <script> <trace>: drives the real libxcm/core/timer_mgr.c (over the real xpoll.c) through the call
 * sequences of spec/TimerMgr.tla in REAL time (one tick = UNIT_MS) and records, per step, what
 * spec/TimerMgrTrace.tla compares with the model:
 *   tb, ta   CLOCK_MONOTONIC just before and after the call (microseconds since the execution began): the
 *            library reads the same clock somewhere in between
 *   ret      the id returned / the answer of has_expired
 *   set      every timerfd_settime made inside the call (link-time wrap): the programmed absolute time in
 *            microseconds since the execution began, -1 = disarmed
 *   p1,rd,p2 the clock before the poll, whether the socket's epoll descriptor polls readable, the clock after
 * Nothing is concluded from an observation that falls within the tolerance of an expiry (the trace
 * specification decides); a delayed process therefore cannot produce a verdict.
 *
 * script:  X <id> | sch <ticks> | can <id> | ack <id> | res <ticks> <id> | exp <id> | tk <ticks> | E
 */
#include <errno.h>
#include <poll.h>
#include <setjmp.h>
#include <signal.h>
#include <stdbool.h>
#include <stdint.h>
#include <stdio.h>
#include <stdlib.h>
#include <string.h>
#include <sys/timerfd.h>
#include <time.h>
#include <unistd.h>

#include "xpoll.h"
#include "timer_mgr.h"

#define UNIT_MS 20
/* a timer of n > 0 ticks expires half a tick after the n-th tick, so that what is observed at the tick boundaries
   (where the scripts make their calls) is well away from every expiry */
#define REL(n) ((n) <= 0 ? 0.0 : ((n) * UNIT_MS + UNIT_MS / 2) / 1000.0)

static struct timespec t0;
static long us_now(void)
{
    struct timespec t;
    clock_gettime(CLOCK_MONOTONIC, &t);
    return (t.tv_sec - t0.tv_sec) * 1000000L + (t.tv_nsec - t0.tv_nsec) / 1000;
}

static long sets[16];
static int nsets;
static bool in_call;

int __real_timerfd_settime(int fd, int flags, const struct itimerspec *n, struct itimerspec *o);
int __wrap_timerfd_settime(int fd, int flags, const struct itimerspec *n, struct itimerspec *o)
{
    if (in_call && nsets < 16) {
	if (n->it_value.tv_sec == 0 && n->it_value.tv_nsec == 0)
	    sets[nsets++] = -1;
	else if (flags & TFD_TIMER_ABSTIME) {
	    long v = (n->it_value.tv_sec - t0.tv_sec) * 1000000L + (n->it_value.tv_nsec - t0.tv_nsec) / 1000;
	    sets[nsets++] = v < 0 ? 0 : v;	/* "as soon as possible" (1 ns) is an absolute time long past */
	} else
	    sets[nsets++] = -2;			/* a relative time: never used by timer_mgr.c */
    }
    return __real_timerfd_settime(fd, flags, n, o);
}

static sigjmp_buf jb;
static void on_abort(int sig)
{
    (void)sig;
    siglongjmp(jb, 1);
}

static FILE *out;
static long xid, stepno;
static struct xpoll *xp;

static void emit(const char *o, long a, long b, long tb, long ta, long ret, int crash)
{
    stepno++;
    fprintf(out, "{\"x\":%ld,\"n\":%ld,\"op\":[\"%s\",%ld,%ld],\"tb\":%ld,\"ta\":%ld,\"ret\":%ld,\"set\":[", xid, stepno, o, a, b, tb, ta, ret);
    for (int i = 0; i < nsets; i++)
	fprintf(out, "%s%ld", i ? "," : "", sets[i]);
    long p1 = us_now();
    int rd = 0;
    if (xp && !crash) {
	struct pollfd pf = { .fd = xpoll_get_fd(xp), .events = POLLIN };
	rd = poll(&pf, 1, 0) > 0 && (pf.revents & POLLIN);
    }
    long p2 = us_now();
    fprintf(out, "],\"p1\":%ld,\"rd\":%d,\"p2\":%ld,\"crash\":%d}\n", p1, rd, p2, crash);
}

int main(int argc, char **argv)
{
    if (argc < 3)
	return 2;
    FILE *in = fopen(argv[1], "r");
    out = fopen(argv[2], "w");
    if (!in || !out)
	return 2;
    setvbuf(out, NULL, _IOLBF, 0);
    signal(SIGABRT, on_abort);
    signal(SIGSEGV, on_abort);
    struct timer_mgr *tm = NULL;
    bool skip = false;
    char line[128];
    while (fgets(line, sizeof(line), in)) {
	char o[16];
	long a = 0, b = 0;
	if (sscanf(line, "%15s %ld %ld", o, &a, &b) < 1)
	    continue;
	nsets = 0;
	if (strcmp(o, "X") == 0) {
	    xid = a;
	    stepno = -1;
	    skip = false;
	    clock_gettime(CLOCK_MONOTONIC, &t0);
	    xp = xpoll_create(NULL);
	    tm = xp ? timer_mgr_create(xp, NULL) : NULL;
	    emit("X", 0, 0, 0, 0, 0, 0);
	    continue;
	}
	if (skip || tm == NULL)
	    continue;
	if (strcmp(o, "E") == 0) {
	    timer_mgr_destroy(tm, true);
	    xpoll_destroy(xp);
	    tm = NULL;
	    xp = NULL;
	    continue;
	}
	if (strcmp(o, "tk") == 0) {
	    struct timespec ts = { 0, a * UNIT_MS * 1000000L };
	    while (nanosleep(&ts, &ts) < 0 && errno == EINTR)
		;
	    long t = us_now();
	    emit(o, a, b, t, t, 0, 0);
	    continue;
	}
	long ret = 0, tb, ta;
	if (sigsetjmp(jb, 1) != 0) {
	    in_call = false;
	    long t = us_now();
	    emit(o, a, b, t, t, -1, 1);
	    skip = true;
	    continue;
	}
	int64_t id;
	tb = us_now();
	in_call = true;
	if (strcmp(o, "sch") == 0)
	    ret = (long)timer_mgr_schedule(tm, REL(a));
	else if (strcmp(o, "can") == 0) {
	    id = a;
	    timer_mgr_cancel(tm, &id);
	    ret = (long)id;
	} else if (strcmp(o, "ack") == 0) {
	    id = a;
	    timer_mgr_ack(tm, &id);
	    ret = (long)id;
	} else if (strcmp(o, "res") == 0) {
	    id = b;
	    timer_mgr_reschedule(tm, REL(a), &id);
	    ret = (long)id;
	} else if (strcmp(o, "exp") == 0)
	    ret = timer_mgr_has_expired(tm, a) ? 1 : 0;
	in_call = false;
	ta = us_now();
	emit(o, a, b, tb, ta, ret, 0);
    }
    fclose(out);
    return 0;
}
