/* C08 - life cycle harness: runs life-cycle scenarios of the real library under
 * fault injection (shim/shim_life.c) and records, per execution, every API call
 * and every lower-layer call as one NDJSON line each; spec/LifecycleTrace.tla
 * judges the trace.  Observations the model cannot make itself are measured
 * here and logged as events for the specification to judge: descriptor table
 * before/after, LeakSanitizer's recoverable leak check, files left behind,
 * abort, and what the owner sees after a forked child called xcm_cleanup().
 *
 * usage: life_exec <plan> <out.ndjson> <info> <rundir>
 *   plan line: run <x> <scen> <tp> <flags> <k> <f1nth> <f1err> <f2nth> <f2err> <forkpt> <order>
 *     scen : pair | conning
 *     flags: 1 control interface on, 2 blocking, 4 TLS credentials by value,
 *            8 decoy descriptors, 16 control client attached, 32 no traffic
 *     k    : number of connections;  forkpt: 0 none, 1 server only, 3 established
 *     order: 0 close clients, accepted, server; 1 the reverse
 * Every execution runs in its own forked process (driver D -> P); a fork point
 * forks P -> C, C calls xcm_cleanup() on every socket and hands its part of the
 * trace back through a pipe. */
#define _GNU_SOURCE
#include <dirent.h>
#include <errno.h>
#include <fcntl.h>
#include <poll.h>
#include <signal.h>
#include <stdarg.h>
#include <stdio.h>
#include <stdlib.h>
#include <string.h>
#include <sys/socket.h>
#include <sys/stat.h>
#include <sys/un.h>
#include <sys/wait.h>
#include <time.h>
#include <unistd.h>
#include <netinet/in.h>
#include <arpa/inet.h>

#include <sanitizer/lsan_interface.h>
#include <sanitizer/common_interface_defs.h>

#include "xcm.h"
#include "xcm_attr.h"
#include "xcm_attr_map.h"
#include "ctl_proto.h"
#include "shim_life.h"

#define F_CTL 1
#define F_BLOCK 2
#define F_BYVAL 4
#define F_DECOY 8
#define F_CTLCLI 16
#define F_BLKWAKE 128	/* with blocking + control interface: control clients come and go while the server sits in a
			   blocking xcm_accept(); the connection arrives afterwards, from a forked helper process */
#define F_CTLCLI2 64	/* with F_CTLCLI: a second control client on the same socket (both attached when it is closed) */
#define F_NOTRAFFIC 32
#define F_HANDOVER 256	/* at the fork point the roles are swapped: the process that created the sockets calls xcm_cleanup()
			   on all of them, the forked child owns them from then on, uses them and closes them (a
			   fork-per-connection server): files and descriptors must be gone all the same */

struct cfg {
    int x;
    char scen[16], tp[16];
    int flags, k, f1n, f1e, f2n, f2e, forkpt, order;
};

static const char *rundir;
static int out_fd = -1, info_fd = -1;

/* ---- trace buffer (static: nothing here allocates) ------------------------ */
#define TB_CAP (48u << 20)
static char tb[TB_CAP];
static size_t tbn, tb_child_from;
static int tb_over;
static int cur_x, cur_n;
static const char *cur_mode = "owner";
static int child_pipe = -1;	/* >= 0: this process is C */
static int handover_owner;	/* this process is C and owns the sockets (F_HANDOVER) */

struct line {
    const char *ev, *op, *tp, *st, *atp, *call, *p, *det;
    int h, blk, ret, err, il, fd, fd2, cls, inj;
    long a, res, v1, v2, v3;
};
static const struct line L0 = { "", "", "", "", "", "", "", "", 0, 0, 0, 0, 0, -1, -1, 0, 0, 0, 0, 0, 0, 0 };

static void jstr(char *o, size_t cap, const char *s)
{
    size_t n = 0;
    for (; *s && n + 2 < cap; s++) {
	unsigned char c = (unsigned char)*s;
	if (c == '"' || c == '\\')
	    c = '\'';
	if (c < 32 || c > 126)
	    c = '?';
	o[n++] = (char)c;
    }
    o[n] = '\0';
}

static void emit(const struct line *l)
{
    char p[256], det[600];
    jstr(p, sizeof(p), l->p);
    jstr(det, sizeof(det), l->det);
    if (tbn + 1200 > TB_CAP) {
	tb_over = 1;
	return;
    }
    int n = snprintf(tb + tbn, TB_CAP - tbn,
		     "{\"x\":%d,\"n\":%d,\"ev\":\"%s\",\"m\":\"%s\",\"op\":\"%s\",\"h\":%d,\"tp\":\"%s\",\"st\":\"%s\",\"blk\":%d,"
		     "\"ret\":%d,\"err\":%d,\"atp\":\"%s\",\"call\":\"%s\",\"il\":%d,\"fd\":%d,\"fd2\":%d,\"a\":%ld,\"res\":%ld,"
		     "\"cls\":%d,\"inj\":%d,\"p\":\"%s\",\"v1\":%ld,\"v2\":%ld,\"v3\":%ld,\"det\":\"%s\"}\n",
		     cur_x, ++cur_n, l->ev, cur_mode, l->op, l->h, l->tp, l->st, l->blk, l->ret, l->err, l->atp, l->call,
		     l->il, l->fd, l->fd2, l->a, l->res, l->cls, l->inj, p, l->v1, l->v2, l->v3, det);
    tbn += (size_t)n;
}

static void wr_all(int fd, const char *b, size_t n)
{
    while (n > 0) {
	ssize_t r = write(fd, b, n);
	if (r < 0) {
	    if (errno == EINTR)
		continue;
	    _exit(70);
	}
	b += r;
	n -= (size_t)r;
    }
}

static char ctl_dir[160], uxf_path[160];

/* classes of the failable calls of this execution, for the orchestrator */
static char cls_seq[1 << 16];
static size_t cls_n;

static void drain(void)
{
    const struct ls_ev *e;
    size_t n = ls_log(&e);
    if (n == (size_t)-1) {
	struct line l = L0;
	l.ev = "internal";
	l.det = "shim log overflow";
	emit(&l);
	n = 0;
    }
    for (size_t i = 0; i < n; i++) {
	struct line l = L0;
	l.ev = "sys";
	l.call = e[i].call;
	l.il = e[i].inlib;
	l.fd = e[i].fd;
	l.fd2 = e[i].fd2;
	l.a = e[i].a;
	l.res = e[i].res;
	l.err = e[i].err;
	l.cls = e[i].cls;
	l.inj = e[i].inj;
	l.p = ls_path(e[i].path);
	if (strcmp(e[i].call, "bind") == 0 || strcmp(e[i].call, "unlink") == 0) {
	    /* class of the name: 0 none, 1 control socket of the library's naming, 2 other file, 3 abstract */
	    size_t cl = strlen(ctl_dir);
	    l.a = l.p[0] == '\0' ? 0 : l.p[0] == '@' ? 3 :
		(cl > 0 && strncmp(l.p, ctl_dir, cl) == 0 && strncmp(l.p + cl, "/ctl-", 5) == 0) ? 1 : 2;
	}
	emit(&l);
	if (e[i].cls && e[i].inlib && child_pipe < 0 && cls_n + 8 < sizeof(cls_seq))
	    cls_n += (size_t)snprintf(cls_seq + cls_n, sizeof(cls_seq) - cls_n, "%s%d", cls_n ? "," : "", e[i].cls);
    }
    ls_log_drop();
}

static void finish_process(void)
{
    if (tb_over) {
	static const char m[] = "{\"internal\":\"trace buffer overflow\"}\n";
	wr_all(child_pipe >= 0 ? child_pipe : out_fd, m, sizeof(m) - 1);
	_exit(71);
    }
    if (child_pipe >= 0)
	wr_all(child_pipe, tb + tb_child_from, tbn - tb_child_from);
    else {
	char b[400];
	wr_all(out_fd, tb, tbn);
	int n = snprintf(b, sizeof(b), "x %d N %d d1 %d d2 %d cls ", cur_x, ls_count(), ls_delivered(0), ls_delivered(1));
	wr_all(info_fd, b, (size_t)n);
	wr_all(info_fd, cls_seq, cls_n);
	wr_all(info_fd, "\n", 1);
    }
    _exit(0);
}

static void on_abort(int sig)
{
    static int once;
    if (once++)
	_exit(72);
    ls_leave();
    drain();
    struct line l = L0;
    l.ev = "abort";
    l.v1 = sig;
    l.det = sig == SIGABRT ? "SIGABRT (assertion, ut_fatal or sanitizer report)" : "fatal signal";
    emit(&l);
    finish_process();
}

/* observation points of the library (libxcm/core/verif.h), if this source tree has them */
extern void (*xcm_verif_cb)(const char *ev, long a, long b, long c) __attribute__((weak));

static void verif_cb(const char *ev, long a, long b, long c)
{
    (void)c;
    if (strncmp(ev, "afd_", 4) == 0)
	ls_note(strcmp(ev, "afd_new") == 0 ? "afd_new" : strcmp(ev, "afd_get") == 0 ? "afd_get" :
		strcmp(ev, "afd_put") == 0 ? "afd_put" : "afd_close", (int)a, b, 0, 0);
}

/* ---- descriptor table ------------------------------------------------------ */
struct fdent { int fd; char tgt[96]; };
struct fdtab { int n; struct fdent e[4096]; };

static void fd_snapshot(struct fdtab *t)
{
    t->n = 0;
    DIR *d = opendir("/proc/self/fd");
    if (d == NULL)
	_exit(73);
    struct dirent *de;
    while ((de = readdir(d)) != NULL && t->n < 4096) {
	if (de->d_name[0] == '.')
	    continue;
	int fd = atoi(de->d_name);
	if (fd == dirfd(d))
	    continue;
	char path[64];
	snprintf(path, sizeof(path), "/proc/self/fd/%d", fd);
	ssize_t r = readlink(path, t->e[t->n].tgt, sizeof(t->e[t->n].tgt) - 1);
	t->e[t->n].tgt[r < 0 ? 0 : r] = '\0';
	t->e[t->n].fd = fd;
	t->n++;
    }
    closedir(d);
}

static const struct fdent *fd_find(const struct fdtab *t, int fd)
{
    for (int i = 0; i < t->n; i++)
	if (t->e[i].fd == fd)
	    return &t->e[i];
    return NULL;
}

/* returns number of differences; describes the first few */
static int fd_compare(const struct fdtab *a, const struct fdtab *b, char *det, size_t cap)
{
    int nd = 0;
    size_t n = 0;
    det[0] = '\0';
    for (int i = 0; i < b->n; i++) {
	const struct fdent *o = fd_find(a, b->e[i].fd);
	if (o == NULL || strcmp(o->tgt, b->e[i].tgt) != 0) {
	    nd++;
	    if (n + 120 < cap)
		n += (size_t)snprintf(det + n, cap - n, "%s fd %d %s;", o ? "changed" : "extra", b->e[i].fd, b->e[i].tgt);
	}
    }
    for (int i = 0; i < a->n; i++)
	if (fd_find(b, a->e[i].fd) == NULL) {
	    nd++;
	    if (n + 120 < cap)
		n += (size_t)snprintf(det + n, cap - n, "missing fd %d %s;", a->e[i].fd, a->e[i].tgt);
	}
    return nd;
}

static struct fdtab base_tab, now_tab;

/* ---- files ------------------------------------------------------------------ */

static int count_dir(const char *dir, char *names, size_t cap)
{
    int n = 0;
    size_t k = 0;
    if (names)
	names[0] = '\0';
    DIR *d = opendir(dir);
    if (d == NULL)
	return 0;
    struct dirent *de;
    while ((de = readdir(d)) != NULL) {
	if (de->d_name[0] == '.')
	    continue;
	n++;
	if (names && k + strlen(de->d_name) + 2 < cap)
	    k += (size_t)snprintf(names + k, cap - k, "%s ", de->d_name);
    }
    closedir(d);
    return n;
}

static int files_now(char *det, size_t cap)
{
    int n = count_dir(ctl_dir, det, cap);
    struct stat st;
    if (uxf_path[0] && lstat(uxf_path, &st) == 0) {
	n++;
	size_t k = strlen(det);
	if (k + strlen(uxf_path) + 2 < cap)
	    snprintf(det + k, cap - k, "%s ", uxf_path);
    }
    return n;
}

/* ---- heap --------------------------------------------------------------------- */
static long heap_check(char *det, size_t cap)
{
    char rp[256], fn[300];
    snprintf(rp, sizeof(rp), "%s/lsan", rundir);
    __sanitizer_set_report_path(rp);
    int r = __lsan_do_recoverable_leak_check();
    __sanitizer_set_report_path("stderr");
    det[0] = '\0';
    if (r == 0)
	return 0;
    long bytes = 1;
    snprintf(fn, sizeof(fn), "%s.%d", rp, (int)getpid());
    int rfd = open(fn, O_RDONLY);	/* wrapped: logged as a harness descriptor and closed again below */
    if (rfd >= 0) {
	static char buf[1 << 16];
	ssize_t n = read(rfd, buf, sizeof(buf) - 1);
	close(rfd);
	if (n > 0) {
	    buf[n] = '\0';
	    char *s = strstr(buf, "SUMMARY: AddressSanitizer: ");
	    if (s)
		bytes = atol(s + 27);
	    /* the allocation site nearest to the library: first frame below the allocator */
	    size_t k = 0;
	    char *p = buf;
	    int frames = 0;
	    while ((p = strstr(p, "    #")) != NULL && frames < 6) {
		char *eol = strchr(p, '\n');
		if (eol == NULL)
		    break;
		char *in = strstr(p, " in ");
		if (in && in < eol && k + 100 < cap) {
		    int len = (int)(eol - in - 4);
		    if (len > 90)
			len = 90;
		    k += (size_t)snprintf(det + k, cap - k, "%.*s|", len, in + 4);
		    frames++;
		}
		p = eol;
	    }
	}
	unlink(fn);
    }
    return bytes;
}

/* ---- API calls ------------------------------------------------------------------ */
#define MAXH 512
static struct xcm_socket *hs[MAXH];
static const char *htp[MAXH];
static const char *hstn[MAXH];
static int blocking;

static void ev_begin(const char *op, int h)
{
    drain();
    struct line l = L0;
    l.ev = "begin";
    l.op = op;
    l.h = h;
    l.tp = htp[h];
    l.st = hstn[h];
    l.blk = blocking;
    emit(&l);
    ls_enter();
}

static void ev_end(const char *op, int h, int ret, int err, const char *atp)
{
    ls_leave();
    drain();
    struct line l = L0;
    l.ev = "end";
    l.op = op;
    l.h = h;
    l.tp = htp[h];
    l.st = hstn[h];
    l.blk = blocking;
    l.ret = ret;
    l.err = ret < 0 ? err : 0;
    l.atp = atp;
    emit(&l);
}

static char atp_buf[32];
static const char *actual_tp(struct xcm_socket *s)
{
    atp_buf[0] = '\0';
    if (s != NULL && xcm_attr_get_str(s, "xcm.transport", atp_buf, sizeof(atp_buf)) < 0)
	atp_buf[0] = '\0';
    return atp_buf;
}

static char *cred[3];
static size_t cred_len[3];

static struct xcm_attr_map *mk_attrs(const struct cfg *c, const char *tp, int accept)
{
    struct xcm_attr_map *m = NULL;
    int tls = strcmp(tp, "tls") == 0 || strcmp(tp, "utls") == 0 || strcmp(tp, "btls") == 0;
    if (!(c->flags & F_BLOCK) && !accept) {
	m = xcm_attr_map_create();
	xcm_attr_map_add_bool(m, "xcm.blocking", false);
    }
    if (!accept && (strcmp(tp, "btcp") == 0 || strcmp(tp, "btls") == 0)) {
	if (m == NULL)
	    m = xcm_attr_map_create();
	xcm_attr_map_add_str(m, "xcm.service", "bytestream");
    }
    if (tls && (c->flags & F_BYVAL) && !accept) {
	if (m == NULL)
	    m = xcm_attr_map_create();
	xcm_attr_map_add_bin(m, "tls.cert", cred[0], cred_len[0]);
	xcm_attr_map_add_bin(m, "tls.key", cred[1], cred_len[1]);
	xcm_attr_map_add_bin(m, "tls.tc", cred[2], cred_len[2]);
    }
    return m;
}

static struct xcm_socket *api_server(const struct cfg *c, int h, const char *tp, const char *addr)
{
    htp[h] = tp;
    hstn[h] = "server";
    struct xcm_attr_map *m = mk_attrs(c, tp, 0);
    ev_begin("server", h);
    struct xcm_socket *s = xcm_server_a(addr, m);
    int e = errno;
    const char *atp = actual_tp(s);
    ev_end("server", h, s ? 0 : -1, e, atp);
    xcm_attr_map_destroy(m);
    hs[h] = s;
    return s;
}

static struct xcm_socket *api_connect(const struct cfg *c, int h, const char *tp, const char *addr)
{
    htp[h] = tp;
    hstn[h] = "conn";
    struct xcm_attr_map *m = mk_attrs(c, tp, 0);
    ev_begin("connect", h);
    struct xcm_socket *s = xcm_connect_a(addr, m);
    int e = errno;
    const char *atp = actual_tp(s);
    ev_end("connect", h, s ? 0 : -1, e, atp);
    xcm_attr_map_destroy(m);
    hs[h] = s;
    return s;
}

static struct xcm_socket *api_accept(int h, int hsrv)
{
    htp[h] = htp[hsrv];
    hstn[h] = "conn";
    ev_begin("accept", h);
    struct xcm_socket *s = xcm_accept(hs[hsrv]);
    int e = errno;
    const char *atp = actual_tp(s);
    struct line l = L0;
    ls_leave();
    drain();
    l.ev = "end";
    l.op = "accept";
    l.h = h;
    l.tp = htp[h];
    l.st = "conn";
    l.blk = blocking;
    l.ret = s ? 0 : -1;
    l.err = s ? 0 : e;
    l.atp = atp;
    l.v1 = hsrv;
    emit(&l);
    hs[h] = s;
    return s;
}

static int api_finish(int h)
{
    ev_begin("finish", h);
    int r = xcm_finish(hs[h]);
    int e = errno;
    ev_end("finish", h, r < 0 ? -1 : 0, e, "");
    errno = e;
    return r;
}

static int api_await(int h, int cond)
{
    ev_begin("await", h);
    int r = xcm_await(hs[h], cond);
    int e = errno;
    ev_end("await", h, r < 0 ? -1 : 0, e, "");
    errno = e;
    return r;
}

static int api_send(int h, const void *b, size_t n)
{
    ev_begin("send", h);
    int r = xcm_send(hs[h], b, n);
    int e = errno;
    ev_end("send", h, r < 0 ? -1 : 0, e, "");
    errno = e;
    return r;
}

static int api_receive(int h, void *b, size_t cap)
{
    ev_begin("receive", h);
    int r = xcm_receive(hs[h], b, cap);
    int e = errno;
    ev_end("receive", h, r < 0 ? -1 : 0, e, "");
    errno = e;
    return r;
}

static void api_close(int h)
{
    if (hs[h] == NULL)
	return;
    ev_begin("close", h);
    int r = xcm_close(hs[h]);
    int e = errno;
    ev_end("close", h, r < 0 ? -1 : 0, e, "");
    hs[h] = NULL;
}

static void api_cleanup(int h)
{
    if (hs[h] == NULL)
	return;
    ev_begin("cleanup", h);
    xcm_cleanup(hs[h]);
    ev_end("cleanup", h, 0, 0, "");
    hs[h] = NULL;
}

/* ---- waiting for the kernel (never decides a verdict) ------------------------------ */
static int stalls;

static int wait_fd(int h, int ms)
{
    if (blocking || hs[h] == NULL)
	return 1;
    struct pollfd p = { .fd = xcm_fd(hs[h]), .events = POLLIN };
    int r = poll(&p, 1, ms);
    if (r <= 0)
	stalls++;
    return r > 0;
}

static int is_stream(const char *tp) { return strcmp(tp, "btcp") == 0 || strcmp(tp, "btls") == 0; }

/* brings both ends to the established state; 0 when both report success */
static int establish(int hc, int ha)
{
    if (blocking)
	return 0;
    int dc = 0, da = 0;
    for (int round = 0; round < 200; round++) {
	if (!dc) {
	    int r = api_finish(hc);
	    if (r == 0)
		dc = 1;
	    else if (errno != EAGAIN)
		return -1;
	}
	if (!da) {
	    int r = api_finish(ha);
	    if (r == 0)
		da = 1;
	    else if (errno != EAGAIN)
		return -1;
	}
	if (dc && da)
	    return 0;
	struct pollfd p[2] = { { .fd = xcm_fd(hs[hc]), .events = POLLIN }, { .fd = xcm_fd(hs[ha]), .events = POLLIN } };
	if (poll(p, 2, 500) <= 0)
	    stalls++;
    }
    return -1;
}

/* one message (or 16 bytes of a stream) from hfrom to hto; 1 delivered intact, 0 not, -1 the receiver saw close/error */
static int transfer(int hfrom, int hto, int tag)
{
    char m[16], r[64];
    int stream = is_stream(htp[hfrom]);
    snprintf(m, sizeof(m), "m%06d-%03d....", cur_x % 1000000, tag % 1000);
    m[15] = '#';
    int sent = 0;
    for (int i = 0; i < 100 && sent < 16; i++) {
	int rc = api_send(hfrom, m + sent, stream ? (size_t)(16 - sent) : 16);
	if (rc >= 0)
	    sent += stream ? rc : 16;
	else if (errno != EAGAIN)
	    return 0;
	else {
	    api_await(hfrom, XCM_SO_SENDABLE);
	    wait_fd(hfrom, 300);
	}
    }
    if (sent < 16)
	return 0;
    if (!blocking) {
	for (int i = 0; i < 100; i++) {
	    int rc = api_finish(hfrom);
	    if (rc == 0)
		break;
	    if (errno != EAGAIN)
		return 0;
	    wait_fd(hfrom, 300);
	}
	api_await(hfrom, 0);
	api_await(hto, XCM_SO_RECEIVABLE);
    }
    int got = 0;
    for (int i = 0; i < 100 && got < 16; i++) {
	if (!blocking)
	    wait_fd(hto, 500);
	int rc = api_receive(hto, r + got, sizeof(r) - (size_t)got);
	if (rc > 0)
	    got += rc;
	else if (rc == 0)
	    return -1;
	else if (errno != EAGAIN)
	    return -1;
    }
    if (!blocking)
	api_await(hto, 0);
    return got == 16 && memcmp(m, r, 16) == 0;
}

/* ---- harness-side control client ------------------------------------------------------ */
static int ctl_cli = -1, ctl_cli2 = -1;
static pid_t blk_helper;
static int blk_pipe[2] = { -1, -1 };

static int ctl_attach(const char *skip_names)
{
    /* the control socket created last that is not in skip_names */
    (void)skip_names;
    return -1;
}

static int ctl_connect_path(const char *path)
{
    int fd = socket(AF_UNIX, SOCK_SEQPACKET, 0);	/* wrapped, outside the library: a foreign descriptor */
    if (fd < 0)
	return -1;
    struct sockaddr_un a = { .sun_family = AF_UNIX };
    snprintf(a.sun_path, sizeof(a.sun_path), "%s", path);
    if (connect(fd, (struct sockaddr *)&a, sizeof(a)) < 0) {
	close(fd);
	return -1;
    }
    return fd;
}

static void ctl_request(int fd)
{
    static struct ctl_proto_msg req;
    memset(&req, 0, sizeof(req));
    req.type = ctl_proto_type_get_attr_req;
    snprintf(req.get_attr_req.attr_name, sizeof(req.get_attr_req.attr_name), "xcm.type");
    send(fd, &req, sizeof(req), MSG_NOSIGNAL | MSG_DONTWAIT);
}

static int ctl_reply(int fd)
{
    static struct ctl_proto_msg res;
    ssize_t r = recv(fd, &res, sizeof(res), MSG_DONTWAIT);
    return r == (ssize_t)sizeof(res) && res.type == ctl_proto_type_get_attr_cfm;
}

/* makes the library look at its control descriptors: a handful of refused receives */
static void nudge(int h)
{
    char b[64];
    for (int i = 0; i < 6; i++)
	if (api_receive(h, b, sizeof(b)) >= 0)
	    break;
}

/* ---- fork: the child cleans up, the owner carries on -------------------------------------- */
static int nh_used;

static void final_checks(const char *ev_name)
{
    char det[600], fdet[300], hdet[400], ndet[300];
    drain();
    if (blk_helper > 0) {
	for (int i = 0; i < 2; i++)
	    if (blk_pipe[i] >= 0) {
		close(blk_pipe[i]);
		ls_note("close", blk_pipe[i], 0, 0, 0);
		blk_pipe[i] = -1;
	    }
	waitpid(blk_helper, NULL, 0);
	blk_helper = 0;
    }
    if (ctl_cli >= 0) {
	close(ctl_cli);
	ctl_cli = -1;
    }
    if (ctl_cli2 >= 0) {
	close(ctl_cli2);
	ctl_cli2 = -1;
    }
    ls_close_decoys();
    drain();
    fd_snapshot(&now_tab);
    int nd = fd_compare(&base_tab, &now_tab, fdet, sizeof(fdet));
    int nf = child_pipe >= 0 && !handover_owner ? 0 : files_now(ndet, sizeof(ndet));
    if (child_pipe >= 0 && !handover_owner)
	ndet[0] = '\0';
    long leak = heap_check(hdet, sizeof(hdet));
    ls_log_drop();	/* reading the report used harness descriptors that are gone again */
    snprintf(det, sizeof(det), "fd: %s files: %s heap: %s", fdet, ndet, hdet);
    struct line l = L0;
    l.ev = ev_name;
    l.v1 = nd == 0;
    l.v2 = leak;
    l.v3 = nf;
    l.a = stalls;
    l.det = det;
    emit(&l);
}

/* descriptors of the harness that are open now (raw listeners, pipes) belong to the baseline of the process that
   goes on alone after a fork */
static void rebase(int keep1, int keep2)
{
    fd_snapshot(&now_tab);
    for (int i = 0; i < now_tab.n; i++)
	if (now_tab.e[i].fd != ctl_cli && ls_is_harness(now_tab.e[i].fd) && fd_find(&base_tab, now_tab.e[i].fd) == NULL &&
	    base_tab.n < 4096)
	    base_tab.e[base_tab.n++] = now_tab.e[i];
    int keep[2] = { keep1, keep2 };
    for (int k = 0; k < 2; k++)
	if (keep[k] >= 0 && fd_find(&base_tab, keep[k]) == NULL && base_tab.n < 4096) {
	    char lp[64];
	    struct fdent *fe = &base_tab.e[base_tab.n++];
	    fe->fd = keep[k];
	    snprintf(lp, sizeof(lp), "/proc/self/fd/%d", keep[k]);
	    ssize_t rl = readlink(lp, fe->tgt, sizeof(fe->tgt) - 1);
	    fe->tgt[rl < 0 ? 0 : rl] = '\0';
	}
}

/* F_HANDOVER: P cleans up (the lines of mode "child" are its own), C carries on as the owner and its lines, which follow
   P's in the trace, come through the pipe; C starts only when P is done, so that the order of the trace is the order
   of the events */
static void do_handover(const struct cfg *c)
{
    int pfd[2], go[2];
    drain();
    if (pipe(pfd) < 0 || pipe(go) < 0)
	_exit(74);
    ls_note("hopen", pfd[0], 0, pfd[0], 0);
    ls_note("hopen", pfd[1], 0, pfd[1], 0);
    ls_note("hopen", go[0], 0, go[0], 0);
    ls_note("hopen", go[1], 0, go[1], 0);
    drain();
    struct line l = L0;
    l.ev = "fork";
    l.v1 = c->forkpt;
    emit(&l);
    size_t mark = tbn;
    pid_t pid = fork();
    if (pid < 0)
	_exit(75);
    if (pid == 0) {
	/* C: the owner from now on */
	child_pipe = pfd[1];
	handover_owner = 1;
	tb_child_from = mark;
	cur_n += 5000;
	ls_real_close(pfd[0]);
	ls_real_close(go[1]);
	char b;
	while (read(go[0], &b, 1) < 0 && errno == EINTR)
	    ;
	ls_real_close(go[0]);
	rebase(pfd[1], -1);
	return;
    }
    ls_real_close(pfd[1]);
    ls_note("close", pfd[1], 0, 0, 0);
    ls_real_close(go[0]);
    ls_note("close", go[0], 0, 0, 0);
    rebase(pfd[0], go[1]);
    cur_mode = "child";
    ls_plan(0, 0, 0);
    ls_plan(1, 0, 0);
    ls_decoy(false);
    for (int h = 1; h < MAXH; h++)
	api_cleanup(h);
    final_checks("childend");
    cur_mode = "owner";
    l = L0;
    l.ev = "childdone";
    l.v1 = 0;
    emit(&l);
    drain();
    if (write(go[1], "g", 1) < 0)
	_exit(76);
    ls_real_close(go[1]);
    for (;;) {
	if (tbn + 65536 > TB_CAP) {
	    tb_over = 1;
	    break;
	}
	ssize_t r = read(pfd[0], tb + tbn, 65536);
	if (r < 0 && errno == EINTR)
	    continue;
	if (r <= 0)
	    break;
	tbn += (size_t)r;
    }
    ls_real_close(pfd[0]);
    int st = 0;
    waitpid(pid, &st, 0);
    if (!(WIFEXITED(st) && WEXITSTATUS(st) == 0)) {
	l = L0;
	l.ev = "abort";
	l.v1 = WIFEXITED(st) ? WEXITSTATUS(st) : 1000 + WTERMSIG(st);
	l.det = "the process that took the sockets over died";
	emit(&l);
    }
    finish_process();
}

static void do_fork(const struct cfg *c, int hc, int ha)
{
    if (c->flags & F_HANDOVER) {
	do_handover(c);
	return;
    }
    int pfd[2];
    drain();
    if (pipe(pfd) < 0)
	_exit(74);
    ls_note("hopen", pfd[0], 0, pfd[0], 0);
    ls_note("hopen", pfd[1], 0, pfd[1], 0);
    drain();
    char before[400], after[400];
    int nbefore = files_now(before, sizeof(before));
    struct line l = L0;
    l.ev = "fork";
    l.v1 = c->forkpt;
    emit(&l);
    size_t mark = tbn;
    pid_t pid = fork();
    if (pid < 0)
	_exit(75);
    if (pid == 0) {
	/* C: inherited everything; the table it starts with is its baseline */
	child_pipe = pfd[1];
	tb_child_from = mark;
	ls_real_close(pfd[0]);
	/* descriptors of the harness that are open now (raw listeners, control client) stay open in the child */
	fd_snapshot(&now_tab);
	for (int i = 0; i < now_tab.n; i++)
	    if (now_tab.e[i].fd != pfd[1] && now_tab.e[i].fd != ctl_cli && ls_is_harness(now_tab.e[i].fd) &&
		fd_find(&base_tab, now_tab.e[i].fd) == NULL && base_tab.n < 4096)
		base_tab.e[base_tab.n++] = now_tab.e[i];
	if (base_tab.n < 4096) {
	    char lp[64];
	    struct fdent *fe = &base_tab.e[base_tab.n++];
	    fe->fd = pfd[1];
	    snprintf(lp, sizeof(lp), "/proc/self/fd/%d", pfd[1]);
	    ssize_t rl = readlink(lp, fe->tgt, sizeof(fe->tgt) - 1);
	    fe->tgt[rl < 0 ? 0 : rl] = '\0';
	}
	cur_mode = "child";
	ls_plan(0, 0, 0);
	ls_plan(1, 0, 0);
	ls_decoy(false);
	for (int h = 1; h < MAXH; h++)
	    api_cleanup(h);
	/* what is left must be the baseline of P plus the pipe */
	final_checks("childend");
	finish_process();
    }
    ls_real_close(pfd[1]);
    ls_note("close", pfd[1], 0, 0, 0);
    /* append the child's part */
    for (;;) {
	if (tbn + 65536 > TB_CAP) {
	    tb_over = 1;
	    break;
	}
	ssize_t r = read(pfd[0], tb + tbn, 65536);
	if (r < 0 && errno == EINTR)
	    continue;
	if (r <= 0)
	    break;
	tbn += (size_t)r;
    }
    ls_real_close(pfd[0]);
    ls_note("close", pfd[0], 0, 0, 0);
    int st = 0;
    waitpid(pid, &st, 0);
    /* renumber: the child's lines carried their own counter */
    for (size_t i = mark; i < tbn; i++)
	if (tb[i] == '\n')
	    cur_n++;
    l = L0;
    l.ev = "childdone";
    l.v1 = WIFEXITED(st) ? WEXITSTATUS(st) : 1000 + WTERMSIG(st);
    emit(&l);
    drain();

    /* what the owner sees now */
    int nafter = files_now(after, sizeof(after));
    long traffic = 1, closed = 0;
    if (hc > 0 && ha > 0 && hs[hc] && hs[ha] && !(c->flags & F_NOTRAFFIC)) {
	int t1 = transfer(hc, ha, 900), t2 = t1 == 1 ? transfer(ha, hc, 901) : 0;
	traffic = t1 == 1 && t2 == 1;
	closed = t1 < 0 || t2 < 0;
    }
    char det[900];
    snprintf(det, sizeof(det), "before: %s after: %s", before, after);
    l = L0;
    l.ev = "probe";
    l.call = "after_fork";
    l.v1 = traffic;
    l.v2 = closed;
    l.v3 = nafter == nbefore && strcmp(before, after) == 0;
    l.det = det;
    emit(&l);
    if (ctl_cli >= 0 && hc > 0 && hs[hc]) {
	/* a request on the control session that existed at fork time must wake the owner up and be served */
	ctl_request(ctl_cli);
	api_await(hc, XCM_SO_RECEIVABLE);
	struct pollfd p = { .fd = xcm_fd(hs[hc]), .events = POLLIN };
	int woke = poll(&p, 1, 0) > 0;
	nudge(hc);
	nudge(hc);
	int served = ctl_reply(ctl_cli);
	l = L0;
	l.ev = "probe";
	l.call = "ctl_after_fork";
	l.v1 = woke;
	l.v2 = served;
	emit(&l);
    }
}

/* ---- scenarios ------------------------------------------------------------------------------ */
static int tcp_family(const char *tp)
{
    return strcmp(tp, "tcp") == 0 || strcmp(tp, "tls") == 0 || strcmp(tp, "utls") == 0 || strcmp(tp, "btcp") == 0 ||
	strcmp(tp, "btls") == 0;
}

static void newest_ctl(const char *known, char *out, size_t cap)
{
    out[0] = '\0';
    DIR *d = opendir(ctl_dir);
    if (d == NULL)
	return;
    struct dirent *de;
    while ((de = readdir(d)) != NULL) {
	if (de->d_name[0] == '.')
	    continue;
	char pat[300];
	snprintf(pat, sizeof(pat), " %s ", de->d_name);
	if (strstr(known, pat) == NULL)
	    snprintf(out, cap, "%s/%s", ctl_dir, de->d_name);
    }
    closedir(d);
}

static void scen_pair(const struct cfg *c)
{
    const char *stp = c->tp, *ctp = c->tp;
    char saddr[300], caddr[300];
    if (strcmp(c->tp, "utlsfb") == 0) {	/* utls client falling back to TLS: no UX socket of that name */
	stp = "tls";
	ctp = "utls";
    }
    if (strcmp(stp, "ux") == 0)
	snprintf(saddr, sizeof(saddr), "ux:lf%dx%d", (int)getpid(), c->x);
    else if (strcmp(stp, "uxf") == 0) {
	snprintf(uxf_path, sizeof(uxf_path), "%s/u%dx%d", rundir, (int)getpid(), c->x);
	snprintf(saddr, sizeof(saddr), "uxf:%s", uxf_path);
    } else if (strcmp(stp, "tcpdns") == 0) {
	stp = ctp = "tcp";
	snprintf(saddr, sizeof(saddr), "tcp:localhost:0");
    } else
	snprintf(saddr, sizeof(saddr), "%s:127.0.0.1:0", stp);

    struct xcm_socket *S = api_server(c, 1, stp, saddr);
    caddr[0] = '\0';
    if (S != NULL) {
	if (!blocking)
	    api_await(1, XCM_SO_ACCEPTABLE);
	const char *la = xcm_local_addr(S);
	if (la != NULL) {
	    const char *colon = strchr(la, ':');
	    snprintf(caddr, sizeof(caddr), "%s%s", ctp, colon ? colon : "");
	}
    } else if (!tcp_family(stp))
	snprintf(caddr, sizeof(caddr), "%s", saddr);	/* the name is known: a connect that will be refused */

    if (S != NULL && !blocking) {
	/* an accept with nothing to accept: a failing call that must leave nothing behind */
	if (api_accept(200, 1) != NULL)
	    api_close(200);
    }
    if (c->forkpt == 1)
	do_fork(c, 0, 0);

    int est0 = 0;
    for (int i = 0; i < c->k; i++) {
	int hc = 2 + 2 * i, ha = 3 + 2 * i;
	if (caddr[0] == '\0')
	    break;
	char known[2000];
	known[0] = ' ';
	count_dir(ctl_dir, known + 1, sizeof(known) - 1);
	if (i == 0 && S != NULL && blocking && (c->flags & F_BLKWAKE) && (c->flags & F_CTL)) {
	    /* the accept call is woken several times with nothing to accept (a control session opens / closes), restarts,
	       and finally returns the helper's connection; every candidate socket of a restart must be released whole */
	    int hp[2];
	    if (pipe(hp) == 0) {
		ls_note("hopen", hp[0], 0, 0, 0);
		ls_note("hopen", hp[1], 0, 0, 0);
		pid_t helper = fork();
		if (helper == 0) {
		    close(hp[1]);
		    char names[2000], *save = NULL;
		    usleep(30000);
		    count_dir(ctl_dir, names, sizeof(names));
		    for (int r = 0; r < 3; r++)
			for (char *nm = strtok_r(r == 0 ? names : NULL, " ", &save); nm; nm = NULL) {
			    char path[600];
			    snprintf(path, sizeof(path), "%s/%s", ctl_dir, nm);
			    for (int q = 0; q < 3; q++) {
				int fd = ctl_connect_path(path);
				usleep(15000);
				if (fd >= 0)
				    close(fd);
				usleep(15000);
			    }
			}
		    struct xcm_attr_map *hm = xcm_attr_map_create();
		    xcm_attr_map_add_str(hm, "xcm.service", "any");	/* (a byte-stream address needs it) */
		    struct xcm_socket *hc_s = xcm_connect_a(caddr, hm);
		    xcm_attr_map_destroy(hm);
		    char b;
		    (void)!read(hp[0], &b, 1);	/* until the owner has closed everything */
		    if (hc_s)
			xcm_close(hc_s);
		    _exit(0);
		}
		struct xcm_socket *A = api_accept(ha, 1);
		(void)A;
		if (helper > 0) {
		    blk_helper = helper;
		    blk_pipe[0] = hp[0];
		    blk_pipe[1] = hp[1];
		}
	    }
	    continue;
	}
	struct xcm_socket *C = api_connect(c, hc, ctp, caddr);
	if (i == 0 && C != NULL && (c->flags & F_CTLCLI) && (c->flags & F_CTL)) {
	    char path[400];
	    newest_ctl(known, path, sizeof(path));
	    if (path[0])
		ctl_cli = ctl_connect_path(path);
	    if (path[0] && (c->flags & F_CTLCLI2) && !c->forkpt)
		ctl_cli2 = ctl_connect_path(path);
	}
	struct xcm_socket *A = NULL;
	if (S != NULL && (C != NULL || !blocking)) {
	    if (C != NULL)
		wait_fd(1, 2000);
	    A = api_accept(ha, 1);
	}
	if (C == NULL || A == NULL)
	    continue;
	if (establish(hc, ha) < 0)
	    continue;
	if (c->flags & F_NOTRAFFIC) {
	    if (i == 0)
		est0 = 1;
	    continue;
	}
	if (transfer(hc, ha, 2 * i) == 1 && transfer(ha, hc, 2 * i + 1) == 1 && i == 0)
	    est0 = 1;
    }
    if (ctl_cli >= 0 && hs[2] != NULL) {
	nudge(2);	/* the library accepts the control client */
	ctl_request(ctl_cli);
	nudge(2);
	nudge(2);
	struct line l = L0;
	l.ev = "probe";
	l.call = "ctl_session";
	l.v1 = ctl_reply(ctl_cli);
	emit(&l);
	if (ctl_cli2 >= 0) {
	    /* the library accepts one control client per round: a few more rounds, then the second session is used too */
	    nudge(2);
	    nudge(2);
	    ctl_request(ctl_cli2);
	    nudge(2);
	    nudge(2);
	    l = L0;
	    l.ev = "probe";
	    l.call = "ctl_session";
	    l.v1 = ctl_reply(ctl_cli2);
	    emit(&l);
	}
    }
    if (c->forkpt == 3)
	do_fork(c, est0 ? 2 : 0, est0 ? 3 : 0);

    if (c->order == 0) {
	for (int i = 0; i < c->k; i++)
	    api_close(2 + 2 * i);
	for (int i = 0; i < c->k; i++)
	    api_close(3 + 2 * i);
	api_close(1);
    } else {
	api_close(1);
	for (int i = c->k - 1; i >= 0; i--) {
	    api_close(3 + 2 * i);
	    api_close(2 + 2 * i);
	}
    }
}

/* a TCP connect that stays in progress: listener with a full accept queue (harness descriptors) */
static void scen_conning(const struct cfg *c)
{
    int l = socket(AF_INET, SOCK_STREAM, 0);
    struct sockaddr_in a = { .sin_family = AF_INET };
    a.sin_addr.s_addr = htonl(INADDR_LOOPBACK);
    socklen_t al = sizeof(a);
    int filler = -1;
    if (l < 0 || bind(l, (struct sockaddr *)&a, sizeof(a)) < 0 || listen(l, 0) < 0 ||
	getsockname(l, (struct sockaddr *)&a, &al) < 0)
	_exit(76);
    filler = socket(AF_INET, SOCK_STREAM, 0);
    if (filler < 0 || connect(filler, (struct sockaddr *)&a, sizeof(a)) < 0)
	_exit(77);
    char addr[100];
    snprintf(addr, sizeof(addr), "%s:127.0.0.1:%d", c->tp, ntohs(a.sin_port));
    for (int i = 0; i < c->k; i++) {
	if (api_connect(c, 2 + i, c->tp, addr) != NULL && !blocking) {
	    api_finish(2 + i);
	    api_await(2 + i, XCM_SO_SENDABLE);
	}
    }
    if (c->forkpt != 0)
	do_fork(c, 0, 0);
    for (int i = 0; i < c->k; i++)
	api_close(2 + i);
    close(filler);
    close(l);
}

/* ---- one execution (process P) ----------------------------------------------------------------- */
static void run_one(const struct cfg *c)
{
    cur_x = c->x;
    cur_n = 0;
    tbn = 0;
    cls_n = 0;
    stalls = 0;
    blocking = (c->flags & F_BLOCK) != 0;
    ls_reset();
    signal(SIGABRT, on_abort);
    signal(SIGPIPE, SIG_IGN);

    snprintf(ctl_dir, sizeof(ctl_dir), "%s/%s%d", rundir, (c->flags & F_CTL) ? "ctl" : "noctl", (int)getpid());
    if (c->flags & F_CTL)
	mkdir(ctl_dir, 0700);
    setenv("XCM_CTL", ctl_dir, 1);
    uxf_path[0] = '\0';

    char det[200];
    snprintf(det, sizeof(det), "%s %s flags=%d k=%d fault=%d/%d,%d/%d fork=%d order=%d", c->scen, c->tp, c->flags, c->k,
	     c->f1n, c->f1e, c->f2n, c->f2e, c->forkpt, c->order);
    struct line l = L0;
    l.ev = "reset";
    l.det = det;
    l.v1 = c->flags;
    emit(&l);
    fd_snapshot(&base_tab);
    for (int i = 0; i < base_tab.n; i++) {
	l = L0;
	l.ev = "sys";
	l.call = "hopen";
	l.res = base_tab.e[i].fd;
	emit(&l);
    }
    ls_plan(0, c->f1n, c->f1e);
    ls_plan(1, c->f2n, c->f2e);
    ls_decoy((c->flags & F_DECOY) != 0);

    if (strcmp(c->scen, "pair") == 0)
	scen_pair(c);
    else if (strcmp(c->scen, "conning") == 0)
	scen_conning(c);
    else
	_exit(78);

    ls_plan(0, 0, 0);
    ls_plan(1, 0, 0);
    final_checks("final");
    if (c->flags & F_CTL)
	rmdir(ctl_dir);
    finish_process();
}

/* ---- driver (process D) -------------------------------------------------------------------------- */
static char *load(const char *path, size_t *len)
{
    int fd = open(path, O_RDONLY);
    if (fd < 0)
	return NULL;
    char *b = malloc(1 << 16);
    ssize_t n = read(fd, b, (1 << 16) - 1);
    close(fd);
    if (n <= 0)
	return NULL;
    b[n] = '\0';
    *len = (size_t)n;
    return b;
}

static void synth(const struct cfg *c, const char *evn, const char *why, long v)
{
    cur_x = c->x;
    cur_n = 0;
    tbn = 0;
    cur_mode = "owner";
    struct line l = L0;
    l.ev = "reset";
    l.det = "trace lost";
    emit(&l);
    l = L0;
    l.ev = evn;
    l.det = why;
    l.v1 = v;
    emit(&l);
    wr_all(out_fd, tb, tbn);
    char b[100];
    int n = snprintf(b, sizeof(b), "x %d N -1 d1 0 d2 0 cls \n", c->x);
    wr_all(info_fd, b, (size_t)n);
}

int main(int argc, char **argv)
{
    if (argc != 5) {
	fprintf(stderr, "usage: life_exec <plan> <out> <info> <rundir>\n");
	return 2;
    }
    rundir = argv[4];
    FILE *pf = fopen(argv[1], "r");
    out_fd = open(argv[2], O_WRONLY | O_CREAT | O_TRUNC | O_APPEND, 0644);
    info_fd = open(argv[3], O_WRONLY | O_CREAT | O_TRUNC | O_APPEND, 0644);
    if (pf == NULL || out_fd < 0 || info_fd < 0)
	return 2;
    const char *cd = getenv("XCM_TLS_CERT");
    if (cd != NULL) {
	const char *fn[3] = { "cert.pem", "key.pem", "tc.pem" };
	for (int i = 0; i < 3; i++) {
	    char p[400];
	    snprintf(p, sizeof(p), "%s/%s", cd, fn[i]);
	    cred[i] = load(p, &cred_len[i]);
	    if (cred[i] == NULL)
		return 2;
	}
    }
    static struct cfg plan[20000];
    int np = 0;
    char line[400];
    while (fgets(line, sizeof(line), pf) != NULL && np < 20000) {
	struct cfg *c = &plan[np];
	if (sscanf(line, "run %d %15s %15s %d %d %d %d %d %d %d %d", &c->x, c->scen, c->tp, &c->flags, &c->k, &c->f1n, &c->f1e,
		   &c->f2n, &c->f2e, &c->forkpt, &c->order) == 11)
	    np++;
	else if (line[0] != '#' && line[0] != '\n')
	    return 3;
    }
    fclose(pf);

    if (&xcm_verif_cb != NULL)
	xcm_verif_cb = verif_cb;

    /* warm-up: one-time initialisations of OpenSSL, c-ares and the library (version log, error strings) happen here,
       with the leak checker told to ignore what they allocate */
    static struct fdtab warm_before, warm_after;
    fd_snapshot(&warm_before);
    __lsan_disable();
    {
	const char *w[] = { "ux", "tcp", "tls", "utls", "btls", "utlsfb", "tcpdns" };
	for (unsigned i = 0; i < sizeof(w) / sizeof(w[0]); i++) {
	    int need = 0;
	    for (int j = 0; j < np; j++)
		if (strcmp(plan[j].tp, w[i]) == 0 || (i == 2 && strcmp(plan[j].tp, "utlsfb") == 0))
		    need = 1;
	    if (!need && i > 1)
		continue;
	    pid_t dummy = 0;
	    (void)dummy;
	    struct cfg c = { .x = 0, .flags = F_NOTRAFFIC, .k = 1 };
	    snprintf(c.scen, sizeof(c.scen), "pair");
	    snprintf(c.tp, sizeof(c.tp), "%s", w[i]);
	    cur_x = 0;
	    tbn = 0;
	    ls_reset();
	    blocking = 0;
	    snprintf(ctl_dir, sizeof(ctl_dir), "%s/noctl-warm", rundir);
	    setenv("XCM_CTL", ctl_dir, 1);
	    scen_pair(&c);
	    c.flags = 0;
	    scen_pair(&c);
	    for (int h = 0; h < MAXH; h++)
		hs[h] = NULL;
	}
	ls_reset();
	tbn = 0;
    }
    __lsan_enable();
    {
	/* the fault-free warm-up itself must leave the descriptor table as it was: reported as execution 0 */
	char wdet[600];
	fd_snapshot(&warm_after);
	if (fd_compare(&warm_before, &warm_after, wdet, sizeof(wdet)) != 0) {
	    struct cfg c0 = { .x = 0 };
	    char why[700];
	    snprintf(why, sizeof(why), "fd: %s (fault-free warm-up in the driver process)", wdet);
	    cur_x = 0;
	    cur_n = 0;
	    tbn = 0;
	    struct line l = L0;
	    l.ev = "reset";
	    l.det = "warm-up";
	    emit(&l);
	    l = L0;
	    l.ev = "final";
	    l.v1 = 0;
	    l.det = why;
	    emit(&l);
	    wr_all(out_fd, tb, tbn);
	    (void)c0;
	}
	tbn = 0;
    }

    int timeout_s = getenv("LIFE_TIMEOUT") ? atoi(getenv("LIFE_TIMEOUT")) : 60;
    for (int i = 0; i < np; i++) {
	pid_t pid = fork();
	if (pid < 0)
	    return 4;
	if (pid == 0)
	    run_one(&plan[i]);
	int st = 0;
	struct timespec t0, t1;
	clock_gettime(CLOCK_MONOTONIC, &t0);
	for (;;) {
	    pid_t r = waitpid(pid, &st, WNOHANG);
	    if (r == pid)
		break;
	    clock_gettime(CLOCK_MONOTONIC, &t1);
	    if (t1.tv_sec - t0.tv_sec > timeout_s) {
		kill(pid, SIGKILL);
		waitpid(pid, &st, 0);
		st = -1;
		break;
	    }
	    struct timespec ts = { 0, 500000 };
	    nanosleep(&ts, NULL);
	}
	if (st == -1)
	    synth(&plan[i], "hang", "no result within the time limit", timeout_s);
	else if (!WIFEXITED(st) || WEXITSTATUS(st) != 0) {
	    char why[100];
	    snprintf(why, sizeof(why), "process ended with wait status %d", st);
	    synth(&plan[i], WIFSIGNALED(st) ? "abort" : "internal", why, WIFSIGNALED(st) ? WTERMSIG(st) : WEXITSTATUS(st));
	}
    }
    return 0;
}
