/*
 * creds_exec - replays credential-update / connection behaviours (property C18) on the real library.
 *
 *   creds_exec <script> <out.ndjson> <scratch root> <credential directory>
 *
 * The script is produced by lib/check_c18.py from behaviours of spec/CtxStore.tla (and seeded random
 * ones); every line is one step.  The harness performs the step on real files / the real library and
 * records what it did and what it observed; spec/CtxStoreTrace.tla computes what should have been
 * observed.  Nothing is judged here.
 *
 *   X <x> <label>                          new execution: everything closed, scratch tree removed, environment reset
 *   put <d> <ns|-> <item> <token> <how>    how: inplace | rename | same   (tokens missing/dir/dangle/bad: special)
 *   flipL <d>                              directory link L -> d          (rename of a new link over the old one)
 *   flipF <item> <d>                       F/<item>.pem -> ../<d>/<item>.pem
 *   env <d|unset>                          XCM_TLS_CERT = <root>/<d>
 *   ns <name|->                            give the current network namespace a name (private mount namespace)
 *   mid <k> <any|fopen|never> <update>     the update is made INSIDE the next open: after k credential files have
 *                                          been opened, at the next fopen / the next access of a credential file
 *   open <s> <kind> <par> <tp> <cert> <key> <tc> <crl>
 *                                          kind connect (par = server socket to connect to) | server | accept (par =
 *                                          server socket); designators: off def inh f:<dir> v:<token>[+<token>..]
 *   drive <c> <s>                          complete the handshake between client socket c and accepted socket s,
 *                                          exchange one message each way, record the identity each side sees
 *   chk <c> <s>                            an established pair: exchange again, re-read the identities
 *   close <s>
 *   end                                    close what is left
 */
#define _GNU_SOURCE
#include <errno.h>
#include <sys/wait.h>
#include <sys/ioctl.h>
#include <net/if.h>
#include <fcntl.h>
#include <poll.h>
#include <sched.h>
#include <stdarg.h>
#include <stdbool.h>
#include <stdint.h>
#include <stdio.h>
#include <stdlib.h>
#include <string.h>
#include <sys/mount.h>
#include <sys/stat.h>
#include <sys/types.h>
#include <time.h>
#include <unistd.h>

#include <xcm.h>
#include <xcm_attr.h>
#include <xcm_attr_map.h>

#include "shim_creds.h"

#define MAXS 64
#define ITEMS 4
static const char *item_name[ITEMS] = { "cert", "key", "tc", "crl" };
static const char *file_attr[ITEMS] = { "tls.cert_file", "tls.key_file", "tls.tc_file", "tls.crl_file" };
static const char *val_attr[ITEMS] = { "tls.cert", "tls.key", "tls.tc", "tls.crl" };

static FILE *out;
static char root[400], xroot[480], creds[400];
static int xid, stepno;
static char xlabel[64];
static bool ns_ready, ns_tried, in_child, skip_to_next;
static char ns_cur[64];

struct sock {
    struct xcm_socket *s;
    char kind[12], tp[12];
    int pending;		/* server: connections made to it and not yet accepted */
} socks[MAXS];

static void die(const char *fmt, ...)
{
    va_list ap;
    va_start(ap, fmt);
    fprintf(stderr, "creds_exec: ");
    vfprintf(stderr, fmt, ap);
    fprintf(stderr, "\n");
    va_end(ap);
    exit(2);
}

/* ---- output -------------------------------------------------------------------------------------------- */
struct ev {
    const char *ev;
    int s, p, s2, mid, ret, err, ctx, nnew, live, est, ec, es, st, lst, ok, nfo, uc;
    const char *k, *tp, *d, *ns, *it, *c, *how, *idc, *ids, *res, *why;
    char des[ITEMS][2][80];
    int freed[SC_MAXL], nfreed;
};

static void ev_init(struct ev *e, const char *name)
{
    memset(e, 0, sizeof(*e));
    e->ev = name;
    e->k = e->tp = e->d = e->ns = e->it = e->c = e->how = e->idc = e->ids = e->res = e->why = "";
    e->ctx = -1;
    e->est = -1;
    e->uc = -1;
    for (int i = 0; i < ITEMS; i++) {
	strcpy(e->des[i][0], "off");
	e->des[i][1][0] = '\0';
    }
}

static void jstr(FILE *f, const char *s)
{
    fputc('"', f);
    for (; *s; s++) {
	unsigned char c = (unsigned char)*s;
	if (c == '"' || c == '\\')
	    fprintf(f, "\\%c", c);
	else if (c < 0x20 || c >= 0x7f)
	    fprintf(f, "?");
	else
	    fputc(c, f);
    }
    fputc('"', f);
}

static void emit(struct ev *e)
{
    stepno++;
    fprintf(out, "{\"x\":%d,\"n\":%d,\"ev\":", xid, stepno);
    jstr(out, e->ev);
#define S(name, v) do { fprintf(out, ",\"" name "\":"); jstr(out, v); } while (0)
#define I(name, v) fprintf(out, ",\"" name "\":%d", v)
    I("s", e->s); S("k", e->k); I("p", e->p); S("tp", e->tp);
    fprintf(out, ",\"des\":[");
    for (int i = 0; i < ITEMS; i++) {
	fprintf(out, "%s[", i ? "," : "");
	jstr(out, e->des[i][0]);
	fputc(',', out);
	jstr(out, e->des[i][1]);
	fputc(']', out);
    }
    fprintf(out, "]");
    I("mid", e->mid); S("d", e->d); S("ns", e->ns); S("it", e->it); S("c", e->c); S("how", e->how);
    I("ret", e->ret); I("err", e->err); I("ctx", e->ctx); I("nnew", e->nnew);
    fprintf(out, ",\"freed\":[");
    for (int i = 0; i < e->nfreed; i++)
	fprintf(out, "%s%d", i ? "," : "", e->freed[i]);
    fprintf(out, "]");
    I("live", e->live); I("s2", e->s2); I("est", e->est); S("idc", e->idc); S("ids", e->ids);
    I("ec", e->ec); I("es", e->es); I("st", e->st); I("lst", e->lst); I("ok", e->ok); I("nfo", e->nfo); I("uc", e->uc);
    S("res", e->res); S("why", e->why);
    fprintf(out, "}\n");
    fflush(out);
#undef S
#undef I
}

/* ---- tokens -------------------------------------------------------------------------------------------- */
struct tok {
    char name[24];
    char *data;
    size_t len;
} toks[64];
static int ntoks;
static struct { char name[24]; char hex[128]; } skis[32];
static int nskis;

static struct tok *token(const char *name)
{
    for (int i = 0; i < ntoks; i++)
	if (strcmp(toks[i].name, name) == 0)
	    return &toks[i];
    if (ntoks >= 64)
	die("too many tokens");
    char path[600];
    snprintf(path, sizeof(path), "%s/%s.pem", creds, name);
    FILE *f = fopen(path, "rb");
    if (f == NULL)
	die("no credential file %s", path);
    struct tok *t = &toks[ntoks++];
    snprintf(t->name, sizeof(t->name), "%s", name);
    t->data = malloc(1 << 16);
    t->len = fread(t->data, 1, (1 << 16) - 1, f);
    t->data[t->len] = '\0';
    fclose(f);
    return t;
}

static int item_index(const char *it)
{
    for (int i = 0; i < ITEMS; i++)
	if (strcmp(it, item_name[i]) == 0)
	    return i;
    die("unknown item %s", it);
    return -1;
}

/* the bytes a token stands for when it is the content of item it */
static struct tok *content(const char *name, const char *it)
{
    if (strcmp(name, "bad") == 0) {
	char n[32];
	/* bundles: every other execution uses "first entry sound, second entry damaged" instead of a block of junk */
	bool two = (xid & 1) && (strcmp(it, "tc") == 0 || strcmp(it, "crl") == 0);
	snprintf(n, sizeof(n), "%s_%s", two ? "bad2" : "bad", it);
	return token(n);
    }
    return token(name);
}

static void load_skis(void)
{
    char path[600], n[24], h[128];
    snprintf(path, sizeof(path), "%s/ski.txt", creds);
    FILE *f = fopen(path, "r");
    if (f == NULL)
	die("no %s", path);
    while (nskis < 32 && fscanf(f, "%23s %127s", n, h) == 2) {
	strcpy(skis[nskis].name, n);
	strcpy(skis[nskis].hex, h);
	nskis++;
    }
    fclose(f);
}

/* ---- stamps -------------------------------------------------------------------------------------------- */
struct tuple {
    dev_t dev;
    ino_t ino;
    off_t size;
    time_t sec;
    long nsec;
};
static struct tuple tuples[8192];
static int ntuples;
static struct { char path[160]; int id; } seen[8192];	/* stamps a path has shown in this execution */
static int nseen;

static struct tuple tuple_of(const struct stat *st)
{
    struct tuple t = { st->st_dev, st->st_ino, st->st_size, st->st_mtim.tv_sec, st->st_mtim.tv_nsec };
    return t;
}

static int tuple_id(struct tuple t)
{
    for (int i = 0; i < ntuples; i++)
	if (tuples[i].dev == t.dev && tuples[i].ino == t.ino && tuples[i].size == t.size && tuples[i].sec == t.sec &&
	    tuples[i].nsec == t.nsec)
	    return i + 1;
    if (ntuples >= 8192)
	die("too many stamps");
    tuples[ntuples++] = t;
    return ntuples;
}

static bool was_seen(const char *path, int id)
{
    for (int i = 0; i < nseen; i++)
	if (seen[i].id == id && strcmp(seen[i].path, path) == 0)
	    return true;
    return false;
}

static void mark_seen(const char *path, int id)
{
    if (was_seen(path, id))
	return;
    if (nseen >= 8192)
	die("too many seen stamps");
    snprintf(seen[nseen].path, sizeof(seen[nseen].path), "%s", path);
    seen[nseen].id = id;
    nseen++;
}

/* ---- file operations ----------------------------------------------------------------------------------- */
static void file_path(char *buf, size_t cap, const char *d, const char *ns, const char *it)
{
    if (ns[0] == '\0' || strcmp(ns, "-") == 0)
	snprintf(buf, cap, "%s/%s/%s.pem", xroot, d, it);
    else
	snprintf(buf, cap, "%s/%s/%s_%s.pem", xroot, d, it, ns);
}

static void remove_any(const char *path)
{
    struct stat st;
    if (lstat(path, &st) < 0)
	return;
    if (S_ISDIR(st.st_mode))
	rmdir(path);
    else
	unlink(path);
}

static void write_all(const char *path, int flags, const struct tok *t)
{
    int fd = open(path, flags, 0644);
    if (fd < 0)
	die("open %s: %s", path, strerror(errno));
    size_t off = 0;
    while (off < t->len) {
	ssize_t n = write(fd, t->data + off, t->len - off);
	if (n <= 0)
	    die("write %s: %s", path, strerror(errno));
	off += n;
    }
    close(fd);
}

/* an ordinary update must show a stamp this path has not shown before (what a real rotation does, given time):
   verify, and otherwise move the mtime until it does */
static int settle_stamp(const char *path, const char *key)
{
    struct stat st;
    for (int i = 0; i < 1000; i++) {
	if (stat(path, &st) < 0)
	    die("stat %s: %s", path, strerror(errno));
	int id = tuple_id(tuple_of(&st));
	if (!was_seen(key, id)) {
	    mark_seen(key, id);
	    return id;
	}
	struct timespec ts[2] = { { 0, UTIME_OMIT }, st.st_mtim };
	ts[1].tv_nsec += 1 + i;
	if (ts[1].tv_nsec >= 1000000000L) {
	    ts[1].tv_nsec -= 1000000000L;
	    ts[1].tv_sec++;
	}
	if (utimensat(AT_FDCWD, path, ts, 0) < 0)
	    die("utimensat %s: %s", path, strerror(errno));
    }
    die("could not give %s a new stamp", path);
    return 0;
}

static void do_put(const char *d, const char *ns, const char *it, const char *tokname, const char *how, int mid)
{
    char path[700], tmp[720];
    struct ev e;
    struct stat st;
    file_path(path, sizeof(path), d, ns, it);
    ev_init(&e, "put");
    e.mid = mid; e.d = d; e.ns = strcmp(ns, "-") == 0 ? "" : ns; e.it = it; e.c = tokname; e.how = how;
    e.ok = 1;
    e.nfo = sc.w_nfopen;

    if (strcmp(tokname, "missing") == 0)
	remove_any(path);
    else if (strcmp(tokname, "dir") == 0) {
	remove_any(path);
	if (mkdir(path, 0755) < 0)
	    die("mkdir %s: %s", path, strerror(errno));
    } else if (strcmp(tokname, "dangle") == 0) {
	remove_any(path);
	if (symlink("no-such-file.pem", path) < 0)
	    die("symlink %s: %s", path, strerror(errno));
    } else {
	struct tok *t = content(tokname, it);
	bool regular = lstat(path, &st) == 0 && S_ISREG(st.st_mode);
	if (strcmp(how, "same") == 0) {
	    /* NAMED DEVIATION: new bytes, same (dev, ino, size, mtime) */
	    if (!regular || (size_t)st.st_size != t->len) {
		e.ok = 0;
		e.why = "same-stamp rewrite needs an existing regular file of equal size";
	    } else {
		struct timespec ts[2] = { { 0, UTIME_OMIT }, st.st_mtim };
		write_all(path, O_WRONLY | O_TRUNC, t);
		if (utimensat(AT_FDCWD, path, ts, 0) < 0)
		    die("utimensat %s: %s", path, strerror(errno));
		struct stat st2;
		stat(path, &st2);
		if (tuple_id(tuple_of(&st)) != tuple_id(tuple_of(&st2))) {
		    e.ok = 0;
		    e.why = "stamp changed although restored";
		}
	    }
	} else if (strcmp(how, "rename") == 0 || !regular) {
	    if (!regular)
		remove_any(path);
	    snprintf(tmp, sizeof(tmp), "%s.new", path);
	    write_all(tmp, O_WRONLY | O_CREAT | O_TRUNC, t);
	    if (rename(tmp, path) < 0)
		die("rename %s: %s", path, strerror(errno));
	} else
	    write_all(path, O_WRONLY | O_TRUNC, t);
	if (strcmp(how, "same") != 0)
	    settle_stamp(path, path);
    }
    if (lstat(path, &st) == 0) {
	e.lst = S_ISLNK(st.st_mode) ? tuple_id(tuple_of(&st)) : 0;
	if (stat(path, &st) == 0)
	    e.st = tuple_id(tuple_of(&st));
    }
    emit(&e);
}

static void replace_link(const char *link, const char *target)
{
    char tmp[720];
    snprintf(tmp, sizeof(tmp), "%s.new", link);
    unlink(tmp);
    if (symlink(target, tmp) < 0)
	die("symlink %s: %s", tmp, strerror(errno));
    if (rename(tmp, link) < 0)
	die("rename %s: %s", link, strerror(errno));
}

static void do_flipL(const char *d, int mid)
{
    char link[600];
    struct ev e;
    snprintf(link, sizeof(link), "%s/L", xroot);
    replace_link(link, d);
    ev_init(&e, "flipL");
    e.mid = mid; e.d = d; e.ok = 1; e.nfo = sc.w_nfopen;
    emit(&e);
}

static void do_flipF(const char *it, const char *d, int mid)
{
    char link[600], target[200], dir[600];
    struct ev e;
    struct stat st;
    snprintf(dir, sizeof(dir), "%s/F", xroot);
    mkdir(dir, 0755);
    snprintf(link, sizeof(link), "%s/F/%s.pem", xroot, it);
    snprintf(target, sizeof(target), "../%s/%s.pem", d, it);
    replace_link(link, target);
    ev_init(&e, "flipF");
    e.mid = mid; e.d = d; e.it = it; e.ok = 1; e.nfo = sc.w_nfopen;
    /* the link itself must show a stamp this path has not shown before */
    for (int i = 0; i < 1000; i++) {
	if (lstat(link, &st) < 0)
	    die("lstat %s", link);
	int id = tuple_id(tuple_of(&st));
	if (!was_seen(link, id)) {
	    mark_seen(link, id);
	    e.lst = id;
	    break;
	}
	struct timespec ts[2] = { { 0, UTIME_OMIT }, st.st_mtim };
	ts[1].tv_nsec = (ts[1].tv_nsec + 1 + i) % 1000000000L;
	if (utimensat(AT_FDCWD, link, ts, AT_SYMLINK_NOFOLLOW) < 0)
	    die("utimensat %s: %s", link, strerror(errno));
    }
    emit(&e);
}

static void do_env(const char *d, int mid)
{
    char path[600];
    struct ev e;
    if (strcmp(d, "unset") == 0)
	unsetenv("XCM_TLS_CERT");
    else {
	snprintf(path, sizeof(path), "%s/%s", xroot, d);
	setenv("XCM_TLS_CERT", path, 1);
    }
    ev_init(&e, "env");
    e.mid = mid; e.d = d; e.ok = 1; e.nfo = sc.w_nfopen;
    emit(&e);
}

/* ---- network namespace names: a private mount namespace with a tmpfs over /run/netns ------------------------ */
static void ns_prepare(void)
{
    if (ns_tried)
	return;
    ns_tried = true;
    if (unshare(CLONE_NEWNS) < 0)
	return;
    if (mount("none", "/", NULL, MS_REC | MS_PRIVATE, NULL) < 0)
	return;
    mkdir("/run/netns", 0755);
    if (mount("tmpfs", "/run/netns", "tmpfs", 0, "size=1m") < 0)
	return;
    ns_ready = true;
}

static void ns_unname(void)
{
    if (ns_cur[0]) {
	char p[200];
	snprintf(p, sizeof(p), "/run/netns/%s", ns_cur);
	umount2(p, MNT_DETACH);
	unlink(p);
	ns_cur[0] = '\0';
    }
}

static void do_ns(const char *name)
{
    struct ev e;
    ev_init(&e, "ns");
    e.ns = strcmp(name, "-") == 0 ? "" : name;
    ns_prepare();
    e.ok = ns_ready ? 1 : 0;
    if (ns_ready) {
	ns_unname();
	if (strcmp(name, "-") != 0) {
	    char p[200];
	    snprintf(p, sizeof(p), "/run/netns/%s", name);
	    int fd = open(p, O_WRONLY | O_CREAT, 0444);
	    if (fd >= 0)
		close(fd);
	    if (fd < 0 || mount("/proc/self/ns/net", p, NULL, MS_BIND, NULL) < 0) {
		e.ok = 0;
		e.why = "bind mount failed";
	    } else
		snprintf(ns_cur, sizeof(ns_cur), "%s", name);
	}
    } else
	e.why = "no private mount namespace";
    emit(&e);
}

static bool lo_up(void)
{
    int fd = socket(AF_INET, SOCK_DGRAM, 0);
    if (fd < 0)
	return false;
    struct ifreq ifr;
    memset(&ifr, 0, sizeof(ifr));
    strcpy(ifr.ifr_name, "lo");
    bool ok = ioctl(fd, SIOCGIFFLAGS, &ifr) == 0;
    ifr.ifr_flags |= IFF_UP | IFF_RUNNING;
    ok = ok && ioctl(fd, SIOCSIFFLAGS, &ifr) == 0;
    close(fd);
    return ok;
}

/* ---- updates (also run from inside a library call) --------------------------------------------------------- */
static void exec_update(char *line, int mid)
{
    char *a[8];
    int n = 0;
    for (char *p = strtok(line, " \t\n"); p && n < 8; p = strtok(NULL, " \t\n"))
	a[n++] = p;
    if (n == 6 && strcmp(a[0], "put") == 0)
	do_put(a[1], a[2], a[3], a[4], a[5], mid);
    else if (n == 2 && strcmp(a[0], "flipL") == 0)
	do_flipL(a[1], mid);
    else if (n == 3 && strcmp(a[0], "flipF") == 0)
	do_flipF(a[1], a[2], mid);
    else if (n == 2 && strcmp(a[0], "env") == 0)
	do_env(a[1], mid);
    else
	die("bad update '%s' (%d words)", a[0] ? a[0] : "", n);
}

static char midcmd[8][256];
static int nmid;

static void mid_cb(void *arg)
{
    char buf[256];
    snprintf(buf, sizeof(buf), "%s", (char *)arg);
    exec_update(buf, 1);
}

/* ---- sockets --------------------------------------------------------------------------------------------- */
static void fill_window(struct ev *e)
{
    e->ctx = sc.w_got;
    e->nnew = sc.w_new;
    e->nfreed = sc.w_nfreed;
    memcpy(e->freed, sc.w_freed, sizeof(e->freed));
    e->live = sc.live;
    e->res = sc.w_res;
    e->nfo = sc.w_nfopen;
    e->uc = sc.w_uc;
}

static struct xcm_attr_map *make_attrs(char des[ITEMS][2][80], const char *tp, struct ev *e)
{
    struct xcm_attr_map *m = xcm_attr_map_create();
    xcm_attr_map_add_bool(m, "xcm.blocking", false);
    if (strcmp(tp, "btls") == 0)
	xcm_attr_map_add_str(m, "xcm.service", "bytestream");
    for (int i = 0; i < ITEMS; i++) {
	const char *t = des[i][0], *a = des[i][1];
	if (strcmp(t, "off") == 0) {
	    if (i == 2)
		xcm_attr_map_add_bool(m, "tls.auth", false);
	    continue;
	}
	if (i == 3 && strcmp(t, "inh") != 0)
	    xcm_attr_map_add_bool(m, "tls.check_crl", true);
	if (strcmp(t, "file") == 0) {
	    char path[700];
	    file_path(path, sizeof(path), a, "", item_name[i]);
	    xcm_attr_map_add_str(m, file_attr[i], path);
	} else if (strcmp(t, "val") == 0) {
	    char buf[1 << 16], one[80];
	    size_t len = 0;
	    snprintf(one, sizeof(one), "%s", a);
	    char *save = NULL;
	    for (char *p = strtok_r(one, "+", &save); p; p = strtok_r(NULL, "+", &save)) {
		struct tok *tk = content(p, item_name[i]);
		if (len + tk->len >= sizeof(buf))
		    die("value too long");
		memcpy(buf + len, tk->data, tk->len);
		len += tk->len;
	    }
	    xcm_attr_map_add_bin(m, val_attr[i], buf, len);
	}
    }
    (void)e;
    return m;
}

static void parse_des(const char *w, char d[2][80])
{
    if (strcmp(w, "off") == 0 || strcmp(w, "def") == 0 || strcmp(w, "inh") == 0) {
	strcpy(d[0], w);
	d[1][0] = '\0';
    } else if (strncmp(w, "f:", 2) == 0) {
	strcpy(d[0], "file");
	snprintf(d[1], 80, "%s", w + 2);
    } else if (strncmp(w, "v:", 2) == 0) {
	strcpy(d[0], "val");
	snprintf(d[1], 80, "%s", w + 2);
    } else
	die("bad designator %s", w);
}

static int wait_fd(struct xcm_socket *a, int ca, struct xcm_socket *b, int cb_, int ms)
{
    struct pollfd p[2];
    int n = 0;
    if (a) {
	xcm_await(a, ca);
	p[n].fd = xcm_fd(a);
	p[n].events = POLLIN;
	n++;
    }
    if (b) {
	xcm_await(b, cb_);
	p[n].fd = xcm_fd(b);
	p[n].events = POLLIN;
	n++;
    }
    return poll(p, n, ms);
}

static double now_s(void)
{
    struct timespec ts;
    clock_gettime(CLOCK_MONOTONIC, &ts);
    return ts.tv_sec + ts.tv_nsec / 1e9;
}

static void do_open(int s, const char *kind, int par, const char *tp, char *dw[ITEMS])
{
    struct ev b, e;
    if (s <= 0 || s >= MAXS || socks[s].s != NULL)
	die("open: socket %d in use", s);
    ev_init(&b, "obeg");
    ev_init(&e, "open");
    for (int i = 0; i < ITEMS; i++) {
	parse_des(dw[i], b.des[i]);
	memcpy(e.des[i], b.des[i], sizeof(e.des[i]));
    }
    b.s = e.s = s; b.k = e.k = kind; b.p = e.p = par; b.tp = e.tp = tp;
    b.live = sc.live;
    emit(&b);

    struct xcm_attr_map *m = make_attrs(e.des, tp, &e);
    struct xcm_socket *r = NULL;
    char addr[300];
    int err = 0;

    sc_sched_clear();
    for (int i = 0; i < nmid; i++) {
	int k, mode;
	char modew[16];
	int off = 0;
	if (sscanf(midcmd[i], "%d %15s %n", &k, modew, &off) < 2)
	    die("bad mid line");
	mode = strcmp(modew, "fopen") == 0 ? SC_FOPEN : strcmp(modew, "never") == 0 ? SC_NEVER : SC_ANY;
	sc_sched(k, mode, mid_cb, midcmd[i] + off);
    }

    bool skipped = false;
    if ((strcmp(kind, "connect") == 0 || strcmp(kind, "accept") == 0) &&
	(par <= 0 || par >= MAXS || socks[par].s == NULL || strcmp(socks[par].kind, "server") != 0 ||
	 (strcmp(kind, "accept") == 0 && socks[par].pending <= 0))) {
	/* the scaffolding asks for something an earlier failure made impossible: recorded, not attempted */
	skipped = true;
	sc_window();
	e.why = "skipped";
    } else if (strcmp(kind, "server") == 0) {
	snprintf(addr, sizeof(addr), "%s:127.0.0.1:0", tp);
	sc_window();
	sc.in_call = true;
	r = xcm_server_a(addr, m);
	err = errno;
	sc.in_call = false;
    } else if (strcmp(kind, "connect") == 0) {
	const char *la = xcm_local_addr(socks[par].s);
	if (la == NULL || strchr(la, ':') == NULL)
	    die("connect: server %d has no address", par);
	snprintf(addr, sizeof(addr), "%s:%s", tp, strchr(la, ':') + 1);
	sc_window();
	sc.in_call = true;
	r = xcm_connect_a(addr, m);
	err = errno;
	sc.in_call = false;
	if (r != NULL)
	    socks[par].pending++;
    } else if (strcmp(kind, "accept") == 0) {
	double t0 = now_s();
	for (;;) {
	    sc_window();
	    sc.in_call = true;
	    r = xcm_accept_a(socks[par].s, m);
	    err = errno;
	    sc.in_call = false;
	    if (r != NULL || err != EAGAIN)
		break;
	    if (now_s() - t0 > 20.0) {
		e.why = "no connection arrived";
		break;
	    }
	    wait_fd(socks[par].s, XCM_SO_ACCEPTABLE, NULL, 0, 20);
	}
	if (r != NULL || err != EAGAIN)
	    socks[par].pending--;
    } else
	die("bad kind %s", kind);
    fill_window(&e);
    /* updates whose place was never reached (nothing was loaded): they happen now, after the call */
    struct ev *ep = &e;
    e.ret = r != NULL ? 0 : -1;
    e.err = r != NULL ? 0 : (skipped ? 0 : err);
    e.ok = sc.w_get;
    emit(ep);
    sc_sched_run_unfired();
    sc_sched_clear();
    nmid = 0;
    xcm_attr_map_destroy(m);
    if (r != NULL) {
	socks[s].s = r;
	snprintf(socks[s].kind, sizeof(socks[s].kind), "%s", kind);
	snprintf(socks[s].tp, sizeof(socks[s].tp), "%s", tp);
	socks[s].pending = 0;
    }
}

static const char *identity(struct xcm_socket *c, char *hex, size_t cap)
{
    unsigned char id[128];
    enum xcm_attr_type type;
    int n = xcm_attr_get(c, "tls.peer_subject_key_id", &type, id, sizeof(id));
    if (n < 0)
	return "!";
    if (n == 0)
	return "";
    hex[0] = '\0';
    for (int i = 0; i < n && (size_t)(2 * i + 3) < cap; i++)
	sprintf(hex + 2 * i, "%02x", id[i]);
    for (int i = 0; i < nskis; i++)
	if (strcmp(skis[i].hex, hex) == 0)
	    return skis[i].name;
    return "?";
}

/* one byte (message) each way; -2: the environment did not settle */
static int exchange(struct xcm_socket *c, struct xcm_socket *s, char q, char r, int *ec, int *es)
{
    bool c_sent = false, s_got = false, s_sent = false, c_got = false;
    char buf[64];
    double t0 = now_s();
    *ec = *es = 0;
    for (;;) {
	int rc;
	if (!c_sent) {
	    rc = xcm_send(c, &q, 1);
	    if (rc >= 0)
		c_sent = true;
	    else if (errno != EAGAIN) { *ec = errno; return 0; }
	} else if (xcm_finish(c) < 0 && errno != EAGAIN) { *ec = errno; return 0; }
	if (!s_got) {
	    rc = xcm_receive(s, buf, sizeof(buf));
	    if (rc > 0) {
		if (buf[0] != q) { *es = -2; return 0; }
		s_got = true;
	    } else if (rc == 0) { *es = -1; return 0; }
	    else if (errno != EAGAIN) { *es = errno; return 0; }
	}
	if (s_got && !s_sent) {
	    rc = xcm_send(s, &r, 1);
	    if (rc >= 0)
		s_sent = true;
	    else if (errno != EAGAIN) { *es = errno; return 0; }
	} else if (s_sent && xcm_finish(s) < 0 && errno != EAGAIN) { *es = errno; return 0; }
	if (c_sent && !c_got) {
	    rc = xcm_receive(c, buf, sizeof(buf));
	    if (rc > 0) {
		if (buf[0] != r) { *ec = -2; return 0; }
		c_got = true;
		return 1;
	    } else if (rc == 0) { *ec = -1; return 0; }
	    else if (errno != EAGAIN) { *ec = errno; return 0; }
	}
	if (now_s() - t0 > 30.0)
	    return -2;
	wait_fd(c, XCM_SO_RECEIVABLE | (c_sent ? 0 : XCM_SO_SENDABLE), s,
		XCM_SO_RECEIVABLE | ((s_got && !s_sent) ? XCM_SO_SENDABLE : 0), 5);
    }
}

static void do_drive(const char *name, int c, int s)
{
    struct ev e;
    char hc[300], hs[300];
    ev_init(&e, name);
    e.s = c; e.s2 = s;
    if (c <= 0 || c >= MAXS || s <= 0 || s >= MAXS)
	die("%s: bad socket ids %d %d", name, c, s);
    if (socks[c].s == NULL || socks[s].s == NULL) {
	e.est = -3;
	e.why = "skipped";
	e.live = sc.live;
	emit(&e);
	return;
    }
    bool again = strcmp(name, "chk") == 0;
    sc_window();
    e.est = exchange(socks[c].s, socks[s].s, again ? 'q' : 'Q', again ? 'r' : 'R', &e.ec, &e.es);
    e.idc = identity(socks[c].s, hc, sizeof(hc));
    e.ids = identity(socks[s].s, hs, sizeof(hs));
    fill_window(&e);
    e.ctx = -1;
    emit(&e);
}

static void do_close(int s, bool cleanup)
{
    struct ev e;
    if (s <= 0 || s >= MAXS)
	die("close: bad socket id %d", s);
    ev_init(&e, "close");
    if (socks[s].s == NULL) {
	e.s = s; e.ret = -1; e.why = "skipped"; e.live = sc.live;
	emit(&e);
	return;
    }
    e.s = s; e.k = socks[s].kind; e.tp = socks[s].tp;
    sc_window();
    if (cleanup) {
	/* the socket is given up without being closed towards the peer (what a process does with sockets that belong
	   to another process after a fork): its share of the process-local context cache is released all the same */
	xcm_cleanup(socks[s].s);
	e.ret = 0;
	e.why = "cleanup";
    } else
	e.ret = xcm_close(socks[s].s);
    e.err = e.ret < 0 ? errno : 0;
    socks[s].s = NULL;
    fill_window(&e);
    e.ctx = sc.w_nput == 1 ? sc.w_puts[0] : -1;
    e.ok = sc.w_put;
    emit(&e);
}

static void rm_tree(const char *dir)
{
    char cmd[900];
    if (strstr(dir, "/x") == NULL)
	die("refusing to remove %s", dir);
    snprintf(cmd, sizeof(cmd), "rm -rf '%s'", dir);
    if (system(cmd) != 0)
	die("rm failed");
}

static void close_all(void)
{
    /* connections first, then servers */
    for (int pass = 0; pass < 2; pass++)
	for (int i = 1; i < MAXS; i++)
	    if (socks[i].s != NULL && (pass == 1 || strcmp(socks[i].kind, "server") != 0))
		do_close(i, false);
}

static void new_execution(int x, const char *label)
{
    struct ev e;
    for (int i = 1; i < MAXS; i++)
	if (socks[i].s != NULL) {
	    xcm_close(socks[i].s);
	    socks[i].s = NULL;
	}
    xid = x;
    stepno = 0;
    snprintf(xlabel, sizeof(xlabel), "%s", label);
    rm_tree(xroot);
    char p[600];
    mkdir(xroot, 0755);
    snprintf(p, sizeof(p), "%s/d1", xroot); mkdir(p, 0755);
    snprintf(p, sizeof(p), "%s/d2", xroot); mkdir(p, 0755);
    snprintf(p, sizeof(p), "%s/F", xroot); mkdir(p, 0755);
    unsetenv("XCM_TLS_CERT");
    if (ns_ready)
	ns_unname();
    nseen = 0;
    ntuples = 0;
    nmid = 0;
    ev_init(&e, "reset");
    e.why = xlabel;
    e.live = sc.live;
    emit(&e);
}

int main(int argc, char **argv)
{
    if (argc != 5)
	die("usage: creds_exec <script> <out.ndjson> <scratch root> <credential directory>");
    /* the script is read into memory first: a forked child (op "nsf") must not share a file offset with its parent */
    FILE *in = NULL;
    {
	FILE *f0 = fopen(argv[1], "r");
	if (f0 != NULL) {
	    fseek(f0, 0, SEEK_END);
	    long sz = ftell(f0);
	    fseek(f0, 0, SEEK_SET);
	    char *mem = malloc((size_t)sz + 1);
	    if (mem != NULL && fread(mem, 1, (size_t)sz, f0) == (size_t)sz)
		in = fmemopen(mem, (size_t)sz, "r");
	    fclose(f0);
	}
    }
    if (in == NULL)
	die("cannot read %s", argv[1]);
    out = fopen(argv[2], "w");
    if (out == NULL)
	die("cannot write %s", argv[2]);
    snprintf(root, sizeof(root), "%s", argv[3]);
    snprintf(creds, sizeof(creds), "%s", argv[4]);
    mkdir(root, 0755);
    snprintf(xroot, sizeof(xroot), "%s/x%d", root, (int)getpid());
    sc_set_root(root);
    sc_init();
    load_skis();

    char line[1024];
    while (fgets(line, sizeof(line), in) != NULL) {
	char copy[1024];
	snprintf(copy, sizeof(copy), "%s", line);
	char *w[16];
	int n = 0;
	for (char *p = strtok(copy, " \t\n"); p && n < 16; p = strtok(NULL, " \t\n"))
	    w[n++] = p;
	if (n == 0 || w[0][0] == '#')
	    continue;
	if (skip_to_next && strcmp(w[0], "X") != 0)
	    continue;		/* the rest of this execution was performed by the forked child */
	if (strcmp(w[0], "X") == 0 && n >= 2) {
	    skip_to_next = false;
	    new_execution(atoi(w[1]), n > 2 ? w[2] : "");
	} else if (strcmp(w[0], "nsf") == 0 && n == 2) {
	    /* the rest of the execution runs in a forked child that moves to a network namespace of its own and names
	       it: what the library learnt about its thread and namespace before the fork must not leak into the child */
	    fflush(out);
	    pid_t pid = fork();
	    if (pid == 0) {
		in_child = true;
		ns_cur[0] = '\0';		/* the parent's name stays mounted; it is not this process's namespace */
		bool moved = unshare(CLONE_NEWNET) == 0 && lo_up();
		if (moved)
		    do_ns(w[1]);
		else {
		    struct ev e;
		    ev_init(&e, "ns");
		    e.ns = w[1];
		    e.ok = 0;
		    e.why = "no network namespace of its own";
		    emit(&e);
		}
	    } else {
		int st = 0;
		if (pid > 0)
		    waitpid(pid, &st, 0);
		if (pid < 0 || !WIFEXITED(st) || WEXITSTATUS(st) != 0) {
		    struct ev e;
		    ev_init(&e, "end");
		    e.why = "forked part of the execution did not end normally";
		    emit(&e);
		}
		skip_to_next = true;
	    }
	}
	else if (strcmp(w[0], "mid") == 0 && n >= 4) {
	    if (nmid >= 8)
		die("too many mid updates");
	    /* keep "<k> <mode> <update...>" */
	    char *p = line;
	    while (*p == ' ') p++;
	    p += 3;
	    while (*p == ' ') p++;
	    snprintf(midcmd[nmid], sizeof(midcmd[nmid]), "%s", p);
	    midcmd[nmid][strcspn(midcmd[nmid], "\n")] = '\0';
	    nmid++;
	} else if (strcmp(w[0], "open") == 0 && n == 9)
	    do_open(atoi(w[1]), w[2], atoi(w[3]), w[4], &w[5]);
	else if ((strcmp(w[0], "drive") == 0 || strcmp(w[0], "chk") == 0) && n == 3)
	    do_drive(w[0], atoi(w[1]), atoi(w[2]));
	else if (strcmp(w[0], "close") == 0 && (n == 2 || n == 3))
	    do_close(atoi(w[1]), n == 3 && strcmp(w[2], "cu") == 0);
	else if (strcmp(w[0], "ns") == 0 && n == 2)
	    do_ns(w[1]);
	else if (strcmp(w[0], "end") == 0) {
	    struct ev e;
	    close_all();
	    ev_init(&e, "end");
	    e.live = sc.live;
	    e.nnew = sc.n_new;
	    e.ok = sc.stray_free;
	    emit(&e);
	    if (in_child) {
		ns_unname();
		fflush(out);
		_exit(0);
	    }
	} else if (strcmp(w[0], "put") == 0 || strcmp(w[0], "flipL") == 0 || strcmp(w[0], "flipF") == 0 ||
		   strcmp(w[0], "env") == 0) {
	    char buf[1024];
	    snprintf(buf, sizeof(buf), "%s", line);
	    exec_update(buf, 0);
	} else
	    die("bad script line: %s", line);
    }
    for (int i = 1; i < MAXS; i++)
	if (socks[i].s != NULL)
	    xcm_close(socks[i].s);
    if (ns_ready)
	ns_unname();
    rm_tree(xroot);
    fclose(out);
    return 0;
}
