/* ctl_exec: C14 "the control interface is passive and safe".
 *
 * Script interpreter.  Every execution creates a real XCM socket (the "owner") of a given
 * transport / role / state / attribute profile with XCM_CTL pointing at a scratch directory,
 * then replays a behaviour generated from spec/Ctl.tla: control clients (a raw AF_UNIX
 * SOCK_SEQPACKET client speaking - and mis-speaking - common/ctl_proto.h, and the libxcmctl
 * client) act while the owning application keeps using the socket, which is what gives the
 * control server its processing opportunities (it only runs from inside API calls).
 *
 * The harness never judges.  It records, as NDJSON lines of one shape:
 *   - what each client did and every reply (type, length, value hash, attribute list, number
 *     of occurrences of fragments of the private key in the raw reply bytes),
 *   - what the in-process API (xcm_attr_get / xcm_attr_get_all) reports for the same request at
 *     a quiescent point: right after the owner API call during which the server read the
 *     request (seen through the shim's log of the server-side descriptor activity), or, failing
 *     that, right after the reply was read,
 *   - the results of the data path calls (sequence-numbered messages),
 *   - the control files present in the XCM_CTL directory,
 *   - a final "crash" line when the process dies (signal, sanitizer report, abort).
 * spec/CtlTrace.tla is the oracle.
 *
 * usage: ctl_exec <script> <trace.ndjson>
 */
#include "shim.h"
#include "xcm.h"
#include "xcm_attr.h"
#include "xcm_attr_map.h"
#include "xcm_tp.h"
#include "xcmc.h"
#include "ctl_proto.h"

#include <arpa/inet.h>
#include <ctype.h>
#include <dirent.h>
#include <errno.h>
#include <fcntl.h>
#include <netinet/in.h>
#include <netinet/tcp.h>
#include <poll.h>
#include <pthread.h>
#include <signal.h>
#include <stddef.h>
#include <stdio.h>
#include <stdlib.h>
#include <string.h>
#include <sys/socket.h>
#include <sys/wait.h>
#include <sys/stat.h>
#include <sys/un.h>
#include <time.h>
#include <unistd.h>

#define MSGSZ ((long)sizeof(struct ctl_proto_msg))
#define MAXSESS 8
#define MAXREQ 16
#define MAXATTR 512
#define MAXFILES 64
#define PUMP_BOUND 6000	/* owner API calls without any sign of the control server */

/* ---- link-time seam required by the common --wrap list (pass-through) ---- */
int __real_xcm_tp_socket_send(struct xcm_socket *s, const void *buf, size_t len);
int __real_xcm_tp_socket_receive(struct xcm_socket *s, void *buf, size_t cap);
int __real_xcm_tp_socket_finish(struct xcm_socket *s);
int __wrap_xcm_tp_socket_send(struct xcm_socket *s, const void *buf, size_t len)
{
    return __real_xcm_tp_socket_send(s, buf, len);
}
int __wrap_xcm_tp_socket_receive(struct xcm_socket *s, void *buf, size_t cap)
{
    return __real_xcm_tp_socket_receive(s, buf, cap);
}
int __wrap_xcm_tp_socket_finish(struct xcm_socket *s)
{
    return __real_xcm_tp_socket_finish(s);
}

/* ---- state ---------------------------------------------------------------- */
static FILE *out;
static int outfd = -1;
static long xid, stepno;
static char ctl_dir[512];
static char run_dir[512];

enum { T_SRV, T_CLI, T_ACC, T_INPROG, T_HS, T_DEAD };
static const char *target_names[] = { "srv", "cli", "acc", "inprog", "hs", "dead" };
static int target;
static char tp[16];
static bool is_stream;
static bool pump_ok;	/* pump with successful calls (xcm_finish) instead of EAGAIN ones */

static struct xcm_socket *owner, *peer, *lsn;
static int rawl = -1, rawfill = -1, rawacc = -1;	/* raw kernel sockets of the in-progress targets */
static char srv_addr[256];
static struct xcm_attr_map *map_s, *map_c;
static char owner_files[MAXFILES][80];	/* control files created while the owner was created */
static int n_owner_files;
static char all_files[MAXFILES][80];	/* ... while anything of this execution was created */
static int n_all_files;
static long owner_ref = -1;	/* socket reference in the owner's control file name */
static int ctl_lfd[8];	/* listening descriptors of the owner's control sockets */
static int n_ctl_lfd;
static int ctl_cfd[64];	/* accepted control descriptors, in accept order */
static int n_ctl_cfd;
static int ctl_cfd_open;	/* currently open accepted descriptors */
static int ctl_cfd_max;
static long idle_rounds;	/* server rounds without any effect since the last reported one */

static unsigned char *keybody;	/* base64 body of the private key (no line breaks) */
static long keybody_len;
static unsigned char *keyder;
static long keyder_len;
static unsigned char *keypem;	/* the PEM text as stored */
static long keypem_len;

struct req {
    int kind;	/* 'g' get, 'a' get-all, 's' short, 'l' long, 'u' unknown type, 't' unterminated */
    char name[260];
    bool read_by_server;
};

struct sess {
    int fd;	/* raw client descriptor, -1 = none */
    bool used, lib, dropped;
    struct xcmc_session *xs;
    int order;	/* connect order (1..), 0 = never connected */
    struct req rq[MAXREQ];
    int nrq, nread, nans;
} ss[MAXSESS + 1];
static int n_connected;
static int order_to_sess[MAXSESS * 4];

static long app_seq[3], app_rcv[3];	/* 1: owner -> peer, 2: peer -> owner */
static long app_rounds;

/* ---- output ---------------------------------------------------------------- */
struct attr_ent { char name[96]; int type; long len; unsigned hash; };

static struct line {
    const char *ev;
    int s;
    char k[16];
    char nm[300];
    long a;
    long r[8];	/* sz mt at vl vh er na key */
    struct attr_ent *al; int nal;
    long o[7];	/* have rc er at vh rcbig quiescent */
    struct attr_ent *oal; int noal;
    long ap[10];
    long sv[5];
    char svs[2048];
    char fl[MAXFILES * 90];
    char tx[400];
} L;

static void line_reset(void)
{
    memset(&L, 0, sizeof(L));
    L.ev = "?";
    for (int i = 0; i < 8; i++) L.r[i] = -1;
    L.o[0] = 0;
    for (int i = 1; i < 7; i++) L.o[i] = -1;
    for (int i = 0; i < 10; i++) L.ap[i] = -1;
    for (int i = 0; i < 5; i++) L.sv[i] = -1;
    strcpy(L.k, "-");
}

static void json_str(FILE *f, const char *s)
{
    fputc('"', f);
    for (; *s; s++) {
	unsigned char c = *s;
	if (c == '"' || c == '\\')
	    fprintf(f, "\\%c", c);
	else if (c < 0x20 || c >= 0x7f)
	    fputc('?', f);
	else
	    fputc(c, f);
    }
    fputc('"', f);
}

static void json_attrs(FILE *f, const struct attr_ent *a, int n)
{
    fputc('[', f);
    for (int i = 0; i < n; i++) {
	if (i)
	    fputc(',', f);
	fputc('[', f);
	json_str(f, a[i].name);
	fprintf(f, ",%d,%ld,%u]", a[i].type, a[i].len, a[i].hash);
    }
    fputc(']', f);
}

static void emit(void)
{
    stepno++;
    fprintf(out, "{\"x\":%ld,\"n\":%ld,\"ev\":\"%s\",\"s\":%d,\"k\":\"%s\",\"nm\":", xid, stepno, L.ev, L.s, L.k);
    json_str(out, L.nm);
    fprintf(out, ",\"a\":%ld,\"r\":[", L.a);
    for (int i = 0; i < 8; i++)
	fprintf(out, "%s%ld", i ? "," : "", L.r[i]);
    fprintf(out, "],\"al\":");
    json_attrs(out, L.al, L.nal);
    fprintf(out, ",\"o\":[");
    for (int i = 0; i < 7; i++)
	fprintf(out, "%s%ld", i ? "," : "", L.o[i]);
    fprintf(out, "],\"oal\":");
    json_attrs(out, L.oal, L.noal);
    fprintf(out, ",\"ap\":[");
    for (int i = 0; i < 10; i++)
	fprintf(out, "%s%ld", i ? "," : "", L.ap[i]);
    fprintf(out, "],\"sv\":[");
    for (int i = 0; i < 5; i++)
	fprintf(out, "%s%ld", i ? "," : "", L.sv[i]);
    fprintf(out, "],\"svs\":[%s],\"fl\":[%s],\"tx\":", L.svs, L.fl);
    json_str(out, L.tx);
    fprintf(out, "}\n");
    fflush(out);
    free(L.al);
    free(L.oal);
    line_reset();
}

/* ---- crash handling --------------------------------------------------------- */
static volatile sig_atomic_t crashed;
static char crash_why[300];

static void crash_line(const char *why)
{
    if (crashed)
	return;
    crashed = 1;
    if (outfd >= 0) {
	char b[900], w[300];
	int j = 0;
	for (int i = 0; why[i] && j < 280; i++) {
	    unsigned char c = why[i];
	    w[j++] = (c == '"' || c == '\\' || c < 0x20 || c >= 0x7f) ? ' ' : c;
	}
	w[j] = 0;
	/* a partially written line (if any) is terminated first; the reader drops unparsable lines */
	int n = snprintf(b, sizeof(b),
			 "\n{\"x\":%ld,\"n\":%ld,\"ev\":\"crash\",\"s\":0,\"k\":\"-\",\"nm\":\"\",\"a\":0,"
			 "\"r\":[-1,-1,-1,-1,-1,-1,-1,-1],\"al\":[],\"o\":[0,-1,-1,-1,-1,-1,-1],\"oal\":[],"
			 "\"ap\":[-1,-1,-1,-1,-1,-1,-1,-1,-1,-1],\"sv\":[-1,-1,-1,-1,-1],\"svs\":[],\"fl\":[],\"tx\":\"%s\"}\n",
			 xid, stepno + 1, w);
	if (write(outfd, b, n) < 0) { }
    }
}

static void on_signal(int sig)
{
    crash_line(sig == SIGABRT ? "abort (assertion or sanitizer)" : sig == SIGSEGV ? "segmentation fault" :
	       sig == SIGBUS ? "bus error" : sig == SIGFPE ? "arithmetic exception" : sig == SIGALRM ? "hang (alarm)" :
	       sig == SIGPIPE ? "SIGPIPE" : "signal");
    _exit(0);
}

/* UBSan keeps its own copy of the sanitizer run-time: make its fatal reports end in abort(), which on_signal sees */
const char *__ubsan_default_options(void);
const char *__ubsan_default_options(void)
{
    return "abort_on_error=1:halt_on_error=1:print_stacktrace=1";
}

void __asan_set_error_report_callback(void (*cb)(const char *));
void __sanitizer_set_death_callback(void (*cb)(void));

static void on_asan_report(const char *report)
{
    /* "==pid==ERROR: AddressSanitizer: heap-buffer-overflow on address ... \nREAD of size ..." */
    const char *p = strstr(report, "ERROR: ");
    char w[300];
    int j = 0;
    if (p == NULL)
	p = report;
    for (int i = 0; p[i] && j < 200; i++) {
	if (p[i] == '\n') {
	    if (j > 120)
		break;
	    w[j++] = ' ';
	} else
	    w[j++] = p[i];
    }
    w[j] = 0;
    /* keep the frames of the report that name library code */
    const char *q = strstr(report, " in ");
    int frames = 0;
    while (q && frames < 4 && j < 280) {
	const char *e = q + 4;
	int k = 0;
	w[j++] = ' '; w[j++] = '<';
	while (e[k] && e[k] != ' ' && e[k] != '\n' && j < 290)
	    w[j++] = e[k++];
	frames++;
	q = strstr(e + k, " in ");
    }
    w[j] = 0;
    snprintf(crash_why, sizeof(crash_why), "%s", w);
    char path[600];
    snprintf(path, sizeof(path), "%s/asan.%ld.txt", run_dir[0] ? run_dir : ".", xid);
    int fd = open(path, O_WRONLY | O_CREAT | O_TRUNC, 0644);
    if (fd >= 0) {
	if (write(fd, report, strlen(report)) < 0) { }
	close(fd);
    }
    crash_line(crash_why);
    _exit(0);
}

static void on_death(void)
{
    crash_line(crash_why[0] ? crash_why : "sanitizer: undefined behaviour or fatal error");
    _exit(0);
}

/* ---- helpers ---------------------------------------------------------------- */
static unsigned fnv(const void *p, long n)
{
    const unsigned char *b = p;
    unsigned h = 2166136261u;
    for (long i = 0; i < n; i++) {
	h ^= b[i];
	h *= 16777619u;
    }
    return h & 0x7fffffffu;
}

static int hexval(int c)
{
    return c >= '0' && c <= '9' ? c - '0' : c >= 'a' && c <= 'f' ? c - 'a' + 10 : c >= 'A' && c <= 'F' ? c - 'A' + 10 : -1;
}

static int unhex(const char *h, unsigned char *o, int cap)
{
    int n = 0;
    if (strcmp(h, "-") == 0)
	return 0;
    while (h[0] && h[1] && n < cap) {
	o[n++] = (unsigned char)(hexval(h[0]) * 16 + hexval(h[1]));
	h += 2;
    }
    return n;
}

static unsigned char *load_file(const char *path, long *len)
{
    FILE *f = fopen(path, "rb");
    if (!f)
	return NULL;
    fseek(f, 0, SEEK_END);
    long n = ftell(f);
    fseek(f, 0, SEEK_SET);
    unsigned char *b = malloc(n + 1);
    if (fread(b, 1, n, f) != (size_t)n) {
	fclose(f);
	free(b);
	return NULL;
    }
    b[n] = 0;
    fclose(f);
    *len = n;
    return b;
}

static int b64v(int c)
{
    if (c >= 'A' && c <= 'Z') return c - 'A';
    if (c >= 'a' && c <= 'z') return c - 'a' + 26;
    if (c >= '0' && c <= '9') return c - '0' + 52;
    if (c == '+') return 62;
    if (c == '/') return 63;
    return -1;
}

static void load_key(const char *path)
{
    free(keybody); free(keyder); free(keypem);
    keybody = keyder = keypem = NULL;
    keybody_len = keyder_len = keypem_len = 0;
    if (strcmp(path, "-") == 0)
	return;
    keypem = load_file(path, &keypem_len);
    if (!keypem) {
	fprintf(stderr, "cannot read key %s\n", path);
	exit(2);
    }
    keybody = malloc(keypem_len + 1);
    char *cpy = strdup((char *)keypem), *sv = NULL;
    for (char *ln = strtok_r(cpy, "\n", &sv); ln; ln = strtok_r(NULL, "\n", &sv)) {
	if (strncmp(ln, "-----", 5) == 0)
	    continue;
	for (; *ln; ln++)
	    if (b64v(*ln) >= 0 || *ln == '=')
		keybody[keybody_len++] = *ln;
    }
    free(cpy);
    keybody[keybody_len] = 0;
    keyder = malloc(keybody_len);
    unsigned acc = 0;
    int bits = 0;
    for (long i = 0; i < keybody_len; i++) {
	int v = b64v(keybody[i]);
	if (v < 0)
	    break;
	acc = (acc << 6) | v;
	bits += 6;
	if (bits >= 8) {
	    bits -= 8;
	    keyder[keyder_len++] = (acc >> bits) & 0xff;
	}
    }
}

/* number of fragments of the private key found in buf: 20-character windows of the base64
   body (every 16 characters) and 12-byte windows of the DER encoding (every 24 bytes, skipping
   the first 32 which are ASN.1 boiler-plate shared by all keys of the kind) */
static long key_hits(const void *buf, long len)
{
    long hits = 0;
    if (!keybody || len <= 0)
	return 0;
    for (long i = 0; i + 20 <= keybody_len; i += 16)
	if (memmem(buf, len, keybody + i, 20))
	    hits++;
    for (long i = 32; i + 12 <= keyder_len; i += 24)
	if (memmem(buf, len, keyder + i, 12))
	    hits++;
    return hits;
}

static int list_ctl_files(char names[][80], int max)
{
    DIR *d = opendir(ctl_dir);
    int n = 0;
    if (!d)
	return 0;
    struct dirent *e;
    while ((e = readdir(d)) != NULL) {
	if (e->d_name[0] == '.')
	    continue;
	if (n < max)
	    snprintf(names[n++], 80, "%s", e->d_name);
    }
    closedir(d);
    return n;
}

static bool in_list(char names[][80], int n, const char *x)
{
    for (int i = 0; i < n; i++)
	if (strcmp(names[i], x) == 0)
	    return true;
    return false;
}

/* control files that appeared since 'before' are attributed to what was just created */
static char snap[MAXFILES][80];
static int nsnap;
static void files_before(void) { nsnap = list_ctl_files(snap, MAXFILES); }
static void files_after(bool is_owner)
{
    char now[MAXFILES][80];
    int n = list_ctl_files(now, MAXFILES);
    for (int i = 0; i < n; i++) {
	if (in_list(snap, nsnap, now[i]))
	    continue;
	if (n_all_files < MAXFILES && !in_list(all_files, n_all_files, now[i]))
	    strcpy(all_files[n_all_files++], now[i]);
	if (is_owner && n_owner_files < MAXFILES && !in_list(owner_files, n_owner_files, now[i]))
	    strcpy(owner_files[n_owner_files++], now[i]);
    }
}

static void fl_remaining(char names[][80], int n)
{
    char now[MAXFILES][80];
    int m = list_ctl_files(now, MAXFILES), first = 1;
    L.fl[0] = 0;
    for (int i = 0; i < n; i++)
	if (in_list(now, m, names[i])) {
	    char b[100];
	    snprintf(b, sizeof(b), "%s\"%s\"", first ? "" : ",", names[i]);
	    strcat(L.fl, b);
	    first = 0;
	}
}

/* ---- in-process oracle -------------------------------------------------------- */
/* every call of the owner is one on a non-blocking socket: a waiting primitive inside it (a control session that
   blocks the data path) is counted by the shim */
static long owner_waits;
static int ocall_begin(int ctx) { shim_enter(ctx); shim_nonblock_watch(true); return 0; }
static void ocall_end(void) { shim_leave(); shim_nonblock_watch(false); owner_waits += shim_wait_seen(); }

static unsigned char obuf[70000];

static void sample_get(const char *name, long *o)
{
    enum xcm_attr_type t = 0;
    o[0] = 1;
    if (!owner) {
	o[0] = 0;
	return;
    }
    ocall_begin(1);
    errno = 0;
    int rc = xcm_attr_get(owner, name, &t, obuf, CTL_ATTR_VALUE_MAX);
    int e = errno;
    ocall_end();
    o[1] = rc;
    o[2] = rc < 0 ? e : 0;
    o[3] = rc >= 0 ? (long)t : -1;
    o[4] = rc >= 0 ? (long)fnv(obuf, rc) : -1;
    ocall_begin(1);
    int rcb = xcm_attr_get(owner, name, &t, obuf, sizeof(obuf));
    ocall_end();
    o[5] = rcb;
}

struct acc { struct attr_ent *a; int n, cap; };

static void all_cb(const char *name, enum xcm_attr_type type, void *value, size_t len, void *data)
{
    struct acc *c = data;
    if (c->n == c->cap) {
	c->cap = c->cap ? c->cap * 2 : 128;
	c->a = realloc(c->a, c->cap * sizeof(struct attr_ent));
    }
    struct attr_ent *e = &c->a[c->n++];
    snprintf(e->name, sizeof(e->name), "%s", name);
    e->type = type;
    e->len = len;
    e->hash = fnv(value, len);
}

static void sample_all(struct attr_ent **a, int *n)
{
    struct acc c = { 0 };
    if (owner) {
	ocall_begin(1);
	xcm_attr_get_all(owner, all_cb, &c);
	ocall_end();
    }
    *a = c.a;
    *n = c.n;
}

/* ---- control descriptors of the owner, server-side activity ------------------- */
static bool is_ctl_lfd(int fd)
{
    for (int i = 0; i < n_ctl_lfd; i++)
	if (ctl_lfd[i] == fd)
	    return true;
    return false;
}

static int cfd_index(int fd)	/* newest accepted descriptor with this number */
{
    for (int i = n_ctl_cfd - 1; i >= 0; i--)
	if (ctl_cfd[i] == fd)
	    return i;
    return -1;
}
static bool cfd_is_open[64];

static void find_ctl_lfds(void)
{
    int fds[64];
    int n = shim_find(-1, SK_LISTEN, fds, 64);
    n_ctl_lfd = 0;
    for (int i = 0; i < n; i++) {
	struct sockaddr_un su;
	socklen_t sl = sizeof(su);
	memset(&su, 0, sizeof(su));
	if (getsockname(fds[i], (struct sockaddr *)&su, &sl) < 0 || su.sun_family != AF_UNIX)
	    continue;
	size_t dl = strlen(ctl_dir);
	if (strncmp(su.sun_path, ctl_dir, dl) != 0 || su.sun_path[dl] != '/')
	    continue;
	const char *base = su.sun_path + dl + 1;
	/* only the control socket the clients of this execution connect to */
	char want[80];
	snprintf(want, sizeof(want), "ctl-%d-%ld", getpid(), owner_ref);
	if (strcmp(base, want) == 0 && n_ctl_lfd < 8)
	    ctl_lfd[n_ctl_lfd++] = fds[i];
    }
}

static int sess_of_cfd_index(int idx)
{
    if (idx < 0 || idx >= n_connected)
	return 0;
    return order_to_sess[idx];
}

static void emit_orc_for(int s, struct req *rq)
{
    line_reset();
    L.ev = "orc";
    L.s = s;
    L.a = (rq - ss[s].rq) + 1;	/* which request of the session */
    L.k[0] = rq->kind; L.k[1] = 0;
    snprintf(L.nm, sizeof(L.nm), "%s", rq->name);
    if (rq->kind == 'a') {
	L.o[0] = 1;
	sample_all(&L.oal, &L.noal);
    } else
	sample_get(rq->name, L.o);
    L.o[6] = 1;
    emit();
}

/* looks at what the library did on the owner's control descriptors during the API call that
   just returned; emits a "srv" line when there was any activity (one ctl_process round, or
   several when it restarted itself), followed by one "orc" line per request the server read */
static size_t log_pos;	/* shim log entries already looked at */
static volatile int lib_running;	/* the helper thread is inside a libxcmctl call (it logs, too) */

static void log_forget(void)
{
    /* the log is only ever emptied while no other thread can append to it */
    if (!lib_running) {
	shim_log_clear();
	log_pos = 0;
    } else {
	const struct shim_ev *ev;
	log_pos = shim_log_get(&ev);
    }
}

static bool scan_burst(void)
{
    const struct shim_ev *ev;
    size_t n = shim_log_get(&ev);
    bool any = false;
    int nacc = 0, nrd = 0, nwr = 0, ncl = 0;
    char svs[2048];
    int sl = 0;
    int readers[16], nreaders = 0;
    svs[0] = 0;
    for (size_t i = log_pos; i < n; i++) {
	const struct shim_ev *e = &ev[i];
	if (e->ctx != 1)
	    continue;
	const char *what = NULL;
	int s = 0;
	long res = e->res;
	if (strcmp(e->call, "poll") == 0) {
	    if (is_ctl_lfd(e->fd) || (cfd_index(e->fd) >= 0 && cfd_is_open[cfd_index(e->fd)]))
		any = true;
	    continue;
	}
	if (strcmp(e->call, "accept4") == 0 && is_ctl_lfd(e->fd)) {
	    any = true;
	    if (e->res >= 0 && n_ctl_cfd < 64) {
		cfd_is_open[n_ctl_cfd] = true;
		ctl_cfd[n_ctl_cfd++] = (int)e->res;
		ctl_cfd_open++;
		if (ctl_cfd_open > ctl_cfd_max)
		    ctl_cfd_max = ctl_cfd_open;
		nacc++;
		what = "acc";
		s = sess_of_cfd_index(n_ctl_cfd - 1);
		res = 0;
	    } else
		continue;
	} else if (strcmp(e->call, "recv") == 0 || strcmp(e->call, "send") == 0 || strcmp(e->call, "close") == 0) {
	    int idx = cfd_index(e->fd);
	    if (idx < 0 || !cfd_is_open[idx])
		continue;
	    any = true;
	    s = sess_of_cfd_index(idx);
	    if (e->call[0] == 'r') {
		what = "rd";
		nrd++;
		if (e->res >= 0 && s > 0) {
		    struct sess *S = &ss[s];
		    /* a zero-length result is a zero-length message only if one is queued */
		    bool consumes = e->res > 0 || (S->nread < S->nrq && S->rq[S->nread].kind == 's');
		    if (consumes && S->nread < S->nrq && nreaders < 16) {
			if (e->res == MSGSZ)
			    readers[nreaders++] = s * 100 + S->nread;
			S->rq[S->nread].read_by_server = true;
			S->nread++;
		    }
		}
		if (e->res < 0)
		    res = -e->err;
	    } else if (e->call[0] == 's') {
		what = "wr";
		nwr++;
		if (e->res < 0)
		    res = -e->err;
	    } else {
		what = "cl";
		ncl++;
		cfd_is_open[idx] = false;
		ctl_cfd_open--;
		res = 0;
	    }
	} else
	    continue;
	if (what && sl < (int)sizeof(svs) - 64)
	    sl += snprintf(svs + sl, sizeof(svs) - sl, "%s[\"%s\",%d,%ld]", sl ? "," : "", what, s, res);
    }
    log_pos = n;
    if (n > 40000)
	log_forget();
    if (!any)
	return false;
    if (nacc + nrd + nwr + ncl == 0) {	/* a round in which the server found nothing to do */
	idle_rounds++;
	return true;
    }
    line_reset();
    L.ev = "srv";
    L.a = idle_rounds;
    idle_rounds = 0;
    L.sv[0] = ctl_cfd_open;
    L.sv[1] = nacc;
    L.sv[2] = nrd;
    L.sv[3] = nwr;
    L.sv[4] = ncl;
    strcpy(L.svs, svs);
    emit();
    for (int i = 0; i < nreaders; i++) {
	int s = readers[i] / 100, q = readers[i] % 100;
	struct req *rq = &ss[s].rq[q];
	if (rq->kind == 'g' || rq->kind == 'l' || rq->kind == 't' || rq->kind == 'a')
	    emit_orc_for(s, rq);
    }
    return true;
}

/* ---- the owner's data path ------------------------------------------------------ */
static unsigned char mbuf[70000];

/* one owner API call that gives the control server an opportunity; returns 1 if the shim saw
   control activity.  Result of the call in *rc / *er. */
static int pump_call(int *rc, int *er)
{
    int r = -2, e = 0;
    if (!owner) {
	*rc = -3; *er = 0;
	return 0;
    }
    ocall_begin(1);
    errno = 0;
    if (target == T_SRV) {
	struct xcm_socket *c = xcm_accept_a(owner, map_s);
	e = errno;
	r = c ? 1 : -1;
	if (c)	/* nobody is connecting: not expected */
	    xcm_close(c);
    } else if (target == T_INPROG || target == T_HS || (pump_ok && target != T_DEAD)) {
	r = xcm_finish(owner);
	e = errno;
    } else {
	r = xcm_receive(owner, mbuf, sizeof(mbuf));
	e = errno;
    }
    ocall_end();
    *rc = r;
    *er = r < 0 ? e : 0;
    return scan_burst() ? 1 : 0;
}

/* how many owner calls to make before concluding that the control server does not run: far beyond the
   cadence of xcm_tp.c (a round every 5 temporarily failing or 257 successful calls) */
static long pump_bound(void)
{
    return pump_ok ? PUMP_BOUND : PUMP_BOUND / 10;
}

/* drives owner calls until the control server has run once (or the bound is reached);
   ap = [calls, last rc, last errno, unexpected results, bursts] */
static void do_pump(int bursts, const char *ev)
{
    long calls = 0, unexpected = 0, got = 0;
    int rc = 0, er = 0;
    /* without a view of the server side (its listening descriptor was not found) a fixed number of calls per round */
    long bound = n_ctl_lfd > 0 ? pump_bound() : 64L * bursts;
    while (got < bursts && calls < bound) {
	calls++;
	long w0 = owner_waits;
	got += pump_call(&rc, &er);
	bool expected;
	if (owner_waits != w0)
	    unexpected++;	/* the call slept (or would have): the control interface is not passive */
	if (target == T_DEAD)
	    expected = true;
	else if (target == T_SRV)
	    expected = rc == -1 && er == EAGAIN;
	else if (target == T_INPROG || target == T_HS)
	    expected = rc == -1 && er == EAGAIN;
	else if (pump_ok)
	    expected = rc == 0;
	else
	    expected = rc == -1 && er == EAGAIN;
	if (!expected)
	    unexpected++;
	if (target == T_DEAD && calls >= 600)
	    break;
    }
    line_reset();
    L.ev = ev;
    L.ap[0] = calls;
    L.ap[1] = rc;
    L.ap[2] = er;
    L.ap[3] = unexpected;
    L.ap[4] = got;
    emit();
}

static void fill_app(unsigned char *b, int dir, long seq, int len)
{
    for (int i = 0; i < len; i++)
	b[i] = (unsigned char)((seq * 131 + i * 7 + dir * 29 + xid) & 0xff);
    if (len >= 4) {
	b[0] = seq & 0xff; b[1] = (seq >> 8) & 0xff; b[2] = (seq >> 16) & 0xff; b[3] = dir;
    }
}

struct xfer { long sent, rcvd, bad, rc, er; };

/* one message (or chunk) from -> to; every call is made through the public API */
static void transfer(struct xcm_socket *from, int fctx, struct xcm_socket *to, int tctx, int dir, struct xfer *x)
{
    static unsigned char sb[2048], rb[4096];
    long seq = ++app_seq[dir];
    int len = 8 + (int)((seq * 37 + xid) % 900);
    fill_app(sb, dir, seq, len);
    int rc = -1, e = 0;
    for (int i = 0; i < 20000; i++) {
	ocall_begin(fctx);
	errno = 0;
	rc = xcm_send(from, sb, len);
	e = errno;
	ocall_end();
	if (fctx == 1)
	    scan_burst();
	if (rc >= 0 || e != EAGAIN)
	    break;
	ocall_begin(tctx); xcm_finish(to); ocall_end();
	if (tctx == 1)
	    scan_burst();
    }
    if (rc < 0 || (is_stream && rc != len)) {
	/* bytestream sends may be partial; send the rest */
	if (is_stream && rc >= 0) {
	    long off = rc;
	    for (int i = 0; i < 20000 && off < len; i++) {
		ocall_begin(fctx);
		rc = xcm_send(from, sb + off, len - off);
		e = errno;
		ocall_end();
		if (fctx == 1)
		    scan_burst();
		if (rc > 0)
		    off += rc;
		else if (rc < 0 && e != EAGAIN)
		    break;
	    }
	    if (off < len) {
		x->rc = rc; x->er = e; x->bad++;
		return;
	    }
	} else {
	    x->rc = rc; x->er = e; x->bad++;
	    return;
	}
    }
    x->sent++;
    long got = 0;
    struct timespec t0, t1;
    clock_gettime(CLOCK_MONOTONIC, &t0);
    for (long i = 0; ; i++) {
	ocall_begin(fctx); xcm_finish(from); ocall_end();
	if (fctx == 1)
	    scan_burst();
	ocall_begin(tctx);
	errno = 0;
	rc = xcm_receive(to, rb + got, sizeof(rb) - got);
	e = errno;
	ocall_end();
	if (tctx == 1)
	    scan_burst();
	if (rc > 0) {
	    got += rc;
	    if (!is_stream || got >= len)
		break;
	} else if (rc == 0 || e != EAGAIN) {
	    x->rc = rc; x->er = rc < 0 ? e : 0; x->bad++;
	    return;
	}
	if (i > 2000) {
	    struct timespec ts = { 0, 200000 };
	    nanosleep(&ts, NULL);
	    clock_gettime(CLOCK_MONOTONIC, &t1);
	    if (t1.tv_sec - t0.tv_sec > 8) {	/* generous upper bound: the message is lost */
		x->rc = -1; x->er = EAGAIN; x->bad++;
		return;
	    }
	}
    }
    if (got == len && memcmp(sb, rb, len) == 0) {
	x->rcvd++;
	app_rcv[dir]++;
    } else {
	x->bad++;
	x->rc = got; x->er = 0;
    }
}

static void do_app(int n)
{
    struct xfer a = { 0 }, b = { 0 };
    line_reset();
    app_rounds++;
    if (target == T_CLI || target == T_ACC) {
	for (int i = 0; i < n; i++) {
	    transfer(owner, 1, peer, 2, 1, &a);
	    transfer(peer, 2, owner, 1, 2, &b);
	}
    } else if (target == T_SRV) {
	/* application traffic of a server socket: connections arrive and are accepted */
	for (int i = 0; i < n; i++) {
	    ocall_begin(2);
	    struct xcm_socket *c = xcm_connect_a(srv_addr, map_c);
	    ocall_end();
	    struct xcm_socket *s = NULL;
	    if (!c) {
		a.bad++; a.rc = -1; a.er = errno;
		continue;
	    }
	    bool ok1 = false, ok2 = false;
	    int e1 = 0;
	    for (int j = 0; j < 40000 && !(ok1 && ok2); j++) {
		if (!s) {
		    ocall_begin(1);
		    errno = 0;
		    s = xcm_accept_a(owner, map_s);
		    e1 = errno;
		    ocall_end();
		    scan_burst();
		    if (!s && e1 != EAGAIN)
			break;
		}
		ocall_begin(2); ok1 = xcm_finish(c) == 0; ocall_end();
		if (s) {
		    ocall_begin(3); ok2 = xcm_finish(s) == 0; ocall_end();
		}
		if (j > 2000) {
		    struct timespec ts = { 0, 200000 };
		    nanosleep(&ts, NULL);
		}
	    }
	    if (ok1 && ok2) {
		/* one message each way over the new connection */
		transfer(c, 2, s, 3, 1, &a);
		transfer(s, 3, c, 2, 2, &b);
	    } else {
		a.bad++; a.rc = -2; a.er = e1;
	    }
	    ocall_begin(2); xcm_close(c); ocall_end();
	    if (s) {
		ocall_begin(3); xcm_close(s); ocall_end();
	    }
	    log_forget();
	}
    } else if (target == T_DEAD) {
	/* the application notices the closed connection: receive says 0 or an error, never data */
	ocall_begin(1);
	errno = 0;
	int rc = xcm_receive(owner, mbuf, sizeof(mbuf));
	int e = errno;
	ocall_end();
	scan_burst();
	a.rc = rc; a.er = rc < 0 ? e : 0;
	if (rc > 0)
	    a.bad++;
    }
    L.ev = "app";
    L.a = n;
    L.ap[0] = a.sent; L.ap[1] = a.rcvd; L.ap[2] = a.bad; L.ap[3] = a.rc; L.ap[4] = a.er;
    L.ap[5] = b.sent; L.ap[6] = b.rcvd; L.ap[7] = b.bad; L.ap[8] = b.rc; L.ap[9] = b.er;
    emit();
}

/* ---- set-up ------------------------------------------------------------------------ */
static struct xcm_socket *finish_pair(struct xcm_socket *l, struct xcm_socket *c, int cctx, int actx, bool acc_is_owner)
{
    struct xcm_socket *a = NULL;
    bool ok1 = false, ok2 = false;
    for (int i = 0; i < 60000 && !(ok1 && ok2); i++) {
	if (!a) {
	    if (acc_is_owner)
		files_before();
	    ocall_begin(actx);
	    a = xcm_accept_a(l, map_s);
	    int e = errno;
	    ocall_end();
	    if (a && acc_is_owner)
		files_after(true);
	    if (!a && e != EAGAIN) {
		fprintf(stderr, "accept: %s\n", strerror(e));
		return NULL;
	    }
	}
	ocall_begin(cctx);
	ok1 = xcm_finish(c) == 0;
	int e1 = errno;
	ocall_end();
	if (!ok1 && e1 != EAGAIN) {
	    fprintf(stderr, "finish(connecting side): %s\n", strerror(e1));
	    return NULL;
	}
	if (a) {
	    ocall_begin(actx);
	    ok2 = xcm_finish(a) == 0;
	    int e2 = errno;
	    ocall_end();
	    if (!ok2 && e2 != EAGAIN) {
		fprintf(stderr, "finish(accepted side): %s\n", strerror(e2));
		return NULL;
	    }
	}
	if (i > 3000) {
	    struct timespec ts = { 0, 200000 };
	    nanosleep(&ts, NULL);
	}
    }
    return (ok1 && ok2) ? a : NULL;
}

static long ref_of(const char *fname)
{
    const char *p = strrchr(fname, '-');
    return p ? atol(p + 1) : -1;
}

static int raw_listener(int *port, int backlog)
{
    int fd = socket(AF_INET, SOCK_STREAM, 0);
    struct sockaddr_in sin = { .sin_family = AF_INET };
    sin.sin_addr.s_addr = htonl(INADDR_LOOPBACK);
    socklen_t sl = sizeof(sin);
    if (fd < 0 || bind(fd, (struct sockaddr *)&sin, sizeof(sin)) < 0 || listen(fd, backlog) < 0 ||
	getsockname(fd, (struct sockaddr *)&sin, &sl) < 0)
	return -1;
    *port = ntohs(sin.sin_port);
    return fd;
}

static int setup(void)
{
    static long seq;
    char addr[300];
    seq++;
    is_stream = strcmp(tp, "btcp") == 0 || strcmp(tp, "btls") == 0;
    if (strcmp(tp, "ux") == 0)
	snprintf(addr, sizeof(addr), "ux:c14-%d-%ld", getpid(), seq);
    else if (strcmp(tp, "uxf") == 0)
	snprintf(addr, sizeof(addr), "uxf:%s/u%d-%ld", run_dir, getpid(), seq);
    else
	snprintf(addr, sizeof(addr), "%s:127.0.0.1:0", tp);

    if (target == T_INPROG || target == T_HS) {
	int port = 0;
	/* the attempt must stay in progress for as long as the behaviour lasts (default: 3 s) */
	xcm_attr_map_add_double(map_c, "tcp.connect_timeout", 36000.0);
	rawl = raw_listener(&port, target == T_INPROG ? 0 : 8);
	if (rawl < 0)
	    return -1;
	if (target == T_INPROG) {
	    /* a listener with backlog 0 and one pending connection: further SYNs stay unanswered */
	    struct sockaddr_in sin = { .sin_family = AF_INET, .sin_port = htons(port) };
	    sin.sin_addr.s_addr = htonl(INADDR_LOOPBACK);
	    rawfill = socket(AF_INET, SOCK_STREAM, 0);
	    if (connect(rawfill, (struct sockaddr *)&sin, sizeof(sin)) < 0)
		return -1;
	}
	snprintf(srv_addr, sizeof(srv_addr), "%s:127.0.0.1:%d", tp, port);
	files_before();
	ocall_begin(1);
	owner = xcm_connect_a(srv_addr, map_c);
	ocall_end();
	if (!owner) {
	    fprintf(stderr, "connect %s: %s\n", srv_addr, strerror(errno));
	    return -1;
	}
	files_after(true);
	if (target == T_HS) {
	    /* the TCP connection completes, the peer never says a word of TLS */
	    for (int i = 0; i < 2000 && rawacc < 0; i++) {
		rawacc = accept4(rawl, NULL, NULL, SOCK_NONBLOCK);
		ocall_begin(1); xcm_finish(owner); ocall_end();
		if (rawacc < 0)
		    usleep(200);
	    }
	}
	return 0;
    }

    files_before();
    ocall_begin(target == T_SRV ? 1 : 3);
    lsn = xcm_server_a(addr, map_s);
    ocall_end();
    if (!lsn) {
	fprintf(stderr, "xcm_server_a(%s): %s\n", addr, strerror(errno));
	return -1;
    }
    files_after(target == T_SRV);
    snprintf(srv_addr, sizeof(srv_addr), "%s", xcm_local_addr(lsn));
    if (target == T_SRV) {
	owner = lsn;
	lsn = NULL;
	return 0;
    }
    bool own_connects = target == T_CLI || target == T_DEAD;
    files_before();
    ocall_begin(own_connects ? 1 : 2);
    struct xcm_socket *c = xcm_connect_a(srv_addr, map_c);
    ocall_end();
    if (!c) {
	fprintf(stderr, "xcm_connect_a(%s): %s\n", srv_addr, strerror(errno));
	return -1;
    }
    files_after(own_connects);
    struct xcm_socket *a = finish_pair(lsn, c, own_connects ? 1 : 2, own_connects ? 2 : 1, !own_connects);
    if (!a) {
	fprintf(stderr, "establishment failed (%s)\n", tp);
	return -1;
    }
    files_before();
    files_after(false);
    if (own_connects) {
	owner = c; peer = a;
    } else {
	owner = a; peer = c;
    }
    if (target == T_DEAD) {
	ocall_begin(2);
	xcm_close(peer);
	ocall_end();
	peer = NULL;
	/* let the owner notice */
	for (int i = 0; i < 2000; i++) {
	    ocall_begin(1);
	    int rc = xcm_receive(owner, mbuf, sizeof(mbuf));
	    int e = errno;
	    ocall_end();
	    if (rc == 0 || (rc < 0 && e != EAGAIN))
		break;
	    usleep(200);
	}
    }
    return 0;
}

static void close_sessions(void)
{
    for (int s = 1; s <= MAXSESS; s++) {
	if (ss[s].xs)
	    xcmc_close(ss[s].xs);
	else if (ss[s].fd >= 0 && ss[s].used)
	    close(ss[s].fd);
	memset(&ss[s], 0, sizeof(ss[s]));
	ss[s].fd = -1;
    }
    n_connected = 0;
}

static void teardown(void)
{
    close_sessions();
    if (owner) { ocall_begin(1); xcm_close(owner); ocall_end(); owner = NULL; }
    if (peer) { ocall_begin(2); xcm_close(peer); ocall_end(); peer = NULL; }
    if (lsn) { ocall_begin(3); xcm_close(lsn); ocall_end(); lsn = NULL; }
    if (rawacc >= 0) { close(rawacc); rawacc = -1; }
    if (rawfill >= 0) { close(rawfill); rawfill = -1; }
    if (rawl >= 0) { close(rawl); rawl = -1; }
}

/* ---- clients ------------------------------------------------------------------------ */
static char owner_path[600];

static void cl_connect(int s)
{
    struct sess *S = &ss[s];
    line_reset();
    L.ev = "conn";
    L.s = s;
    strcpy(L.k, "raw");
    int fd = socket(AF_UNIX, SOCK_SEQPACKET | SOCK_NONBLOCK, 0);
    struct sockaddr_un su = { .sun_family = AF_UNIX };
    snprintf(su.sun_path, sizeof(su.sun_path), "%s", owner_path);
    int rc = connect(fd, (struct sockaddr *)&su, sizeof(su));
    int e = errno;
    L.ap[0] = rc;
    L.ap[1] = rc < 0 ? e : 0;
    if (rc < 0) {
	close(fd);
	fd = -1;
    } else {
	S->order = ++n_connected;
	order_to_sess[S->order - 1] = s;
    }
    S->fd = fd;
    S->used = true;
    S->lib = false;
    emit();
}

static struct ctl_proto_msg *rawmsg;

static void cl_send(int s, const char *kind, char **arg, int narg)
{
    struct sess *S = &ss[s];
    unsigned char *b = (unsigned char *)rawmsg;
    long len = MSGSZ;
    struct req rq = { 0 };
    unsigned char nm[300];
    int nl = 0;
    line_reset();
    L.ev = "req";
    L.s = s;
    memset(b, 0, MSGSZ + 4096);
    if (strcmp(kind, "get") == 0 || strcmp(kind, "long") == 0) {
	int fill = narg > 1 ? atoi(arg[1]) : 0;
	nl = unhex(arg[0], nm, XCM_ATTR_NAME_MAX - 1);
	if (fill)
	    memset(b + sizeof(enum ctl_proto_type), 0xAA, MSGSZ + 4096 - sizeof(enum ctl_proto_type));
	rawmsg->type = ctl_proto_type_get_attr_req;
	memcpy(rawmsg->get_attr_req.attr_name, nm, nl);
	rawmsg->get_attr_req.attr_name[nl] = 0;
	rq.kind = kind[0];
	memcpy(rq.name, nm, nl);
	if (kind[0] == 'l') {
	    len = MSGSZ + (narg > 2 ? atol(arg[2]) : 1);
	    L.a = len - MSGSZ;
	} else
	    L.a = fill;
    } else if (strcmp(kind, "all") == 0) {
	int fill = narg > 0 ? atoi(arg[0]) : 0;
	if (fill)
	    memset(b + sizeof(enum ctl_proto_type), 0xAA, MSGSZ - sizeof(enum ctl_proto_type));
	rawmsg->type = ctl_proto_type_get_all_attr_req;
	rq.kind = 'a';
	L.a = fill;
    } else if (strcmp(kind, "short") == 0) {
	len = atol(arg[0]);
	if (len >= MSGSZ)
	    len = MSGSZ - 1;
	rawmsg->type = ctl_proto_type_get_attr_req;
	strcpy(rawmsg->get_attr_req.attr_name, "xcm.type");
	rq.kind = 's';
	L.a = len;
    } else if (strcmp(kind, "unk") == 0) {
	long t = atol(arg[0]);
	memset(b, 0x5A, MSGSZ);
	rawmsg->type = (enum ctl_proto_type)t;
	strcpy(rawmsg->get_attr_req.attr_name, "xcm.type");
	rq.kind = 'u';
	L.a = t;
    } else if (strcmp(kind, "unterm") == 0) {
	int mode = atoi(arg[0]);
	nl = narg > 1 ? unhex(arg[1], nm, XCM_ATTR_NAME_MAX) : 0;
	rawmsg->type = ctl_proto_type_get_attr_req;
	/* 64 name bytes without NUL; mode 1: no NUL anywhere behind them either */
	memset(rawmsg->get_attr_req.attr_name, 'A', XCM_ATTR_NAME_MAX);
	memcpy(rawmsg->get_attr_req.attr_name, nm, nl);
	if (mode == 1)
	    memset(b + sizeof(enum ctl_proto_type) + XCM_ATTR_NAME_MAX, 'B',
		   MSGSZ - sizeof(enum ctl_proto_type) - XCM_ATTR_NAME_MAX);
	rq.kind = 't';
	/* the only name a terminated reading of the field can denote: its first 63 bytes */
	memcpy(rq.name, rawmsg->get_attr_req.attr_name, XCM_ATTR_NAME_MAX - 1);
	rq.name[XCM_ATTR_NAME_MAX - 1] = 0;
	L.a = mode;
    } else {
	fprintf(stderr, "unknown request kind %s\n", kind);
	exit(2);
    }
    snprintf(L.k, sizeof(L.k), "%s", kind);
    snprintf(L.nm, sizeof(L.nm), "%s", rq.name);
    int rc = -1, e = EBADF;
    if (S->fd >= 0) {
	rc = send(S->fd, b, len, MSG_NOSIGNAL | MSG_DONTWAIT);
	e = errno;
    }
    L.ap[0] = rc;
    L.ap[1] = rc < 0 ? e : 0;
    if (rc >= 0 && S->nrq < MAXREQ)
	S->rq[S->nrq++] = rq;
    emit();
}

static void fill_reply_attrs(const struct ctl_proto_get_all_attr_cfm *cfm)
{
    long n = (long)cfm->attrs_len;
    L.r[6] = n > 0x7fffffff ? 0x7fffffff : n;
    if (n > CTL_PROTO_MAX_ATTRS)
	n = CTL_PROTO_MAX_ATTRS;
    L.al = calloc(n > 0 ? n : 1, sizeof(struct attr_ent));
    L.nal = 0;
    for (long i = 0; i < n; i++) {
	const struct ctl_proto_attr *a = &cfm->attrs[i];
	struct attr_ent *e = &L.al[L.nal++];
	int nl = (int)strnlen(a->name, XCM_ATTR_NAME_MAX);
	memcpy(e->name, a->name, nl);
	e->name[nl] = 0;
	e->type = (int)a->value_type;
	e->len = a->value_len > 0x7fffffff ? 0x7fffffff : (long)a->value_len;
	long hl = e->len > CTL_ATTR_VALUE_MAX ? CTL_ATTR_VALUE_MAX : e->len;
	e->hash = fnv(a->any_value, hl);
    }
}

static unsigned char *rbuf;

static int cl_recv(int s, bool quiet_if_none)
{
    struct sess *S = &ss[s];
    line_reset();
    L.ev = "rep";
    L.s = s;
    if (S->fd < 0) {
	if (quiet_if_none)
	    return 0;
	strcpy(L.k, "nofd");
	emit();
	return 0;
    }
    long n = recv(S->fd, rbuf, MSGSZ + 4096, MSG_DONTWAIT);
    int e = errno;
    if (n < 0) {
	if (quiet_if_none && (e == EAGAIN || e == EWOULDBLOCK))
	    return 0;
	strcpy(L.k, e == EAGAIN ? "none" : "err");
	L.r[5] = e;
	emit();
	return 0;
    }
    if (n == 0) {
	/* end of file: reported once per step */
	strcpy(L.k, "eof");
	L.r[0] = 0;
	emit();
	return -1;
    }
    /* which request does it answer: the oldest one the server can have answered */
    struct req *rq = S->nans < S->nrq ? &S->rq[S->nans] : NULL;
    int kind = rq ? rq->kind : '?';
    const struct ctl_proto_msg *m = (const struct ctl_proto_msg *)rbuf;
    L.k[0] = kind; L.k[1] = 0;
    if (rq)
	snprintf(L.nm, sizeof(L.nm), "%s", rq->name);
    L.r[0] = n;
    L.r[7] = key_hits(rbuf, n);
    if (n >= (long)sizeof(enum ctl_proto_type))
	L.r[1] = (long)(int)m->type;
    if (n == MSGSZ) {
	if (kind == 'a')
	    fill_reply_attrs(&m->get_all_attr_cfm);
	else {
	    const struct ctl_proto_attr *a = &m->get_attr_cfm.attr;
	    L.r[2] = (long)(int)a->value_type;
	    L.r[3] = a->value_len > 0x7fffffff ? 0x7fffffff : (long)a->value_len;
	    long hl = L.r[3] > CTL_ATTR_VALUE_MAX ? CTL_ATTR_VALUE_MAX : L.r[3];
	    L.r[4] = fnv(a->any_value, hl);
	    L.r[5] = m->get_attr_rej.rej_errno;
	}
    }
    /* the in-process answer right now (used when the server-side read was not observed) */
    if (rq && (kind == 'g' || kind == 'l' || kind == 't'))
	sample_get(rq->name, L.o);
    else if (rq && kind == 'a') {
	L.o[0] = 1;
	sample_all(&L.oal, &L.noal);
    }
    L.o[6] = 0;
    L.a = S->nans + 1;	/* which request of the session it answers */
    if (rq)
	S->nans++;
    emit();
    return 1;
}

static void cl_drop(int s)
{
    struct sess *S = &ss[s];
    line_reset();
    L.ev = "drop";
    L.s = s;
    if (S->fd >= 0)
	close(S->fd);
    S->fd = -1;
    S->dropped = true;
    emit();
}

/* libxcmctl client: the blocking call runs in a helper thread while the owner keeps working */
struct libjob {
    struct xcmc_session *xs;
    int op;	/* 'g' or 'a' */
    char name[260];
    int rc, er;
    enum xcm_attr_type type;
    struct acc acc;
    long keyhits;
    volatile int done;
    unsigned char val[70000];
};

static void lib_all_cb(const char *name, enum xcm_attr_type type, void *value, size_t len, void *data)
{
    struct libjob *j = data;
    size_t hl = len > CTL_ATTR_VALUE_MAX ? CTL_ATTR_VALUE_MAX : len;
    all_cb(name, type, value, hl, &j->acc);
    j->acc.a[j->acc.n - 1].len = len > 0x7fffffff ? 0x7fffffff : (long)len;
    j->keyhits += key_hits(value, hl);
}

static void *lib_thread(void *arg)
{
    struct libjob *j = arg;
    errno = 0;
    if (j->op == 'g') {
	j->rc = xcmc_attr_get(j->xs, j->name, &j->type, j->val, sizeof(j->val));
	j->er = errno;
	if (j->rc > 0)
	    j->keyhits = key_hits(j->val, j->rc);
    } else {
	j->rc = xcmc_attr_get_all(j->xs, lib_all_cb, j);
	j->er = errno;
    }
    __sync_synchronize();
    j->done = 1;
    return NULL;
}

static void lib_open(int s)
{
    struct sess *S = &ss[s];
    line_reset();
    L.ev = "conn";
    L.s = s;
    strcpy(L.k, "lib");
    errno = 0;
    S->xs = xcmc_open(getpid(), owner_ref);
    L.ap[0] = S->xs ? 0 : -1;
    L.ap[1] = S->xs ? 0 : errno;
    S->used = true;
    S->lib = true;
    S->fd = -1;
    if (S->xs) {
	S->order = ++n_connected;
	order_to_sess[S->order - 1] = s;
    }
    emit();
}

static void lib_op(int s, int op, const char *hexname)
{
    struct sess *S = &ss[s];
    static struct libjob *j;
    if (!j)
	j = malloc(sizeof(*j));
    memset(j, 0, offsetof(struct libjob, val));
    j->acc.a = NULL; j->acc.n = j->acc.cap = 0;
    j->op = op;
    j->xs = S->xs;
    if (op == 'g') {
	int nl = unhex(hexname, (unsigned char *)j->name, XCM_ATTR_NAME_MAX - 1);
	j->name[nl] = 0;
    }
    line_reset();
    L.ev = "req";
    L.s = s;
    strcpy(L.k, op == 'g' ? "get" : "all");
    snprintf(L.nm, sizeof(L.nm), "%s", j->name);
    L.ap[0] = S->xs ? MSGSZ : -1;
    L.ap[1] = S->xs ? 0 : EBADF;
    L.a = 2;	/* issued through libxcmctl */
    emit();
    if (!S->xs) {
	line_reset();
	L.ev = "lrep";
	L.s = s;
	strcpy(L.k, "nofd");
	emit();
	return;
    }
    struct req rq = { 0 };
    rq.kind = op;
    strcpy(rq.name, j->name);
    if (S->nrq < MAXREQ)
	S->rq[S->nrq++] = rq;
    pthread_t th;
    lib_running = 1;
    __sync_synchronize();
    if (pthread_create(&th, NULL, lib_thread, j) != 0) {
	fprintf(stderr, "pthread_create failed\n");
	exit(2);
    }
    long calls = 0;
    int rc, er;
    while (!j->done) {
	pump_call(&rc, &er);
	calls++;
	if (!owner || (target == T_DEAD && (calls % 64) == 0))
	    usleep(1000);
	else if (calls > 4000)	/* not being served (backlog): no need to spin until the client gives up */
	    usleep(200);
    }
    pthread_join(th, NULL);
    lib_running = 0;
    __sync_synchronize();
    line_reset();
    L.ev = "lrep";
    L.s = s;
    L.k[0] = op; L.k[1] = 0;
    snprintf(L.nm, sizeof(L.nm), "%s", j->name);
    L.a = S->nans + 1;
    L.ap[0] = calls;
    L.r[0] = j->rc;	/* return value of the client call */
    L.r[5] = j->rc < 0 ? j->er : 0;
    L.r[7] = j->keyhits;
    if (op == 'g' && j->rc >= 0) {
	L.r[2] = j->type;
	L.r[3] = j->rc;
	L.r[4] = fnv(j->val, j->rc > CTL_ATTR_VALUE_MAX ? CTL_ATTR_VALUE_MAX : j->rc);
    } else if (op == 'a' && j->rc >= 0) {
	L.al = j->acc.a;
	L.nal = j->acc.n;
	L.r[6] = j->acc.n;
	j->acc.a = NULL;
    }
    free(j->acc.a);
    j->acc.a = NULL;
    if (op == 'g')
	sample_get(j->name, L.o);
    else {
	L.o[0] = 1;
	sample_all(&L.oal, &L.noal);
    }
    L.o[6] = 0;
    /* a timed-out call leaves its request (and later its reply) in the session: libxcmctl cannot
       resynchronise, so the harness does not use the session for judged requests any more */
    S->nans++;
    emit();
}

static void lib_close(int s)
{
    struct sess *S = &ss[s];
    line_reset();
    L.ev = "drop";
    L.s = s;
    strcpy(L.k, "lib");
    if (S->xs)
	xcmc_close(S->xs);
    S->xs = NULL;
    S->dropped = true;
    emit();
}

/* end of the behaviour: serve everything that can still be served, read every reply */
static void do_drain(void)
{
    long calls = 0, idle = 0;
    int rc, er;
    while (calls < pump_bound()) {
	long outstanding = 0;
	bool progress = false;
	for (int s = 1; s <= MAXSESS; s++) {
	    struct sess *S = &ss[s];
	    if (!S->used || S->lib || S->fd < 0)
		continue;
	    int r;
	    while ((r = cl_recv(s, true)) == 1)
		progress = true;
	    if (r == -1) {
		close(S->fd);
		S->fd = -1;
		progress = true;
		continue;
	    }
	    /* requests that can still be answered: up to the first malformed one */
	    for (int q = S->nans; q < S->nrq; q++) {
		if (S->rq[q].kind == 's' || S->rq[q].kind == 'u')
		    break;
		outstanding++;
	    }
	}
	if (progress)
	    idle = 0;
	/* stop when nothing is outstanding and the server has had several further rounds, or
	   when many rounds went by without any progress */
	if ((outstanding == 0 && idle >= 6) || idle >= 40 || target == T_DEAD || !owner)
	    break;
	for (int i = 0; i < 8; i++) {
	    calls++;
	    if (pump_call(&rc, &er))
		idle++;
	}
	if (calls >= pump_bound() * 2 / 3 && idle == 0)	/* the control server shows no sign of life */
	    break;
    }
    line_reset();
    L.ev = "fin";
    L.ap[0] = calls;
    L.ap[4] = idle;
    /* per session: requests sent / answered */
    char b[64];
    L.svs[0] = 0;
    for (int s = 1; s <= MAXSESS; s++) {
	if (!ss[s].used)
	    continue;
	snprintf(b, sizeof(b), "%s[\"fin\",%d,%d]", L.svs[0] ? "," : "", s, ss[s].nrq - ss[s].nans);
	strcat(L.svs, b);
    }
    L.sv[0] = ctl_cfd_open;
    L.sv[1] = ctl_cfd_max;
    emit();
}

/* ---- main loop ------------------------------------------------------------------------ */
static void add_attr_line(char **f, int nf)
{
    /* A <s|c> <name> <type> <value> */
    if (nf < 5)
	return;
    struct xcm_attr_map *m = f[1][0] == 's' ? map_s : map_c;
    if (strcmp(f[3], "bool") == 0)
	xcm_attr_map_add_bool(m, f[2], atoi(f[4]) != 0);
    else if (strcmp(f[3], "int") == 0)
	xcm_attr_map_add_int64(m, f[2], atoll(f[4]));
    else if (strcmp(f[3], "str") == 0) {
	static unsigned char v[8192];
	int n = unhex(f[4], v, sizeof(v) - 1);
	v[n] = 0;
	xcm_attr_map_add_str(m, f[2], (char *)v);
    } else if (strcmp(f[3], "file") == 0) {
	long n = 0;
	unsigned char *d = load_file(f[4], &n);
	if (!d) {
	    fprintf(stderr, "cannot read %s\n", f[4]);
	    exit(2);
	}
	xcm_attr_map_add_bin(m, f[2], d, n);
	free(d);
    }
}

static void begin_exec(void)
{
    close_sessions();
    /* control files left behind by earlier executions (already reported there) must not blur this one */
    DIR *d = opendir(ctl_dir);
    if (d) {
	struct dirent *e;
	while ((e = readdir(d)) != NULL) {
	    if (e->d_name[0] == '.')
		continue;
	    char pth[900];
	    snprintf(pth, sizeof(pth), "%s/%s", ctl_dir, e->d_name);
	    unlink(pth);
	}
	closedir(d);
    }
    shim_reset();
    shim_log_enable(true);
    shim_log_clear();
    log_pos = 0;
    n_owner_files = n_all_files = 0;
    n_ctl_lfd = n_ctl_cfd = ctl_cfd_open = ctl_cfd_max = 0;
    idle_rounds = 0;
    memset(cfd_is_open, 0, sizeof(cfd_is_open));
    memset(app_seq, 0, sizeof(app_seq));
    memset(app_rcv, 0, sizeof(app_rcv));
    app_rounds = 0;
    owner_ref = -1;
    stepno = 0;
}

static void start_exec(void)
{
    line_reset();
    L.ev = "x";
    snprintf(L.k, sizeof(L.k), "%s", target_names[target]);
    snprintf(L.nm, sizeof(L.nm), "%s", tp);
    int rc = setup();
    L.a = rc;
    if (rc == 0) {
	/* the control socket the clients talk to: the one with the lowest reference among the
	   owner's (an utls server socket exposes three) */
	for (int i = 0; i < n_owner_files; i++) {
	    long r = ref_of(owner_files[i]);
	    if (owner_ref < 0 || r < owner_ref)
		owner_ref = r;
	}
	snprintf(owner_path, sizeof(owner_path), "%s/ctl-%d-%ld", ctl_dir, getpid(), owner_ref);
	find_ctl_lfds();
	L.sv[0] = n_owner_files;
	L.sv[1] = n_ctl_lfd;
	L.sv[2] = MSGSZ;
	L.sv[3] = CTL_ATTR_VALUE_MAX;
	L.sv[4] = CTL_PROTO_MAX_ATTRS;
	fl_remaining(owner_files, n_owner_files);
	L.o[0] = 1;
	sample_all(&L.oal, &L.noal);
    }
    log_forget();
    emit();
}

int main(int argc, char **argv)
{
    if (argc < 3) {
	fprintf(stderr, "usage: ctl_exec <script> <trace.ndjson>\n");
	return 2;
    }
    FILE *in = fopen(argv[1], "r");
    out = fopen(argv[2], "a");
    if (!in || !out) {
	perror("open");
	return 2;
    }
    outfd = fileno(out);
    const char *rd = getenv("VERIF_RUN_DIR");
    snprintf(run_dir, sizeof(run_dir), "%s", rd ? rd : ".");
    const char *cd = getenv("XCM_CTL");
    if (!cd) {
	fprintf(stderr, "XCM_CTL must name the scratch control directory\n");
	return 2;
    }
    snprintf(ctl_dir, sizeof(ctl_dir), "%s", cd);
    mkdir(ctl_dir, 0755);

    signal(SIGABRT, on_signal);
    signal(SIGSEGV, on_signal);
    signal(SIGBUS, on_signal);
    signal(SIGFPE, on_signal);
    signal(SIGALRM, on_signal);
    signal(SIGPIPE, on_signal);
    __asan_set_error_report_callback(on_asan_report);
    __sanitizer_set_death_callback(on_death);

    rawmsg = malloc(MSGSZ + 4096);
    rbuf = malloc(MSGSZ + 4096);
    for (int s = 0; s <= MAXSESS; s++)
	ss[s].fd = -1;
    line_reset();

    char *lnbuf = NULL;
    size_t lncap = 0;
    bool active = false, started = false;
    while (getline(&lnbuf, &lncap, in) > 0) {
	char *f[16];
	int nf = 0;
	char *sv = NULL;
	for (char *t = strtok_r(lnbuf, " \t\r\n", &sv); t && nf < 16; t = strtok_r(NULL, " \t\r\n", &sv))
	    f[nf++] = t;
	if (nf == 0 || f[0][0] == '#')
	    continue;
	const char *op = f[0];
	if (strcmp(op, "X") == 0) {
	    if (nf < 6) {
		fprintf(stderr, "bad X line\n");
		return 2;
	    }
	    if (active)
		teardown();
	    begin_exec();
	    xid = atol(f[1]);
	    snprintf(tp, sizeof(tp), "%s", f[2]);
	    target = -1;
	    for (int i = 0; i < 6; i++)
		if (strcmp(f[3], target_names[i]) == 0)
		    target = i;
	    if (target < 0) {
		fprintf(stderr, "bad target %s\n", f[3]);
		return 2;
	    }
	    pump_ok = strcmp(f[5], "ok") == 0;
	    if (map_s) xcm_attr_map_destroy(map_s);
	    if (map_c) xcm_attr_map_destroy(map_c);
	    map_s = xcm_attr_map_create();
	    map_c = xcm_attr_map_create();
	    xcm_attr_map_add_bool(map_s, "xcm.blocking", false);
	    xcm_attr_map_add_bool(map_c, "xcm.blocking", false);
	    if (strcmp(tp, "btcp") == 0 || strcmp(tp, "btls") == 0) {
		xcm_attr_map_add_str(map_s, "xcm.service", "bytestream");
		xcm_attr_map_add_str(map_c, "xcm.service", "bytestream");
	    }
	    load_key("-");
	    active = true;
	    started = false;
	    alarm(300);
	    continue;
	}
	if (!active) {
	    fprintf(stderr, "step before X\n");
	    return 2;
	}
	if (strcmp(op, "K") == 0) {
	    load_key(f[1]);
	    continue;
	}
	if (strcmp(op, "A") == 0) {
	    add_attr_line(f, nf);
	    continue;
	}
	if (!started) {
	    start_exec();
	    started = true;
	}
	if (strcmp(op, "c") == 0)
	    cl_connect(atoi(f[1]));
	else if (strcmp(op, "q") == 0)
	    cl_send(atoi(f[1]), f[2], f + 3, nf - 3);
	else if (strcmp(op, "p") == 0)
	    do_pump(nf > 1 ? atoi(f[1]) : 1, "pump");
	else if (strcmp(op, "r") == 0)
	    cl_recv(atoi(f[1]), false);
	else if (strcmp(op, "d") == 0)
	    cl_drop(atoi(f[1]));
	else if (strcmp(op, "lo") == 0)
	    lib_open(atoi(f[1]));
	else if (strcmp(op, "lg") == 0)
	    lib_op(atoi(f[1]), 'g', f[2]);
	else if (strcmp(op, "la") == 0)
	    lib_op(atoi(f[1]), 'a', NULL);
	else if (strcmp(op, "lc") == 0)
	    lib_close(atoi(f[1]));
	else if (strcmp(op, "a") == 0)
	    do_app(nf > 1 ? atoi(f[1]) : 1);
	else if (strcmp(op, "f") == 0)
	    do_drain();
	else if (strcmp(op, "z") == 0 || strcmp(op, "zf") == 0) {
	    line_reset();
	    L.ev = "close";
	    if (owner && strcmp(op, "zf") == 0) {
		/* the documented fork hand-over: the process that created the socket gives it up (xcm_cleanup), the child
		   is the owner and closes it; the control files must be gone all the same */
		fflush(out);
		pid_t pid = fork();
		if (pid == 0) {
		    ocall_begin(1);
		    xcm_close(owner);
		    ocall_end();
		    _exit(0);
		}
		ocall_begin(1);
		xcm_cleanup(owner);
		ocall_end();
		int st = 0;
		if (pid > 0)
		    waitpid(pid, &st, 0);
		if (owner == lsn)
		    lsn = NULL;
		owner = NULL;
		L.a = (pid > 0 && WIFEXITED(st) && WEXITSTATUS(st) == 0) ? 2 : 3;
	    } else if (owner) {
		ocall_begin(1);
		xcm_close(owner);
		ocall_end();
		if (owner == lsn)
		    lsn = NULL;
		owner = NULL;
		L.a = 1;
	    }
	    log_forget();
	    fl_remaining(owner_files, n_owner_files);
	    /* what the sessions see afterwards */
	    emit();
	} else if (strcmp(op, "E") == 0) {
	    teardown();
	    line_reset();
	    L.ev = "end";
	    fl_remaining(all_files, n_all_files);
	    emit();
	    active = false;
	    alarm(0);
	} else {
	    fprintf(stderr, "unknown step %s\n", op);
	    return 2;
	}
    }
    if (active)
	teardown();
    fclose(out);
    return 0;
}
