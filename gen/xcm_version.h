/*
 * SPDX-License-Identifier: BSD-3-Clause
 * Copyright(c) 2022 Ericsson AB
 */

#ifndef XCM_VERSION_H
#define XCM_VERSION_H
#ifdef __cplusplus
extern "C" {
#endif

/*!
 * @file xcm_version.h
 * @brief Functions and macros to retrieve XCM versioning information.
 *
 * The library (i.e., implementation) version uses the semver
 * convention.
 */

/**
 * @defgroup lib_version Library Version
 * @{
 */

/** The XCM library major version. */
#define XCM_VERSION_MAJOR 1

/** The XCM library minor version. */
#define XCM_VERSION_MINOR 11

/** The XCM library patch version. */
#define XCM_VERSION_PATCH 0

/** The complete XCM library version in string format. */
#define XCM_VERSION "1.11.0"

/** @} */

/**
 * @defgroup api_version API Version
 * @{
 */

/** The XCM API/ABI major version this library version implements. */
#define XCM_VERSION_API_MAJOR 0

/** The XCM API/ABI minor version this library version implements. */
#define XCM_VERSION_API_MINOR 26

/** The complete XCM API version in string format. */
#define XCM_VERSION_API "0.26"

/** @} */

/** Retrieves the library major version.
 *
 * This function returns the implementation major version of the
 * library used at run time.
 */
unsigned int xcm_version_major(void);

/** Retrieves the library minor version.
 *
 * This function returns the implementation minor version of the
 * library used at run time.
 */

unsigned int xcm_version_minor(void);

/** Retrieves the library patch version.
 *
 * This function returns the implementation patch version of the
 * library used at run time.
 */
unsigned int xcm_version_patch(void);

/** Retrieves the library version as a string.
 *
 * This function returns the version of the library used at run time,
 * in string format.
 *
 * The string returned is statically allocated, and thus must not be
 * free'd by the caller.
 */
const char *xcm_version(void);

/** Retrieves the XCM API major version.
 *
 * This function returns the API major version of the library used at
 * run time adheres to.
 */
unsigned int xcm_version_api_major(void);

/** Retrieves the XCM API minor version.
 *
 * This function returns the API minor version of the library used at
 * run time adheres to.
 */
unsigned int xcm_version_api_minor(void);

/** Retrieves the library API version as a string.
 *
 * This function returns the API version of the library used at run
 * time adheres to.
 *
 * The string returned is statically allocated, and thus must not be
 * free'd by the caller.
 */
const char *xcm_version_api(void);

#ifdef __cplusplus
}
#endif
#endif
