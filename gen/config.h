/* common/config.h.  Generated from config.h.in by configure.  */
/* common/config.h.in.  Generated from configure.ac by autoheader.  */

/* Define to 1 if you have the <ares.h> header file. */
#define HAVE_ARES_H 1

/* Define to 1 if you have the declaration of `OPENSSL_THREADS', and to 0 if
   you don't. */
#define HAVE_DECL_OPENSSL_THREADS 1

/* Define to 1 if you have the <dlfcn.h> header file. */
#define HAVE_DLFCN_H 1

/* Define to 1 if you have the <event.h> header file. */
#define HAVE_EVENT_H 1

/* Define to 1 if you have the <inttypes.h> header file. */
#define HAVE_INTTYPES_H 1

/* Define to 1 if you have the <minix/config.h> header file. */
/* #undef HAVE_MINIX_CONFIG_H */

/* Define to 1 if you have the <netinet/sctp.h> header file. */
/* #undef HAVE_NETINET_SCTP_H */

/* Define to 1 if you have the <openssl/ssl.h> header file. */
#define HAVE_OPENSSL_SSL_H 1

/* Define to 1 if you have the <stdint.h> header file. */
#define HAVE_STDINT_H 1

/* Define to 1 if you have the <stdio.h> header file. */
#define HAVE_STDIO_H 1

/* Define to 1 if you have the <stdlib.h> header file. */
#define HAVE_STDLIB_H 1

/* Define to 1 if you have the <strings.h> header file. */
#define HAVE_STRINGS_H 1

/* Define to 1 if you have the <string.h> header file. */
#define HAVE_STRING_H 1

/* Define to 1 if you have the <sys/stat.h> header file. */
#define HAVE_SYS_STAT_H 1

/* Define to 1 if you have the <sys/types.h> header file. */
#define HAVE_SYS_TYPES_H 1

/* Define to 1 if you have the <unistd.h> header file. */
#define HAVE_UNISTD_H 1

/* Define to 1 if you have the <valgrind/valgrind.h> header file. */
/* #undef HAVE_VALGRIND_VALGRIND_H */

/* Define to 1 if you have the <wchar.h> header file. */
#define HAVE_WCHAR_H 1

/* Define to the sub-directory where libtool stores uninstalled libraries. */
#define LT_OBJDIR ".libs/"

/* Name of package */
#define PACKAGE "xcm"

/* Define to the address where bug reports for this package should be sent. */
#define PACKAGE_BUGREPORT "mattias.ronnblom@ericsson.com"

/* Define to the full name of this package. */
#define PACKAGE_NAME "xcm"

/* Define to the full name and version of this package. */
#define PACKAGE_STRING "xcm 1.11.0"

/* Define to the one symbol short name of this package. */
#define PACKAGE_TARNAME "xcm"

/* Define to the home page for this package. */
#define PACKAGE_URL ""

/* Define to the version of this package. */
#define PACKAGE_VERSION "1.11.0"

/* Define to 1 if all of the C90 standard headers exist (not just the ones
   required in a freestanding environment). This macro is provided for
   backward compatibility; new code need not use it. */
#define STDC_HEADERS 1

/* Enable extensions on AIX 3, Interix.  */
#ifndef _ALL_SOURCE
# define _ALL_SOURCE 1
#endif
/* Enable general extensions on macOS.  */
#ifndef _DARWIN_C_SOURCE
# define _DARWIN_C_SOURCE 1
#endif
/* Enable general extensions on Solaris.  */
#ifndef __EXTENSIONS__
# define __EXTENSIONS__ 1
#endif
/* Enable GNU extensions on systems that have them.  */
#ifndef _GNU_SOURCE
# define _GNU_SOURCE 1
#endif
/* Enable X/Open compliant socket functions that do not require linking
   with -lxnet on HP-UX 11.11.  */
#ifndef _HPUX_ALT_XOPEN_SOCKET_API
# define _HPUX_ALT_XOPEN_SOCKET_API 1
#endif
/* Identify the host operating system as Minix.
   This macro does not affect the system headers' behavior.
   A future release of Autoconf may stop defining this macro.  */
#ifndef _MINIX
/* # undef _MINIX */
#endif
/* Enable general extensions on NetBSD.
   Enable NetBSD compatibility extensions on Minix.  */
#ifndef _NETBSD_SOURCE
# define _NETBSD_SOURCE 1
#endif
/* Enable OpenBSD compatibility extensions on NetBSD.
   Oddly enough, this does nothing on OpenBSD.  */
#ifndef _OPENBSD_SOURCE
# define _OPENBSD_SOURCE 1
#endif
/* Define to 1 if needed for POSIX-compatible behavior.  */
#ifndef _POSIX_SOURCE
/* # undef _POSIX_SOURCE */
#endif
/* Define to 2 if needed for POSIX-compatible behavior.  */
#ifndef _POSIX_1_SOURCE
/* # undef _POSIX_1_SOURCE */
#endif
/* Enable POSIX-compatible threading on Solaris.  */
#ifndef _POSIX_PTHREAD_SEMANTICS
# define _POSIX_PTHREAD_SEMANTICS 1
#endif
/* Enable extensions specified by ISO/IEC TS 18661-5:2014.  */
#ifndef __STDC_WANT_IEC_60559_ATTRIBS_EXT__
# define __STDC_WANT_IEC_60559_ATTRIBS_EXT__ 1
#endif
/* Enable extensions specified by ISO/IEC TS 18661-1:2014.  */
#ifndef __STDC_WANT_IEC_60559_BFP_EXT__
# define __STDC_WANT_IEC_60559_BFP_EXT__ 1
#endif
/* Enable extensions specified by ISO/IEC TS 18661-2:2015.  */
#ifndef __STDC_WANT_IEC_60559_DFP_EXT__
# define __STDC_WANT_IEC_60559_DFP_EXT__ 1
#endif
/* Enable extensions specified by ISO/IEC TS 18661-4:2015.  */
#ifndef __STDC_WANT_IEC_60559_FUNCS_EXT__
# define __STDC_WANT_IEC_60559_FUNCS_EXT__ 1
#endif
/* Enable extensions specified by ISO/IEC TS 18661-3:2015.  */
#ifndef __STDC_WANT_IEC_60559_TYPES_EXT__
# define __STDC_WANT_IEC_60559_TYPES_EXT__ 1
#endif
/* Enable extensions specified by ISO/IEC TR 24731-2:2010.  */
#ifndef __STDC_WANT_LIB_EXT2__
# define __STDC_WANT_LIB_EXT2__ 1
#endif
/* Enable extensions specified by ISO/IEC 24747:2009.  */
#ifndef __STDC_WANT_MATH_SPEC_FUNCS__
# define __STDC_WANT_MATH_SPEC_FUNCS__ 1
#endif
/* Enable extensions on HP NonStop.  */
#ifndef _TANDEM_SOURCE
# define _TANDEM_SOURCE 1
#endif
/* Enable X/Open extensions.  Define to 500 only if necessary
   to make mbstate_t available.  */
#ifndef _XOPEN_SOURCE
/* # undef _XOPEN_SOURCE */
#endif


/* Version number of package */
#define VERSION "1.11.0"

/* Use c-ares DNS library. */
#define XCM_CARES 1

/* XCM Control interface. */
#define XCM_CTL 1

/* XCM SCTP Transports. */
/* #undef XCM_SCTP */

/* XCM TLS and UTLS Transports. */
#define XCM_TLS 1

/* Use valgrind. */
/* #undef XCM_VALGRIND */
