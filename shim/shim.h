/* Link-time interposition shim between libxcm and libc (-Wl,--wrap=...).
 * It only restricts real calls (shorter, refused) or substitutes results the
 * real lower layer can produce; it records what the library did. */
#ifndef VERIF_SHIM_H
#define VERIF_SHIM_H

#include <stddef.h>
#include <stdbool.h>
#include <sys/types.h>

#define SHIM_MAX_FD 4096
#define SHIM_UNLIMITED (-1L)

/* terminal markers in io summaries */
#define SHIM_T_NONE 0
#define SHIM_T_EOF (-1)

enum shim_kind { SK_NONE = 0, SK_STREAM, SK_SEQPACKET, SK_LISTEN, SK_EPOLL,
		 SK_EVENTFD, SK_TIMERFD, SK_FILE, SK_OTHER };

struct shim_io {
    long wu;	/* bytes (stream) or messages (seqpacket) the kernel accepted */
    int wt;	/* 0: never refused, EAGAIN, or errno of the failing write */
    long ru;	/* bytes / messages handed to the library */
    int rt;	/* 0: never refused, EAGAIN, SHIM_T_EOF, or errno */
    long rlast;	/* seqpacket: real length of the last message read (MSG_TRUNC) */
    int nw, nr;	/* number of write / read system calls */
};

struct shim_fd {
    int kind;
    int ctx;		/* context (endpoint) in which the library created it, 0 = harness */
    bool by_lib;	/* created while inside a library call */
    bool tracked;	/* credits apply */
    long wcredit, rcredit;	/* remaining credit; SHIM_UNLIMITED */
    int werr, rerr;	/* errno to report once the credit is exhausted (0 = EAGAIN) */
    struct shim_io io;	/* since last shim_io_reset() */
    long wtotal, rtotal;	/* life-time totals */
    int ep_owner;	/* for kernel fds registered in an epoll instance: the epoll fd */
    unsigned ep_events;	/* events currently registered (0 = not registered) */
    int domain;
    bool saw_eof, saw_pipe;	/* the library has observed EOF / EPIPE on it: no more fake refusals */
};

extern struct shim_fd shim_fds[SHIM_MAX_FD];

/* epoll registrations as seen through epoll_ctl: one entry per (epoll fd, fd) */
struct shim_reg { int epfd, fd; unsigned events; };
#define SHIM_MAX_REG 4096
extern struct shim_reg shim_regs[SHIM_MAX_REG];
extern int shim_nregs;
unsigned shim_reg_events(int epfd, int fd);	/* 0 = not registered */

/* context management: which endpoint's API call is running (0 = none) */
void shim_enter(int ctx);
void shim_leave(void);
int shim_ctx(void);

void shim_reset(void);			/* forget all plans and per-fd state (fds stay open) */
void shim_track(int fd, bool on);
void shim_credit(int fd, long wcredit, int werr, long rcredit, int rerr);
void shim_io_reset(int fd);
struct shim_io shim_io_get(int fd);

/* fds of a given kind created by the library in context ctx, newest first; returns count */
int shim_find(int ctx, int kind, int *out, int max);

/* resource-creating call failure plan (C08): fail the nth (1-based) call of the mask */
#define SHIM_RC_SOCKET 1
#define SHIM_RC_ACCEPT 2
#define SHIM_RC_EPOLL 4
#define SHIM_RC_EVENTFD 8
#define SHIM_RC_TIMERFD 16
#define SHIM_RC_CONNECT 32
#define SHIM_RC_BIND 64
#define SHIM_RC_LISTEN 128
#define SHIM_RC_OPEN 256
#define SHIM_RC_ALL 511
void shim_fail_nth(int mask, int nth, int err);
int shim_rc_count(void);	/* resource-creating calls seen since shim_fail_nth()/reset */
int shim_rc_failed(void);	/* 1 if the planned failure was delivered */
const char *shim_rc_last_name(void);

/* waiting primitives seen inside a library call made in "nonblocking" mode */
void shim_nonblock_watch(bool on);
int shim_wait_seen(void);	/* count since last call; resets */

/* event log of lower-layer calls (optional) */
struct shim_ev { int ctx; const char *call; int fd; long a; long res; int err; };
void shim_log_enable(bool on);
size_t shim_log_get(const struct shim_ev **ev);
void shim_log_clear(void);

/* real functions for harness use (bypass credits) */
ssize_t shim_real_send(int fd, const void *buf, size_t len, int flags);
ssize_t shim_real_recv(int fd, void *buf, size_t len, int flags);
int shim_real_close(int fd);

#endif
