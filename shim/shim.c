/* See shim.h.  Everything here is reached through -Wl,--wrap=<sym>, so only
 * references from the objects linked into the harness (libxcm's and the
 * harness's own) are redirected; libssl, libcrypto, libc and the sanitizer
 * runtimes keep calling the real functions. */
#include "shim.h"

#include <errno.h>
#include <fcntl.h>
#include <poll.h>
#include <pthread.h>
#include <stdarg.h>
#include <stdio.h>
#include <stdlib.h>
#include <string.h>
#include <sys/epoll.h>
#include <sys/eventfd.h>
#include <sys/socket.h>
#include <sys/stat.h>
#include <sys/timerfd.h>
#include <sys/select.h>
#include <signal.h>
#include <time.h>
#include <unistd.h>

struct shim_fd shim_fds[SHIM_MAX_FD];
struct shim_reg shim_regs[SHIM_MAX_REG];
int shim_nregs;

unsigned shim_reg_events(int epfd, int fd)
{
    for (int i = 0; i < shim_nregs; i++)
	if (shim_regs[i].epfd == epfd && shim_regs[i].fd == fd)
	    return shim_regs[i].events;
    return 0;
}

static void reg_set(int epfd, int fd, unsigned events, int del)
{
    int i;
    for (i = 0; i < shim_nregs; i++)
	if (shim_regs[i].epfd == epfd && shim_regs[i].fd == fd)
	    break;
    if (del) {
	if (i < shim_nregs)
	    shim_regs[i] = shim_regs[--shim_nregs];
	return;
    }
    if (i == shim_nregs) {
	if (shim_nregs == SHIM_MAX_REG)
	    return;
	shim_nregs++;
    }
    shim_regs[i] = (struct shim_reg){ epfd, fd, events };
}

static void reg_forget_fd(int fd)
{
    for (int i = 0; i < shim_nregs; )
	if (shim_regs[i].epfd == fd || shim_regs[i].fd == fd)
	    shim_regs[i] = shim_regs[--shim_nregs];
	else
	    i++;
}

static __thread int cur_ctx;
static __thread int in_lib;

static pthread_mutex_t lk = PTHREAD_MUTEX_INITIALIZER;

static int fail_mask, fail_nth, fail_err, rc_count, rc_failed;
static const char *rc_last = "";
static __thread bool nb_watch;
static __thread int wait_seen;

#define LOG_MAX 65536
static struct shim_ev evlog[LOG_MAX];
static size_t evlog_n;
static bool evlog_on;

ssize_t __real_send(int, const void *, size_t, int);
ssize_t __real_recv(int, void *, size_t, int);
int __real_connect(int, const struct sockaddr *, socklen_t);
int __real_accept4(int, struct sockaddr *, socklen_t *, int);
int __real_socket(int, int, int);
int __real_close(int);
int __real_bind(int, const struct sockaddr *, socklen_t);
int __real_listen(int, int);
int __real_epoll_create1(int);
int __real_epoll_ctl(int, int, int, struct epoll_event *);
int __real_eventfd(unsigned, int);
int __real_timerfd_create(int, int);
int __real_poll(struct pollfd *, nfds_t, int);
FILE *__real_fopen(const char *, const char *);
int __real_open(const char *, int, ...);
int __real_unlink(const char *);
int __real_setsockopt(int, int, int, const void *, socklen_t);
int __real_getsockopt(int, int, int, void *, socklen_t *);

static void ev(const char *call, int fd, long a, long res, int err)
{
    if (!evlog_on)
	return;
    pthread_mutex_lock(&lk);
    if (evlog_n < LOG_MAX)
	evlog[evlog_n++] = (struct shim_ev){ cur_ctx, call, fd, a, res, err };
    pthread_mutex_unlock(&lk);
}

void shim_enter(int ctx) { cur_ctx = ctx; in_lib = 1; }
void shim_leave(void) { in_lib = 0; cur_ctx = 0; }
int shim_ctx(void) { return in_lib ? cur_ctx : 0; }

void shim_reset(void)
{
    pthread_mutex_lock(&lk);
    memset(shim_fds, 0, sizeof(shim_fds));
    shim_nregs = 0;
    fail_mask = fail_nth = fail_err = rc_count = rc_failed = 0;
    wait_seen = 0;
    evlog_n = 0;
    pthread_mutex_unlock(&lk);
}

static struct shim_fd *get(int fd)
{
    if (fd < 0 || fd >= SHIM_MAX_FD)
	return NULL;
    return &shim_fds[fd];
}

static void created(int fd, int kind, int domain)
{
    struct shim_fd *f = get(fd);
    if (f == NULL)
	return;
    pthread_mutex_lock(&lk);
    memset(f, 0, sizeof(*f));
    f->kind = kind;
    f->ctx = cur_ctx;
    f->by_lib = in_lib;
    f->wcredit = f->rcredit = SHIM_UNLIMITED;
    f->ep_owner = -1;
    f->domain = domain;
    pthread_mutex_unlock(&lk);
}

void shim_track(int fd, bool on)
{
    struct shim_fd *f = get(fd);
    if (f) {
	f->tracked = on;
	f->wcredit = f->rcredit = SHIM_UNLIMITED;
	f->werr = f->rerr = 0;
    }
}

void shim_credit(int fd, long wcredit, int werr, long rcredit, int rerr)
{
    struct shim_fd *f = get(fd);
    if (f) {
	f->wcredit = wcredit;
	f->werr = werr;
	f->rcredit = rcredit;
	f->rerr = rerr;
    }
}

void shim_io_reset(int fd)
{
    struct shim_fd *f = get(fd);
    if (f)
	memset(&f->io, 0, sizeof(f->io));
}

struct shim_io shim_io_get(int fd)
{
    struct shim_fd *f = get(fd);
    struct shim_io z = { 0 };
    return f ? f->io : z;
}

int shim_find(int ctx, int kind, int *out, int max)
{
    int n = 0;
    for (int fd = SHIM_MAX_FD - 1; fd >= 0 && n < max; fd--)
	if (shim_fds[fd].kind == kind && shim_fds[fd].by_lib &&
	    (ctx < 0 || shim_fds[fd].ctx == ctx))
	    out[n++] = fd;
    return n;
}

void shim_fail_nth(int mask, int nth, int err)
{
    fail_mask = mask;
    fail_nth = nth;
    fail_err = err;
    rc_count = 0;
    rc_failed = 0;
}

int shim_rc_count(void) { return rc_count; }
int shim_rc_failed(void) { return rc_failed; }
const char *shim_rc_last_name(void) { return rc_last; }

/* returns 1 if this resource-creating call must fail (errno set) */
static int rc_gate(int bit, const char *name)
{
    if (!in_lib)
	return 0;
    if (!(fail_mask & bit) && fail_mask != 0)
	return 0;
    int hit = 0;
    pthread_mutex_lock(&lk);
    rc_count++;
    if (fail_mask != 0 && fail_nth > 0 && rc_count == fail_nth) {
	rc_failed = 1;
	rc_last = name;
	hit = 1;
    }
    pthread_mutex_unlock(&lk);
    if (hit)
	errno = fail_err;
    return hit;
}

void shim_nonblock_watch(bool on) { nb_watch = on; if (on) wait_seen = 0; }	/* the count survives switching the watch off */
int shim_wait_seen(void) { int w = wait_seen; wait_seen = 0; return w; }

void shim_log_enable(bool on) { evlog_on = on; }
size_t shim_log_get(const struct shim_ev **e) { *e = evlog; return evlog_n; }
void shim_log_clear(void) { evlog_n = 0; }

ssize_t shim_real_send(int fd, const void *b, size_t l, int fl) { return __real_send(fd, b, l, fl); }
ssize_t shim_real_recv(int fd, void *b, size_t l, int fl) { return __real_recv(fd, b, l, fl); }
int shim_real_close(int fd) { return __real_close(fd); }

/* C05: inside a library call on a non-blocking socket, I/O on a descriptor
   without O_NONBLOCK may put the thread to sleep */
/* returns extra flags for the call: once the violation is recorded the call itself is made non-blocking, so that the
   harness survives to report it */
static int nb_fd_check(int fd, int flags)
{
    if (!nb_watch || !in_lib)
	return 0;
    int fl = fcntl(fd, F_GETFL);
    if (fl >= 0 && !(fl & O_NONBLOCK) && !(flags & MSG_DONTWAIT)) {
	wait_seen++;
	return MSG_DONTWAIT;
    }
    return 0;
}

/* ---- data path ---------------------------------------------------------- */

ssize_t __wrap_send(int fd, const void *buf, size_t len, int flags)
{
    struct shim_fd *f = get(fd);
    if (f == NULL || !f->tracked || !in_lib) {
	flags |= nb_fd_check(fd, flags);
	ssize_t r = __real_send(fd, buf, len, flags);
	ev("send", fd, len, r, r < 0 ? errno : 0);
	return r;
    }
    f->io.nw++;
    if (nb_watch) {
	int fl = fcntl(fd, F_GETFL);
	if (fl >= 0 && !(fl & O_NONBLOCK) && !(flags & MSG_DONTWAIT))
	    wait_seen++;
    }
    size_t eff = len;
    /* AF_UNIX: once the peer is known to be gone the kernel never says EAGAIN */
    if (f->wcredit != SHIM_UNLIMITED && !f->saw_pipe && !(f->saw_eof && f->kind == SK_SEQPACKET)) {
	if (f->wcredit == 0 && len > 0) {
	    int e = f->werr ? f->werr : EAGAIN;
	    f->io.wt = e;
	    ev("send", fd, len, -1, e);
	    errno = e;
	    return -1;
	}
	if (f->kind == SK_STREAM && (long)len > f->wcredit)
	    eff = f->wcredit;
    }
    ssize_t r = __real_send(fd, buf, eff, flags);
    int e = errno;
    if (r > 0) {
	long units = f->kind == SK_SEQPACKET ? 1 : r;
	f->io.wu += units;
	f->wtotal += units;
	if (f->wcredit != SHIM_UNLIMITED)
	    f->wcredit -= units;
    } else if (r < 0) {
	f->io.wt = e;
	if (e == EPIPE || e == ECONNRESET)
	    f->saw_pipe = true;
    }
    ev("send", fd, len, r, r < 0 ? e : 0);
    errno = e;
    return r;
}

ssize_t __wrap_recv(int fd, void *buf, size_t len, int flags)
{
    struct shim_fd *f = get(fd);
    if (f == NULL || !f->tracked || !in_lib) {
	flags |= nb_fd_check(fd, flags);
	ssize_t r = __real_recv(fd, buf, len, flags);
	ev("recv", fd, len, r, r < 0 ? errno : 0);
	return r;
    }
    f->io.nr++;
    if (nb_watch) {
	int fl = fcntl(fd, F_GETFL);
	if (fl >= 0 && !(fl & O_NONBLOCK) && !(flags & MSG_DONTWAIT))
	    wait_seen++;
    }
    size_t eff = len;
    if (f->rcredit != SHIM_UNLIMITED && !f->saw_eof) {
	if (f->rcredit == 0 && len > 0) {
	    int e = f->rerr ? f->rerr : EAGAIN;
	    f->io.rt = e;
	    ev("recv", fd, len, -1, e);
	    errno = e;
	    return -1;
	}
	if (f->kind == SK_STREAM && (long)len > f->rcredit)
	    eff = f->rcredit;
    }
    ssize_t r = __real_recv(fd, buf, eff, flags);
    int e = errno;
    if (r > 0) {
	long units = f->kind == SK_SEQPACKET ? 1 : r;
	f->io.ru += units;
	f->io.rlast = r;
	f->rtotal += units;
	if (f->rcredit != SHIM_UNLIMITED)
	    f->rcredit -= units;
    } else if (r == 0) {
	f->io.rt = SHIM_T_EOF;
	if (len > 0)
	    f->saw_eof = true;
    } else
	f->io.rt = e;
    ev("recv", fd, len, r, r < 0 ? e : 0);
    errno = e;
    return r;
}

/* ---- resource creation / destruction ----------------------------------- */

int __wrap_socket(int domain, int type, int proto)
{
    if (rc_gate(SHIM_RC_SOCKET, "socket")) {
	ev("socket", -1, domain, -1, errno);
	return -1;
    }
    int fd = __real_socket(domain, type, proto);
    int e = errno;
    if (fd >= 0) {
	int t = type & 0xff;
	created(fd, t == SOCK_STREAM ? SK_STREAM : t == SOCK_SEQPACKET ? SK_SEQPACKET : SK_OTHER, domain);
    }
    ev("socket", fd, domain, fd, fd < 0 ? e : 0);
    errno = e;
    return fd;
}

int __wrap_accept4(int sfd, struct sockaddr *a, socklen_t *al, int flags)
{
    if (rc_gate(SHIM_RC_ACCEPT, "accept4")) {
	ev("accept4", sfd, 0, -1, errno);
	return -1;
    }
    nb_fd_check(sfd, 0);	/* accept on a blocking listening socket waits for a connection */
    int fd = __real_accept4(sfd, a, al, flags);
    int e = errno;
    if (fd >= 0) {
	struct shim_fd *l = get(sfd);
	int kind = SK_STREAM;
	int domain = l ? l->domain : 0;
	int t = 0;
	socklen_t tl = sizeof(t);
	if (__real_getsockopt(fd, SOL_SOCKET, SO_TYPE, &t, &tl) == 0 && t == SOCK_SEQPACKET)
	    kind = SK_SEQPACKET;
	created(fd, kind, domain);
    }
    ev("accept4", sfd, 0, fd, fd < 0 ? e : 0);
    errno = e;
    return fd;
}

int __wrap_connect(int fd, const struct sockaddr *a, socklen_t al)
{
    if (rc_gate(SHIM_RC_CONNECT, "connect")) {
	ev("connect", fd, 0, -1, errno);
	return -1;
    }
    bool unblock = false;
    if (nb_watch && in_lib) {
	int fl = fcntl(fd, F_GETFL);
	struct shim_fd *f = get(fd);
	if (fl >= 0 && !(fl & O_NONBLOCK) && f && f->domain != AF_UNIX)
	    wait_seen++;
	else if (fl >= 0 && !(fl & O_NONBLOCK) && f) {
	    /* AF_UNIX: a connect in blocking mode waits only while the listener's queue is full: made without waiting here,
	       it is a wait exactly if it answers EAGAIN */
	    fcntl(fd, F_SETFL, fl | O_NONBLOCK);
	    unblock = true;
	}
    }
    int r = __real_connect(fd, a, al);
    int e = errno;
    if (unblock) {
	int fl = fcntl(fd, F_GETFL);
	if (fl >= 0)
	    fcntl(fd, F_SETFL, fl & ~O_NONBLOCK);
	if (r < 0 && e == EAGAIN)
	    wait_seen++;
    }
    ev("connect", fd, 0, r, r < 0 ? e : 0);
    errno = e;
    return r;
}

int __wrap_bind(int fd, const struct sockaddr *a, socklen_t al)
{
    if (rc_gate(SHIM_RC_BIND, "bind")) {
	ev("bind", fd, 0, -1, errno);
	return -1;
    }
    int r = __real_bind(fd, a, al);
    int e = errno;
    ev("bind", fd, 0, r, r < 0 ? e : 0);
    errno = e;
    return r;
}

int __wrap_listen(int fd, int backlog)
{
    if (rc_gate(SHIM_RC_LISTEN, "listen")) {
	ev("listen", fd, backlog, -1, errno);
	return -1;
    }
    int r = __real_listen(fd, backlog);
    int e = errno;
    struct shim_fd *f = get(fd);
    if (r == 0 && f)
	f->kind = SK_LISTEN;
    ev("listen", fd, backlog, r, r < 0 ? e : 0);
    errno = e;
    return r;
}

int __wrap_close(int fd)
{
    struct shim_fd *f = get(fd);
    if (nb_watch && in_lib) {
	/* close(2) ignores O_NONBLOCK when SO_LINGER is on with a non-zero time: it sleeps until the queued data is
	   acknowledged or the time is up.  Such a close inside a call on a non-blocking socket is a wait (C05); it is
	   counted, and the sleep itself is avoided like the other flagged waits are capped */
	struct linger lg = { 0, 0 };
	socklen_t ll = sizeof(lg);
	if (__real_getsockopt(fd, SOL_SOCKET, SO_LINGER, &lg, &ll) == 0 && lg.l_onoff && lg.l_linger > 0) {
	    wait_seen++;
	    lg.l_onoff = 0;
	    __real_setsockopt(fd, SOL_SOCKET, SO_LINGER, &lg, sizeof(lg));
	}
    }
    int r = __real_close(fd);
    int e = errno;
    ev("close", fd, f ? f->kind : 0, r, r < 0 ? e : 0);
    if (f && r == 0) {
	pthread_mutex_lock(&lk);
	/* registrations of this fd vanish with it */
	memset(f, 0, sizeof(*f));
	reg_forget_fd(fd);
	pthread_mutex_unlock(&lk);
    }
    errno = e;
    return r;
}

int __wrap_epoll_create1(int flags)
{
    if (rc_gate(SHIM_RC_EPOLL, "epoll_create1")) {
	ev("epoll_create1", -1, 0, -1, errno);
	return -1;
    }
    int fd = __real_epoll_create1(flags);
    int e = errno;
    if (fd >= 0)
	created(fd, SK_EPOLL, 0);
    ev("epoll_create1", fd, 0, fd, fd < 0 ? e : 0);
    errno = e;
    return fd;
}

int __wrap_epoll_ctl(int epfd, int op, int fd, struct epoll_event *event)
{
    int r = __real_epoll_ctl(epfd, op, fd, event);
    int e = errno;
    struct shim_fd *f = get(fd);
    if (r == 0) {
	pthread_mutex_lock(&lk);
	reg_set(epfd, fd, event ? event->events : 0, op == EPOLL_CTL_DEL);
	pthread_mutex_unlock(&lk);
    }
    if (f && r == 0) {
	if (op == EPOLL_CTL_DEL) {
	    f->ep_owner = -1;
	    f->ep_events = 0;
	} else {
	    f->ep_owner = epfd;
	    f->ep_events = event ? event->events : 0;
	}
    }
    ev(op == EPOLL_CTL_ADD ? "epoll_add" : op == EPOLL_CTL_MOD ? "epoll_mod" : "epoll_del",
       fd, event ? event->events : 0, r, r < 0 ? e : 0);
    errno = e;
    return r;
}

int __wrap_eventfd(unsigned initval, int flags)
{
    if (rc_gate(SHIM_RC_EVENTFD, "eventfd")) {
	ev("eventfd", -1, 0, -1, errno);
	return -1;
    }
    int fd = __real_eventfd(initval, flags);
    int e = errno;
    if (fd >= 0)
	created(fd, SK_EVENTFD, 0);
    ev("eventfd", fd, 0, fd, fd < 0 ? e : 0);
    errno = e;
    return fd;
}

int __wrap_timerfd_create(int clockid, int flags)
{
    if (rc_gate(SHIM_RC_TIMERFD, "timerfd_create")) {
	ev("timerfd_create", -1, 0, -1, errno);
	return -1;
    }
    int fd = __real_timerfd_create(clockid, flags);
    int e = errno;
    if (fd >= 0)
	created(fd, SK_TIMERFD, 0);
    ev("timerfd_create", fd, 0, fd, fd < 0 ? e : 0);
    errno = e;
    return fd;
}

/* a wait inside a call on a non-blocking socket is recorded - and then cut short (100 ms), so that the harness survives
   to report it instead of hanging with the library */
#define SHIM_WAIT_CAP_MS 100

int __wrap_poll(struct pollfd *fds, nfds_t n, int timeout)
{
    if (nb_watch && in_lib && timeout != 0) {
	wait_seen++;
	if (timeout < 0 || timeout > SHIM_WAIT_CAP_MS)
	    timeout = SHIM_WAIT_CAP_MS;
    }
    int r = __real_poll(fds, n, timeout);
    int e = errno;
    ev("poll", n > 0 ? fds[0].fd : -1, timeout, r, r < 0 ? e : 0);
    errno = e;
    return r;
}

int __real_epoll_wait(int, struct epoll_event *, int, int);
int __wrap_epoll_wait(int epfd, struct epoll_event *evs, int max, int timeout)
{
    if (nb_watch && in_lib && timeout != 0) {
	wait_seen++;
	if (timeout < 0 || timeout > SHIM_WAIT_CAP_MS)
	    timeout = SHIM_WAIT_CAP_MS;
    }
    return __real_epoll_wait(epfd, evs, max, timeout);
}

int __real_ppoll(struct pollfd *, nfds_t, const struct timespec *, const sigset_t *);
int __wrap_ppoll(struct pollfd *fds, nfds_t n, const struct timespec *ts, const sigset_t *ss)
{
    struct timespec cap = { 0, SHIM_WAIT_CAP_MS * 1000000L };
    if (nb_watch && in_lib && (ts == NULL || ts->tv_sec != 0 || ts->tv_nsec != 0)) {
	wait_seen++;
	if (ts == NULL || ts->tv_sec > 0 || ts->tv_nsec > cap.tv_nsec)
	    ts = &cap;
    }
    return __real_ppoll(fds, n, ts, ss);
}

int __real_select(int, fd_set *, fd_set *, fd_set *, struct timeval *);
int __wrap_select(int n, fd_set *r, fd_set *w, fd_set *x, struct timeval *tv)
{
    struct timeval capv = { 0, SHIM_WAIT_CAP_MS * 1000 };
    if (nb_watch && in_lib && (tv == NULL || tv->tv_sec != 0 || tv->tv_usec != 0)) {
	wait_seen++;
	if (tv == NULL || tv->tv_sec > 0 || tv->tv_usec > capv.tv_usec)
	    tv = &capv;
    }
    return __real_select(n, r, w, x, tv);
}

int __real_nanosleep(const struct timespec *, struct timespec *);
int __wrap_nanosleep(const struct timespec *req, struct timespec *rem)
{
    if (nb_watch && in_lib && req && (req->tv_sec != 0 || req->tv_nsec != 0))
	wait_seen++;
    return __real_nanosleep(req, rem);
}

int __real_usleep(useconds_t);
int __wrap_usleep(useconds_t us)
{
    if (nb_watch && in_lib && us != 0)
	wait_seen++;
    return __real_usleep(us);
}

unsigned __real_sleep(unsigned);
unsigned __wrap_sleep(unsigned s)
{
    if (nb_watch && in_lib && s != 0)
	wait_seen++;
    return __real_sleep(s);
}

/* ---- C05: the other ways of sleeping in a system call -----------------------------------------------------------
   None of them is used by the library as it stands; a change that swaps send()/recv() for write()/read(), reads an
   eventfd / timerfd that lacks the non-blocking flag, waits in epoll_pwait / pselect / clock_nanosleep or resolves a
   name with getaddrinfo() inside a call on a non-blocking socket is counted like the ones above.  Descriptor I/O: the
   wait is counted when the descriptor is not a regular file and lacks O_NONBLOCK; the call is then made with
   O_NONBLOCK set for its duration, so that the harness survives to report it. */
#include <sys/uio.h>
#include <netdb.h>
static int nb_io_begin(int fd)
{
    if (!nb_watch || !in_lib)
	return 0;
    struct stat st;
    if (fstat(fd, &st) < 0 || S_ISREG(st.st_mode) || S_ISDIR(st.st_mode))
	return 0;
    int fl = fcntl(fd, F_GETFL);
    if (fl < 0 || (fl & O_NONBLOCK))
	return 0;
    wait_seen++;
    fcntl(fd, F_SETFL, fl | O_NONBLOCK);
    return 1;
}
static void nb_io_end(int fd, int was)
{
    if (was) {
	int e = errno;
	int fl = fcntl(fd, F_GETFL);
	if (fl >= 0)
	    fcntl(fd, F_SETFL, fl & ~O_NONBLOCK);
	errno = e;
    }
}
#define NB_IO_WRAP(ret, name, decl, args)				\
    ret __real_##name decl;						\
    ret __wrap_##name decl						\
    {									\
	int was = nb_io_begin(fd);					\
	ret r = __real_##name args;					\
	nb_io_end(fd, was);						\
	return r;							\
    }
NB_IO_WRAP(ssize_t, read, (int fd, void *buf, size_t n), (fd, buf, n))
NB_IO_WRAP(ssize_t, write, (int fd, const void *buf, size_t n), (fd, buf, n))
NB_IO_WRAP(ssize_t, readv, (int fd, const struct iovec *iov, int n), (fd, iov, n))
NB_IO_WRAP(ssize_t, writev, (int fd, const struct iovec *iov, int n), (fd, iov, n))
NB_IO_WRAP(ssize_t, recvmsg, (int fd, struct msghdr *m, int flags), (fd, m, flags))
NB_IO_WRAP(ssize_t, sendmsg, (int fd, const struct msghdr *m, int flags), (fd, m, flags))
NB_IO_WRAP(ssize_t, recvfrom, (int fd, void *buf, size_t n, int flags, struct sockaddr *a, socklen_t *al), (fd, buf, n, flags, a, al))
NB_IO_WRAP(ssize_t, sendto, (int fd, const void *buf, size_t n, int flags, const struct sockaddr *a, socklen_t al), (fd, buf, n, flags, a, al))

int __real_epoll_pwait(int, struct epoll_event *, int, int, const sigset_t *);
int __wrap_epoll_pwait(int epfd, struct epoll_event *evs, int maxev, int timeout, const sigset_t *ss)
{
    if (nb_watch && in_lib && timeout != 0) {
	wait_seen++;
	if (timeout < 0 || timeout > SHIM_WAIT_CAP_MS)
	    timeout = SHIM_WAIT_CAP_MS;
    }
    return __real_epoll_pwait(epfd, evs, maxev, timeout, ss);
}

int __real_pselect(int, fd_set *, fd_set *, fd_set *, const struct timespec *, const sigset_t *);
int __wrap_pselect(int n, fd_set *r, fd_set *w, fd_set *x, const struct timespec *ts, const sigset_t *ss)
{
    struct timespec cap = { 0, SHIM_WAIT_CAP_MS * 1000000L };
    if (nb_watch && in_lib && (ts == NULL || ts->tv_sec != 0 || ts->tv_nsec != 0)) {
	wait_seen++;
	if (ts == NULL || ts->tv_sec > 0 || ts->tv_nsec > cap.tv_nsec)
	    ts = &cap;
    }
    return __real_pselect(n, r, w, x, ts, ss);
}

int __real_clock_nanosleep(clockid_t, int, const struct timespec *, struct timespec *);
int __wrap_clock_nanosleep(clockid_t c, int flags, const struct timespec *req, struct timespec *rem)
{
    if (nb_watch && in_lib && req && (req->tv_sec != 0 || req->tv_nsec != 0))
	wait_seen++;
    return __real_clock_nanosleep(c, flags, req, rem);
}

int __real_getaddrinfo(const char *, const char *, const struct addrinfo *, struct addrinfo **);
int __wrap_getaddrinfo(const char *node, const char *service, const struct addrinfo *hints, struct addrinfo **res)
{
    /* the resolver of the C library waits for its answer (files, DNS) inside the call */
    if (nb_watch && in_lib && node != NULL && !(hints && (hints->ai_flags & AI_NUMERICHOST)))
	wait_seen++;
    return __real_getaddrinfo(node, service, hints, res);
}

FILE *__wrap_fopen(const char *path, const char *mode)
{
    if (rc_gate(SHIM_RC_OPEN, "fopen")) {
	ev("fopen", -1, 0, -1, errno);
	return NULL;
    }
    FILE *f = __real_fopen(path, mode);
    int e = errno;
    ev("fopen", f ? fileno(f) : -1, 0, f ? 0 : -1, f ? 0 : e);
    errno = e;
    return f;
}

int __wrap_open(const char *path, int flags, ...)
{
    mode_t mode = 0;
    if (flags & (O_CREAT | O_TMPFILE)) {
	va_list ap;
	va_start(ap, flags);
	mode = va_arg(ap, mode_t);
	va_end(ap);
    }
    if (rc_gate(SHIM_RC_OPEN, "open")) {
	ev("open", -1, 0, -1, errno);
	return -1;
    }
    int fd = __real_open(path, flags, mode);
    int e = errno;
    if (fd >= 0)
	created(fd, SK_FILE, 0);
    ev("open", fd, 0, fd, fd < 0 ? e : 0);
    errno = e;
    return fd;
}

int __wrap_unlink(const char *path)
{
    int r = __real_unlink(path);
    int e = errno;
    ev("unlink", -1, 0, r, r < 0 ? e : 0);
    errno = e;
    return r;
}

int __wrap_setsockopt(int fd, int level, int name, const void *val, socklen_t len)
{
    int r = __real_setsockopt(fd, level, name, val, len);
    int e = errno;
    ev("setsockopt", fd, ((long)level << 16) | name, r, r < 0 ? e : 0);
    errno = e;
    return r;
}

int __wrap_getsockopt(int fd, int level, int name, void *val, socklen_t *len)
{
    return __real_getsockopt(fd, level, name, val, len);
}
