/* See shim_tconn.h.  Reached through -Wl,--wrap=<sym>: only references from the
 * objects linked into the harness (libxcm's, the stub resolver's and the harness's
 * own) are redirected. */
#define _GNU_SOURCE
#include "shim_tconn.h"

#include <errno.h>
#include <fcntl.h>
#include <poll.h>
#include <signal.h>
#include <stdio.h>
#include <stdlib.h>
#include <string.h>
#include <sys/epoll.h>
#include <sys/select.h>
#include <sys/timerfd.h>
#include <netinet/in.h>
#include <time.h>
#include <unistd.h>

int __real_socket(int, int, int);
int __real_connect(int, const struct sockaddr *, socklen_t);
int __real_bind(int, const struct sockaddr *, socklen_t);
int __real_close(int);
int __real_poll(struct pollfd *, nfds_t, int);
int __real_ppoll(struct pollfd *, nfds_t, const struct timespec *, const sigset_t *);
int __real_select(int, fd_set *, fd_set *, fd_set *, struct timeval *);
int __real_epoll_wait(int, struct epoll_event *, int, int);
int __real_nanosleep(const struct timespec *, struct timespec *);
int __real_usleep(useconds_t);
unsigned __real_sleep(unsigned);
int __real_clock_gettime(clockid_t, struct timespec *);
int __real_timerfd_create(int, int);
int __real_timerfd_settime(int, int, const struct itimerspec *, struct itimerspec *);

#define MAX_FD 4096
#define MAX_MAP 128
#define LOG_MAX 4096
#define SETTLE_MS 5000
#define SPIN_LIMIT 200000

static int cur_ctx, in_lib;
static bool nb_watch;
static int wait_seen;
static long waits_total, polls_in_call;
static int hang;
static int unsettled;		/* the kernel did not show an expected event in time (environment trouble) */

static int fd_fam[MAX_FD];		/* 4 / 6 for sockets created through the wrapper */

struct map_ent { int idx, family, beh, err; unsigned char fake[16]; struct sockaddr_storage real; socklen_t real_len; };
static struct map_ent map[MAX_MAP];
static int nmap;

static struct tshim_ev evlog[LOG_MAX];
static size_t evlog_n;

/* ---- virtual clock ------------------------------------------------------------ */
static bool vt_on, vt_auto;
static struct timespec vt_base;		/* real time at enable */
static long long vt_off_ns;		/* virtual = base + off */
static int (*release_cb)(void);

struct tfd { bool used; bool armed; long long exp_ns; /* absolute virtual ns, valid if armed */ };
static struct tfd tfds[MAX_FD];

static long long ts_ns(const struct timespec *ts) { return (long long)ts->tv_sec * 1000000000LL + ts->tv_nsec; }
static long long vt_now_ns(void) { return ts_ns(&vt_base) + vt_off_ns; }

double tshim_real_now(void)
{
    struct timespec ts;
    __real_clock_gettime(CLOCK_MONOTONIC, &ts);
    return ts.tv_sec + ts.tv_nsec / 1e9;
}

int tshim_real_poll(void *fds, unsigned long n, int timeout) { return __real_poll(fds, n, timeout); }

static void fire_real(int fd)
{
    struct itimerspec its = { .it_value = { 0, 1 } };
    __real_timerfd_settime(fd, 0, &its, NULL);
    /* the expiry is asynchronous (hrtimer): wait until the descriptor really is readable */
    struct pollfd p = { .fd = fd, .events = POLLIN };
    if (__real_poll(&p, 1, SETTLE_MS) <= 0)
	unsettled++;
}

static void disarm_real(int fd)
{
    struct itimerspec its = { { 0, 0 }, { 0, 0 } };
    __real_timerfd_settime(fd, 0, &its, NULL);
}

static void fire_due(void)
{
    long long now = vt_now_ns();
    for (int fd = 0; fd < MAX_FD; fd++)
	if (tfds[fd].used && tfds[fd].armed && tfds[fd].exp_ns <= now) {
	    struct pollfd p = { .fd = fd, .events = POLLIN };
	    if (__real_poll(&p, 1, 0) <= 0)
		fire_real(fd);
	}
}

void tshim_vt_enable(bool on)
{
    if (on && !vt_on) {
	__real_clock_gettime(CLOCK_MONOTONIC, &vt_base);
	vt_off_ns = 0;
    }
    vt_on = on;
}

long tshim_vt_ms(void) { return (long)(vt_off_ns / 1000000LL); }

void tshim_vt_set_ms(long ms)
{
    long long t = (long long)ms * 1000000LL;
    if (t > vt_off_ns)
	vt_off_ns = t;
    fire_due();
}

long tshim_vt_next_ms(void)
{
    long long best = -1, now = vt_now_ns();
    for (int fd = 0; fd < MAX_FD; fd++)
	if (tfds[fd].used && tfds[fd].armed && tfds[fd].exp_ns >= now && (best < 0 || tfds[fd].exp_ns < best))
	    best = tfds[fd].exp_ns;
    if (best < 0)
	return -1;
    /* ceil to a millisecond of virtual time since enable */
    long long rel = best - ts_ns(&vt_base);
    return (long)((rel + 999999LL) / 1000000LL);
}

void tshim_auto(bool on) { vt_auto = on; }
void tshim_set_release_cb(int (*cb)(void)) { release_cb = cb; }
int tshim_hang(void) { return hang; }
int tshim_unsettled(void) { int u = unsettled; unsettled = 0; return u; }
long tshim_waits(void) { return waits_total; }

int __wrap_clock_gettime(clockid_t id, struct timespec *ts)
{
    if (!vt_on || id != CLOCK_MONOTONIC)
	return __real_clock_gettime(id, ts);
    long long n = vt_now_ns();
    ts->tv_sec = n / 1000000000LL;
    ts->tv_nsec = n % 1000000000LL;
    return 0;
}

int __wrap_timerfd_create(int clockid, int flags)
{
    int fd = __real_timerfd_create(clockid, flags);
    if (fd >= 0 && fd < MAX_FD) {
	tfds[fd].used = true;
	tfds[fd].armed = false;
    }
    return fd;
}

int __wrap_timerfd_settime(int fd, int flags, const struct itimerspec *new_value, struct itimerspec *old_value)
{
    if (!vt_on || fd < 0 || fd >= MAX_FD || !tfds[fd].used)
	return __real_timerfd_settime(fd, flags, new_value, old_value);
    long long v = ts_ns(&new_value->it_value);
    if (v == 0) {
	tfds[fd].armed = false;
	disarm_real(fd);
	return 0;
    }
    tfds[fd].armed = true;
    tfds[fd].exp_ns = (flags & TFD_TIMER_ABSTIME) ? v : vt_now_ns() + v;
    if (tfds[fd].exp_ns <= vt_now_ns())
	fire_real(fd);
    else
	disarm_real(fd);
    return 0;
}

/* ---- context / wait watch ------------------------------------------------------- */
void shim_enter(int ctx) { cur_ctx = ctx; in_lib = 1; polls_in_call = 0; }
void shim_leave(void) { in_lib = 0; cur_ctx = 0; }
int shim_ctx(void) { return in_lib ? cur_ctx : 0; }
void shim_nonblock_watch(bool on) { nb_watch = on; wait_seen = 0; }
int shim_wait_seen(void) { int w = wait_seen; wait_seen = 0; return w; }

static void saw_wait(void)
{
    if (in_lib) {
	waits_total++;
	if (nb_watch)
	    wait_seen++;
    }
}

void tshim_reset(void)
{
    nmap = 0;
    evlog_n = 0;
    hang = 0;
    wait_seen = 0;
    waits_total = 0;
}

void tshim_map_add(int idx, int family, const void *fake_addr, const struct sockaddr *real, socklen_t real_len,
		   int beh, int err)
{
    if (nmap == MAX_MAP)
	abort();
    struct map_ent *m = &map[nmap++];
    memset(m, 0, sizeof(*m));
    m->idx = idx;
    m->family = family;
    m->beh = beh;
    m->err = err;
    memcpy(m->fake, fake_addr, family == AF_INET ? 4 : 16);
    if (real != NULL) {
	memcpy(&m->real, real, real_len);
	m->real_len = real_len;
    }
}

static struct map_ent *lookup(const struct sockaddr *a)
{
    for (int i = 0; i < nmap; i++) {
	if (map[i].family != a->sa_family)
	    continue;
	if (a->sa_family == AF_INET && memcmp(&((const struct sockaddr_in *)a)->sin_addr, map[i].fake, 4) == 0)
	    return &map[i];
	if (a->sa_family == AF_INET6 && memcmp(&((const struct sockaddr_in6 *)a)->sin6_addr, map[i].fake, 16) == 0)
	    return &map[i];
    }
    return NULL;
}

static struct tshim_ev *ev(int kind, int fd, int idx, int res, int err, const struct sockaddr *a, socklen_t al)
{
    if (!in_lib || evlog_n == LOG_MAX)
	return NULL;
    struct tshim_ev *e = &evlog[evlog_n++];
    memset(e, 0, sizeof(*e));
    e->kind = kind;
    e->fd = fd;
    e->fam = fd >= 0 && fd < MAX_FD ? fd_fam[fd] : 0;
    e->idx = idx;
    e->res = res;
    e->err = err;
    if (a != NULL)
	memcpy(&e->addr, a, al < sizeof(e->addr) ? al : sizeof(e->addr));
    return e;
}

size_t tshim_log_get(const struct tshim_ev **e) { *e = evlog; return evlog_n; }
void tshim_log_clear(void) { evlog_n = 0; }

/* ---- sockets ------------------------------------------------------------------------ */
int __wrap_socket(int domain, int type, int proto)
{
    int fd = __real_socket(domain, type, proto);
    int e = errno;
    if (fd >= 0 && fd < MAX_FD)
	fd_fam[fd] = domain == AF_INET ? 4 : domain == AF_INET6 ? 6 : 0;
    ev(TE_SOCKET, fd, 0, fd < 0 ? -1 : 0, fd < 0 ? e : 0, NULL, 0);
    errno = e;
    return fd;
}

int __wrap_close(int fd)
{
    int r = __real_close(fd);
    int e = errno;
    if (fd >= 0 && fd < MAX_FD) {
	if (fd_fam[fd] != 0)
	    ev(TE_CLOSE, fd, 0, r, r < 0 ? e : 0, NULL, 0);
	fd_fam[fd] = 0;
	tfds[fd].used = false;
	tfds[fd].armed = false;
    }
    errno = e;
    return r;
}

int __wrap_bind(int fd, const struct sockaddr *a, socklen_t al)
{
    int r = __real_bind(fd, a, al);
    int e = errno;
    ev(TE_BIND, fd, 0, r, r < 0 ? e : 0, a, al);
    errno = e;
    return r;
}

int __wrap_connect(int fd, const struct sockaddr *a, socklen_t al)
{
    if (!in_lib)
	return __real_connect(fd, a, al);
    if (nb_watch) {
	int fl = fcntl(fd, F_GETFL);
	if (fl >= 0 && !(fl & O_NONBLOCK) && a->sa_family != AF_UNIX && a->sa_family != AF_UNSPEC)
	    saw_wait();
    }
    if (a->sa_family == AF_UNSPEC) {
	int r = __real_connect(fd, a, al);
	int e = errno;
	ev(TE_DISC, fd, 0, r, r < 0 ? e : 0, NULL, 0);
	errno = e;
	return r;
    }
    struct map_ent *m = (a->sa_family == AF_INET || a->sa_family == AF_INET6) ? lookup(a) : NULL;
    if (m == NULL) {
	int r = __real_connect(fd, a, al);
	int e = errno;
	ev(TE_CONNECT, fd, 0, r, r < 0 ? e : 0, a, al);
	errno = e;
	return r;
    }
    if (m->beh == TB_UNREACH) {
	/* what the kernel does when the route lookup fails: an immediate errno, the socket untouched */
	ev(TE_CONNECT, fd, m->idx, -1, m->err, a, al);
	errno = m->err;
	return -1;
    }
    int r = __real_connect(fd, (struct sockaddr *)&m->real, m->real_len);
    int e = errno;
    struct tshim_ev *le = ev(TE_CONNECT, fd, m->idx, r, r < 0 ? e : 0, a, al);
    if (r < 0 && e == EINPROGRESS && m->beh != TB_SILENT) {
	struct pollfd p = { .fd = fd, .events = POLLOUT };
	if (__real_poll(&p, 1, SETTLE_MS) <= 0 && le != NULL)
	    le->unsettled = 1;
    }
    errno = e;
    return r;
}

/* ---- waiting primitives --------------------------------------------------------------- */
int __wrap_poll(struct pollfd *fds, nfds_t n, int timeout)
{
    if (!in_lib || timeout == 0)
	return __real_poll(fds, n, timeout);
    saw_wait();
    if (++polls_in_call > SPIN_LIMIT) {
	hang = 2;
	errno = EINTR;
	return -1;
    }
    if (!vt_on || !vt_auto)
	return __real_poll(fds, n, timeout);
    /* discrete-event waiting: whatever is ready now, else the resolver's pending answer,
       else the next timer; nothing left = this wait would never end */
    long long deadline = timeout > 0 ? vt_now_ns() + (long long)timeout * 1000000LL : -1;
    for (;;) {
	int r = __real_poll(fds, n, 0);
	if (r != 0)
	    return r;
	if (release_cb != NULL && release_cb() > 0)
	    continue;
	long next = tshim_vt_next_ms();
	if (next < 0 && deadline < 0) {
	    hang = 1;
	    errno = EINTR;
	    return -1;
	}
	long long dl_ms = deadline < 0 ? -1 : (deadline - ts_ns(&vt_base)) / 1000000LL;
	if (next < 0 || (dl_ms >= 0 && dl_ms < next)) {
	    tshim_vt_set_ms((long)dl_ms + 1);
	    return __real_poll(fds, n, 0);
	}
	tshim_vt_set_ms(next + 1);
    }
}

int __wrap_ppoll(struct pollfd *fds, nfds_t n, const struct timespec *to, const sigset_t *ss)
{
    if (in_lib && (to == NULL || to->tv_sec != 0 || to->tv_nsec != 0))
	saw_wait();
    return __real_ppoll(fds, n, to, ss);
}

int __wrap_select(int n, fd_set *r, fd_set *w, fd_set *x, struct timeval *to)
{
    if (in_lib && (to == NULL || to->tv_sec != 0 || to->tv_usec != 0))
	saw_wait();
    return __real_select(n, r, w, x, to);
}

int __wrap_epoll_wait(int epfd, struct epoll_event *evs, int max, int timeout)
{
    if (in_lib && timeout != 0)
	saw_wait();
    return __real_epoll_wait(epfd, evs, max, timeout);
}

int __wrap_nanosleep(const struct timespec *req, struct timespec *rem)
{
    if (in_lib)
	saw_wait();
    return __real_nanosleep(req, rem);
}

int __wrap_usleep(useconds_t us)
{
    if (in_lib)
	saw_wait();
    return __real_usleep(us);
}

unsigned __wrap_sleep(unsigned s)
{
    if (in_lib)
	saw_wait();
    return __real_sleep(s);
}
