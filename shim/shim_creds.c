/*
 * Link-time interposition for harness/creds_exec (property C18).  Linked INSTEAD of shim.o with its own
 * --wrap list (Makefile rule of creds_exec):
 *
 *   stat lstat fopen open            accesses to credential files (paths below the scratch root): counted, and
 *                                    a scheduled callback is run IN THE MIDDLE of a context load ("after k
 *                                    files have been opened, at the next fopen / at the next access")
 *   SSL_CTX_new SSL_CTX_free         the life of the cached TLS contexts, without a source hook: every context the
 *   SSL_CTX_up_ref SSL_new           library creates gets a small id; live = created - freed
 *   ctx_store_get_ctx ctx_store_put  (seam between xcm_tp_btls.c and ctx_store.c) which context a socket was given
 *                                    and gave back; how the library resolved the four designations
 *
 * --wrap only rewrites references from the objects linked into the harness (libxcm's and the harness's own), so
 * OpenSSL's internal reference counting (an SSL object keeps its SSL_CTX alive) is not seen here: a call of
 * SSL_CTX_free by libxcm IS the release of a cache entry.
 */
#include "shim_creds.h"

#include <errno.h>
#include <fcntl.h>
#include <stdarg.h>
#include <stdio.h>
#include <stdlib.h>
#include <string.h>
#include <sys/stat.h>
#include <sys/types.h>

#include <openssl/ssl.h>

struct item;	/* libxcm/tp/tls/item.h: { enum type (0 none, 1 file, 2 value); bool sensitive; char *data; } */

int __real_stat(const char *path, struct stat *st);
int __real_lstat(const char *path, struct stat *st);
FILE *__real_fopen(const char *path, const char *mode);
int __real_open(const char *path, int flags, ...);
SSL_CTX *__real_SSL_CTX_new(const SSL_METHOD *m);
void __real_SSL_CTX_free(SSL_CTX *c);
int __real_SSL_CTX_up_ref(SSL_CTX *c);
SSL *__real_SSL_new(SSL_CTX *c);
SSL_CTX *__real_ctx_store_get_ctx(const struct item *cert, const struct item *key, const struct item *tc,
				  const struct item *crl, void *log_ref);
void __real_ctx_store_put(SSL_CTX *c);

struct sc_state sc;

/* hook H6 of the library (libxcm/core/verif.h, only with -DXCM_VERIF): the use count seen under the cache mutex.
   Optional: without the hook the symbol is absent and uc stays -1. */
extern void (*xcm_verif_cb)(const char *ev, long a, long b, long c) __attribute__((weak));

static void verif_cb(const char *ev, long a, long b, long c)
{
    (void)a;
    (void)c;
    if (strcmp(ev, "ctx_new") == 0 || strcmp(ev, "ctx_hit") == 0 || strcmp(ev, "ctx_put") == 0)
	sc.w_uc = (int)b;
}

void sc_init(void)
{
    if (&xcm_verif_cb != NULL) {
	xcm_verif_cb = verif_cb;
	sc.hooked = true;
    }
}

static char root[512];
static size_t root_len;

#define MAX_SCHED 8
static struct {
    int k, mode;
    void (*cb)(void *);
    void *arg;
    bool fired;
} sched[MAX_SCHED];
static int nsched;
static bool in_cb;

#define MAX_CTX (1 << 21)
static SSL_CTX **ctx_ptr;		/* id -> pointer (NULL once freed) */
static int ctx_next = 1, ctx_cap;
static int ctx_low = 1;			/* every id below is dead */

static void ctx_room(void)
{
    if (ctx_next >= ctx_cap) {
	int ncap = ctx_cap ? 2 * ctx_cap : 4096;
	ctx_ptr = realloc(ctx_ptr, ncap * sizeof(*ctx_ptr));
	sc.upref = realloc(sc.upref, ncap * sizeof(*sc.upref));
	if (ctx_ptr == NULL || sc.upref == NULL)
	    abort();
	memset(ctx_ptr + ctx_cap, 0, (ncap - ctx_cap) * sizeof(*ctx_ptr));
	memset(sc.upref + ctx_cap, 0, (ncap - ctx_cap) * sizeof(*sc.upref));
	ctx_cap = ncap;
    }
}

void sc_set_root(const char *prefix)
{
    snprintf(root, sizeof(root), "%s", prefix);
    root_len = strlen(root);
}

void sc_window(void)
{
    sc.w_new = sc.w_free = sc.w_get = sc.w_put = sc.w_upref = 0;
    sc.w_got = -1;
    sc.w_uc = -1;
    sc.w_got_null = 0;
    sc.w_nfreed = sc.w_nput = 0;
    sc.w_nfopen = sc.w_nstat = 0;
    sc.w_res[0] = '\0';
}

void sc_sched_clear(void)
{
    nsched = 0;
}

int sc_sched(int k, int mode, void (*cb)(void *), void *arg)
{
    if (nsched >= MAX_SCHED)
	return -1;
    sched[nsched].k = k;
    sched[nsched].mode = mode;
    sched[nsched].cb = cb;
    sched[nsched].arg = arg;
    sched[nsched].fired = false;
    nsched++;
    return 0;
}

int sc_sched_run_unfired(void)
{
    int n = 0;
    for (int i = 0; i < nsched; i++)
	if (!sched[i].fired) {
	    sched[i].fired = true;
	    in_cb = true;
	    sched[i].cb(sched[i].arg);
	    in_cb = false;
	    n++;
	}
    return n;
}

static bool watched(const char *path)
{
    return root_len > 0 && path != NULL && strncmp(path, root, root_len) == 0;
}

/* called before the real access is made */
static void access_point(bool is_open)
{
    if (in_cb || !sc.in_call)
	return;
    for (int i = 0; i < nsched; i++) {
	if (sched[i].fired || sched[i].k != sc.w_nfopen)
	    continue;
	if (sched[i].mode == SC_FOPEN && !is_open)
	    continue;
	if (sched[i].mode == SC_NEVER)
	    continue;
	sched[i].fired = true;
	in_cb = true;
	int e = errno;
	sched[i].cb(sched[i].arg);
	errno = e;
	in_cb = false;
    }
}

int __wrap_stat(const char *path, struct stat *st)
{
    if (watched(path) && !in_cb && sc.in_call) {
	access_point(false);
	sc.w_nstat++;
    }
    return __real_stat(path, st);
}

int __wrap_lstat(const char *path, struct stat *st)
{
    if (watched(path) && !in_cb && sc.in_call) {
	access_point(false);
	sc.w_nstat++;
    }
    return __real_lstat(path, st);
}

FILE *__wrap_fopen(const char *path, const char *mode)
{
    bool w = watched(path) && !in_cb && sc.in_call;
    if (w)
	access_point(true);
    FILE *f = __real_fopen(path, mode);
    if (w)
	sc.w_nfopen++;
    return f;
}

int __wrap_open(const char *path, int flags, ...)
{
    mode_t mode = 0;
    if (flags & (O_CREAT | O_TMPFILE)) {
	va_list ap;
	va_start(ap, flags);
	mode = va_arg(ap, mode_t);
	va_end(ap);
    }
    bool w = watched(path) && !in_cb && sc.in_call;
    if (w)
	access_point(true);
    int fd = __real_open(path, flags, mode);
    if (w)
	sc.w_nfopen++;
    return fd;
}

/* ---- contexts ------------------------------------------------------------------------------------------- */
static int ctx_id(SSL_CTX *c)
{
    if (c == NULL)
	return -1;
    while (ctx_low < ctx_next && ctx_ptr[ctx_low] == NULL)
	ctx_low++;
    for (int i = ctx_next - 1; i >= ctx_low; i--)
	if (ctx_ptr[i] == c)
	    return i;
    return 0;	/* a context the library did not create through SSL_CTX_new */
}

SSL_CTX *__wrap_SSL_CTX_new(const SSL_METHOD *m)
{
    SSL_CTX *c = __real_SSL_CTX_new(m);
    if (c != NULL && ctx_next < MAX_CTX) {
	ctx_room();
	ctx_ptr[ctx_next++] = c;
	sc.n_new++;
	sc.w_new++;
	sc.live++;
    }
    return c;
}

void __wrap_SSL_CTX_free(SSL_CTX *c)
{
    int id = ctx_id(c);
    if (id > 0) {
	if (sc.upref[id] > 0)
	    sc.upref[id]--;	/* a reference the library took itself */
	else {
	    ctx_ptr[id] = NULL;
	    sc.n_free++;
	    sc.w_free++;
	    sc.live--;
	    if (sc.w_nfreed < SC_MAXL)
		sc.w_freed[sc.w_nfreed++] = id;
	}
    } else if (c != NULL)
	sc.stray_free++;
    __real_SSL_CTX_free(c);
}

int __wrap_SSL_CTX_up_ref(SSL_CTX *c)
{
    int id = ctx_id(c);
    if (id > 0)
	sc.upref[id]++;
    sc.w_upref++;
    return __real_SSL_CTX_up_ref(c);
}

SSL *__wrap_SSL_new(SSL_CTX *c)
{
    sc.last_ssl_new_ctx = ctx_id(c);
    return __real_SSL_new(c);
}

struct item_view {
    int type;
    bool sensitive;
    char *data;
};

static void describe(char *out, size_t cap, const struct item *it)
{
    const struct item_view *v = (const struct item_view *)it;
    if (v == NULL || v->type == 0)
	snprintf(out, cap, "-");
    else if (v->type == 1) {
	const char *p = v->data ? v->data : "?";
	if (watched(p))
	    p += root_len;
	snprintf(out, cap, "f:%.60s", p);
    } else
	snprintf(out, cap, "v:%zu", v->data ? strlen(v->data) : (size_t)0);
}

SSL_CTX *__wrap_ctx_store_get_ctx(const struct item *cert, const struct item *key, const struct item *tc,
				  const struct item *crl, void *log_ref)
{
    char a[80], b[80], c[80], d[80];
    describe(a, sizeof(a), cert);
    describe(b, sizeof(b), key);
    describe(c, sizeof(c), tc);
    describe(d, sizeof(d), crl);
    snprintf(sc.w_res, sizeof(sc.w_res), "%s %s %s %s", a, b, c, d);
    SSL_CTX *r = __real_ctx_store_get_ctx(cert, key, tc, crl, log_ref);
    int e = errno;
    sc.w_get++;
    sc.n_get++;
    if (r == NULL) {
	sc.w_got_null++;
	sc.w_get_errno = e;
    } else
	sc.w_got = ctx_id(r);
    errno = e;
    return r;
}

void __wrap_ctx_store_put(SSL_CTX *c)
{
    int id = ctx_id(c);
    sc.w_put++;
    sc.n_put++;
    if (sc.w_nput < SC_MAXL)
	sc.w_puts[sc.w_nput++] = id;
    __real_ctx_store_put(c);
}
