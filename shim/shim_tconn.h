/* Interposition shim for harness/tconn_exec (property C13; wait-watch for C05).
 * Linked INSTEAD of shim.o (own -Wl,--wrap list in the tconn_exec link rule).
 *
 *  - connect(): fake addresses handed out by the stub resolver are mapped to real
 *    loopback targets with a scripted behaviour (accept / refuse / silent / unreach);
 *    the kernel outcome of an accept/refuse attempt is awaited inside the wrapper,
 *    so that "the result is visible right after connect() returned EINPROGRESS"
 *    holds for every later probe of the library (a delay the real call may have).
 *  - bind()/connect()/socket()/close() made inside a library call are logged.
 *  - virtual clock: clock_gettime(CLOCK_MONOTONIC) and timerfd_settime() are
 *    translated, timers fire only when the harness advances the virtual clock
 *    (or, inside a blocking wait of the library, when nothing else can happen).
 *  - waiting primitives with a non-zero time-out inside a library call are counted
 *    (same interface as shim.c: shim_enter/leave, shim_nonblock_watch, shim_wait_seen).
 */
#ifndef VERIF_SHIM_TCONN_H
#define VERIF_SHIM_TCONN_H

#include <stdbool.h>
#include <stddef.h>
#include <sys/socket.h>

void shim_enter(int ctx);
void shim_leave(void);
int shim_ctx(void);
void shim_nonblock_watch(bool on);
int shim_wait_seen(void);	/* count since last call; resets */

enum { TB_ACCEPT = 1, TB_REFUSE = 2, TB_SILENT = 3, TB_UNREACH = 4 };

void tshim_reset(void);		/* forget map, log, hang flags (virtual clock keeps running) */
void tshim_map_add(int idx, int family, const void *fake_addr,
		   const struct sockaddr *real, socklen_t real_len, int beh, int err);

enum { TE_SOCKET = 0, TE_BIND = 1, TE_CONNECT = 2, TE_DISC = 3, TE_CLOSE = 4 };
struct tshim_ev {
    int kind, fd, fam;		/* fam: family of the socket (4 / 6 / 0) */
    int idx;			/* connect: index of the mapped fake address, 0 = not in the map */
    int res, err;
    int unsettled;		/* connect: kernel outcome did not show up in time */
    struct sockaddr_storage addr;	/* address given by the library */
};
size_t tshim_log_get(const struct tshim_ev **ev);
void tshim_log_clear(void);

/* virtual time (milliseconds since tshim_vt_enable(true)) */
void tshim_vt_enable(bool on);
long tshim_vt_ms(void);
void tshim_vt_set_ms(long ms);		/* advance to an absolute virtual time; fires due timers */
long tshim_vt_next_ms(void);		/* earliest armed timerfd expiry in the future, -1 = none */
void tshim_auto(bool on);		/* blocking waits inside the library advance the clock themselves */
void tshim_set_release_cb(int (*cb)(void));	/* auto mode: called before time is advanced; returns >0 if it made something ready */
int tshim_hang(void);			/* 0, 1 = wait with nothing that could end it, 2 = busy loop */
int tshim_unsettled(void);		/* timer expiries that did not show up in time since the last call; resets */
long tshim_waits(void);			/* waiting calls (timeout != 0) inside library calls since reset */
double tshim_real_now(void);		/* real CLOCK_MONOTONIC seconds */
int tshim_real_poll(void *fds, unsigned long n, int timeout);

#endif
