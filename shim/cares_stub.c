/* See cares_stub.h.  The structures handed to the library are built exactly like
 * c-ares builds them (struct ares_addrinfo with a list of ares_addrinfo_node, each
 * with its own sockaddr) and are released by ares_freeaddrinfo() below, which is
 * the function the library calls on them. */
#define _GNU_SOURCE
#include "cares_stub.h"

#include <ares.h>
#include <arpa/inet.h>
#include <errno.h>
#include <netinet/in.h>
#include <stdint.h>
#include <stdlib.h>
#include <string.h>
#include <sys/eventfd.h>
#include <unistd.h>

#define MAX_SCRIPTS 16
#define MAX_QUERIES 8

struct script { char name[256]; struct stub_answer ans; };
static struct script scripts[MAX_SCRIPTS];
static int nscripts;
static long nqueries;
static int nchannels;

struct query {
    int used;
    char name[256];
    struct stub_answer ans;
    int released;
    int sent;			/* the query has left: the library reported the resolver's socket writable */
    ares_addrinfo_callback cb;
    void *arg;
};

struct ares_channeldata {
    int efd;			/* stands for the resolver's socket; -1 while no query is in flight */
    int wfd;			/* stands for a resolver socket with a query still to be written (as with DNS over TCP):
				   reported as "watch for writability" until ares_process_fd() is given it */
    struct query q[MAX_QUERIES];
    struct timeval tv;
};

void stub_dns_reset(void) { nscripts = 0; nqueries = 0; }

void stub_dns_script(const char *name, const struct stub_answer *a)
{
    if (nscripts == MAX_SCRIPTS)
	abort();
    struct script *s = &scripts[nscripts++];
    strncpy(s->name, name, sizeof(s->name) - 1);
    s->name[sizeof(s->name) - 1] = '\0';
    s->ans = *a;
}

long stub_dns_queries(void) { return nqueries; }
int stub_dns_channels(void) { return nchannels; }

/* all live channels: needed by stub_dns_release() */
#define MAX_CHANNELS 64
static struct ares_channeldata *channels[MAX_CHANNELS];

static struct ares_addrinfo *make_result(const char *name, const struct stub_answer *a)
{
    struct ares_addrinfo *ai = calloc(1, sizeof(*ai));
    if (ai == NULL)
	return NULL;
    ai->name = strdup(name);
    struct ares_addrinfo_node **tail = &ai->nodes;
    for (int i = 0; i < a->naddrs; i++) {
	struct ares_addrinfo_node *n = calloc(1, sizeof(*n));
	n->ai_ttl = 60;
	n->ai_family = a->addrs[i].family;
	n->ai_socktype = SOCK_STREAM;
	n->ai_protocol = IPPROTO_TCP;
	if (n->ai_family == AF_INET) {
	    struct sockaddr_in *sa = calloc(1, sizeof(*sa));
	    sa->sin_family = AF_INET;
	    memcpy(&sa->sin_addr, a->addrs[i].addr, 4);
	    n->ai_addr = (struct sockaddr *)sa;
	    n->ai_addrlen = sizeof(*sa);
	} else {
	    struct sockaddr_in6 *sa = calloc(1, sizeof(*sa));
	    sa->sin6_family = AF_INET6;
	    memcpy(&sa->sin6_addr, a->addrs[i].addr, 16);
	    n->ai_addr = (struct sockaddr *)sa;
	    n->ai_addrlen = sizeof(*sa);
	}
	*tail = n;
	tail = &n->ai_next;
    }
    return ai;
}

static void deliver(const char *name, const struct stub_answer *a, ares_addrinfo_callback cb, void *arg)
{
    if (a->status == ARES_SUCCESS && a->naddrs > 0)
	cb(arg, ARES_SUCCESS, 0, make_result(name, a));
    else
	cb(arg, a->status == ARES_SUCCESS ? ARES_ENODATA : a->status, 0, NULL);
}

int ares_library_init(int flags)
{
    (void)flags;
    return ARES_SUCCESS;
}

int ares_init_options(ares_channel *channelptr, struct ares_options *options, int optmask)
{
    (void)options;
    (void)optmask;
    struct ares_channeldata *c = calloc(1, sizeof(*c));
    if (c == NULL)
	return ARES_ENOMEM;
    c->efd = c->wfd = -1;
    for (int i = 0; i < MAX_CHANNELS; i++)
	if (channels[i] == NULL) {
	    channels[i] = c;
	    break;
	}
    nchannels++;
    *channelptr = c;
    return ARES_SUCCESS;
}

static int in_flight(struct ares_channeldata *c)
{
    int n = 0;
    for (int i = 0; i < MAX_QUERIES; i++)
	n += c->q[i].used;
    return n;
}

void ares_getaddrinfo(ares_channel channel, const char *node, const char *service,
		      const struct ares_addrinfo_hints *hints, ares_addrinfo_callback callback, void *arg)
{
    (void)service;
    (void)hints;
    nqueries++;
    const struct stub_answer *a = NULL;
    for (int i = 0; i < nscripts; i++)
	if (strcasecmp(scripts[i].name, node) == 0)
	    a = &scripts[i].ans;
    if (a == NULL) {
	callback(arg, ARES_ENOTFOUND, 0, NULL);
	return;
    }
    if (a->when == STUB_SYNC) {
	deliver(node, a, callback, arg);
	return;
    }
    for (int i = 0; i < MAX_QUERIES; i++)
	if (!channel->q[i].used) {
	    struct query *q = &channel->q[i];
	    memset(q, 0, sizeof(*q));
	    q->used = 1;
	    strncpy(q->name, node, sizeof(q->name) - 1);
	    q->ans = *a;
	    q->cb = callback;
	    q->arg = arg;
	    if (channel->efd < 0)
		channel->efd = eventfd(0, EFD_NONBLOCK | EFD_CLOEXEC);
	    if (channel->wfd < 0)
		channel->wfd = eventfd(0, EFD_NONBLOCK | EFD_CLOEXEC);	/* counter 0: always writable, never readable */
	    return;
	}
    callback(arg, ARES_ENOMEM, 0, NULL);
}

int stub_dns_release(const char *name)
{
    int n = 0;
    for (int k = 0; k < MAX_CHANNELS; k++) {
	struct ares_channeldata *c = channels[k];
	if (c == NULL)
	    continue;
	for (int i = 0; i < MAX_QUERIES; i++) {
	    struct query *q = &c->q[i];
	    if (q->used && !q->released && q->ans.when == STUB_LATER &&
		(name == NULL || strcasecmp(name, q->name) == 0)) {
		q->released = 1;
		uint64_t one = 1;
		if (write(c->efd, &one, sizeof(one)) < 0)
		    abort();
		n++;
	    }
	}
    }
    return n;
}

int stub_dns_waiting(void)
{
    int n = 0;
    for (int k = 0; k < MAX_CHANNELS; k++)
	if (channels[k] != NULL)
	    for (int i = 0; i < MAX_QUERIES; i++) {
		struct query *q = &channels[k]->q[i];
		n += q->used && !q->released && q->ans.when == STUB_LATER;
	    }
    return n;
}

int ares_getsock(ares_channel channel, ares_socket_t *socks, int numsocks)
{
    if (numsocks < 1 || in_flight(channel) == 0 || channel->efd < 0)
	return 0;
    socks[0] = channel->efd;
    int mask = ARES_GETSOCK_READABLE(~0, 0);	/* bit 0: socket 0 is to be watched for reading */
    int unsent = 0;
    for (int i = 0; i < MAX_QUERIES; i++)
	unsent += channel->q[i].used && !channel->q[i].sent;
    if (unsent && numsocks >= 2 && channel->wfd >= 0) {
	socks[1] = channel->wfd;
	mask |= ARES_GETSOCK_WRITABLE(~0, 1);	/* bit 16 + 1: socket 1 is to be watched for writing */
    }
    return mask;
}

struct timeval *ares_timeout(ares_channel channel, struct timeval *maxtv, struct timeval *tv)
{
    (void)channel;
    (void)tv;
    /* no retransmission timers in the stub: only the caller's own limit applies */
    return maxtv;
}

void ares_process_fd(ares_channel channel, ares_socket_t read_fd, ares_socket_t write_fd)
{
    if (write_fd != ARES_SOCKET_BAD && write_fd == channel->wfd) {
	/* the queries leave; an answer released meanwhile is announced (again) on the reading socket */
	for (int i = 0; i < MAX_QUERIES; i++) {
	    struct query *q = &channel->q[i];
	    if (q->used && !q->sent) {
		q->sent = 1;
		if (q->released) {
		    uint64_t one = 1;
		    if (write(channel->efd, &one, sizeof(one)) < 0)
			abort();
		}
	    }
	}
    }
    if (read_fd == ARES_SOCKET_BAD || read_fd != channel->efd)
	return;
    uint64_t v;
    if (read(channel->efd, &v, sizeof(v)) < 0)
	return;			/* nothing arrived */
    for (int i = 0; i < MAX_QUERIES; i++) {
	struct query *q = &channel->q[i];
	if (q->used && q->released && q->sent) {
	    struct query copy = *q;
	    q->used = 0;
	    deliver(copy.name, &copy.ans, copy.cb, copy.arg);
	}
    }
    if (in_flight(channel) == 0 && channel->efd >= 0) {
	close(channel->efd);
	channel->efd = -1;
	if (channel->wfd >= 0)
	    close(channel->wfd);
	channel->wfd = -1;
    }
}

void ares_process(ares_channel channel, fd_set *read_fds, fd_set *write_fds)
{
    /* called by the library with NULL sets "to process timeouts": the stub has none */
    (void)channel;
    (void)read_fds;
    (void)write_fds;
}

void ares_destroy(ares_channel channel)
{
    if (channel == NULL)
	return;
    /* like c-ares: outstanding queries end with ARES_EDESTRUCTION */
    for (int i = 0; i < MAX_QUERIES; i++) {
	struct query *q = &channel->q[i];
	if (q->used) {
	    q->used = 0;
	    q->cb(q->arg, ARES_EDESTRUCTION, 0, NULL);
	}
    }
    if (channel->efd >= 0)
	close(channel->efd);
    if (channel->wfd >= 0)
	close(channel->wfd);
    for (int i = 0; i < MAX_CHANNELS; i++)
	if (channels[i] == channel)
	    channels[i] = NULL;
    nchannels--;
    free(channel);
}

void ares_freeaddrinfo(struct ares_addrinfo *ai)
{
    if (ai == NULL)
	return;
    struct ares_addrinfo_node *n = ai->nodes;
    while (n != NULL) {
	struct ares_addrinfo_node *next = n->ai_next;
	free(n->ai_addr);
	free(n);
	n = next;
    }
    struct ares_addrinfo_cname *c = ai->cnames;
    while (c != NULL) {
	struct ares_addrinfo_cname *next = c->next;
	free(c->alias);
	free(c->name);
	free(c);
	c = next;
    }
    free(ai->name);
    free(ai);
}

const char *ares_strerror(int code)
{
    switch (code) {
    case ARES_SUCCESS: return "Successful completion";
    case ARES_ENODATA: return "DNS server returned answer with no data";
    case ARES_ESERVFAIL: return "DNS server returned general failure";
    case ARES_ENOTFOUND: return "Domain name not found";
    case ARES_ETIMEOUT: return "Timeout while contacting DNS servers";
    case ARES_ECONNREFUSED: return "Could not contact DNS servers";
    case ARES_EDESTRUCTION: return "Channel is being destroyed";
    default: return "unknown (stub)";
    }
}
