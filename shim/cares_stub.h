/* Scripted stand-in for c-ares (linked instead of -lcares into harness/tconn_exec).
 * Implements exactly the ares_* entry points libxcm/tp/dns/xcm_dns_cares.c uses. */
#ifndef VERIF_CARES_STUB_H
#define VERIF_CARES_STUB_H

#define STUB_MAX_ADDRS 40

enum { STUB_SYNC = 0,	/* the callback runs inside ares_getaddrinfo() */
       STUB_LATER = 1,	/* the answer arrives when stub_dns_release() is called: the descriptor handed out by
			   ares_getsock() becomes readable and the callback runs in ares_process_fd() */
       STUB_NEVER = 2 };/* no answer at all */

struct stub_addr { int family; unsigned char addr[16]; };
struct stub_answer {
    int when;
    int status;		/* ARES_SUCCESS or an ARES_E* failure */
    int naddrs;
    struct stub_addr addrs[STUB_MAX_ADDRS];
};

void stub_dns_reset(void);					/* forget all scripts */
void stub_dns_script(const char *name, const struct stub_answer *a);	/* copied */
int stub_dns_release(const char *name);				/* name or NULL = every waiting query; returns how many */
int stub_dns_waiting(void);					/* queries with a LATER answer not yet released */
long stub_dns_queries(void);					/* ares_getaddrinfo() calls since reset */
int stub_dns_channels(void);					/* channels alive (leak check) */

#endif
