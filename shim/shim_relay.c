/*
 * C20: link-time seam for the second relay binary (build/<variant>/bin/xcmrelay_sb).
 * The only thing it does is to give the relay's TCP sockets the kernel buffer sizes named in the
 * environment (C20_SNDBUF / C20_RCVBUF, bytes; SO_SNDBUF / SO_RCVBUF set right after socket(2), which
 * also covers accepted sockets: they inherit from the listener).  A host with small tcp_wmem / tcp_rmem
 * behaves the same way, so nothing here is a behaviour the real lower layer cannot produce; the point is
 * that with small buffers every large message is written in pieces, i.e. the relay's own lower-layer
 * traffic is fragmented and its legs fill up after a few messages.
 */
#include <stdlib.h>
#include <sys/socket.h>
#include <sys/types.h>
#include <netinet/in.h>

int __real_socket(int domain, int type, int protocol);

int __wrap_socket(int domain, int type, int protocol)
{
    int fd = __real_socket(domain, type, protocol);
    if (fd >= 0 && (domain == AF_INET || domain == AF_INET6) && (type & 0xf) == SOCK_STREAM) {
	const char *s = getenv("C20_SNDBUF");
	const char *r = getenv("C20_RCVBUF");
	if (s != NULL && atoi(s) > 0) {
	    int v = atoi(s);
	    setsockopt(fd, SOL_SOCKET, SO_SNDBUF, &v, sizeof(v));
	}
	if (r != NULL && atoi(r) > 0) {
	    int v = atoi(r);
	    setsockopt(fd, SOL_SOCKET, SO_RCVBUF, &v, sizeof(v));
	}
    }
    return fd;
}
