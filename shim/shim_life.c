/* See shim_life.h.  Reached through -Wl,--wrap=<sym>: only references from the
 * objects linked into the harness (libxcm's and the harness's own) are
 * redirected; libssl, libcrypto, libcares, libc and the sanitizer run-time keep
 * calling the real functions. */
#include "shim_life.h"

#include <errno.h>
#include <fcntl.h>
#include <stdarg.h>
#include <stdio.h>
#include <stdlib.h>
#include <string.h>
#include <sys/epoll.h>
#include <sys/eventfd.h>
#include <sys/socket.h>
#include <sys/timerfd.h>
#include <sys/un.h>
#include <unistd.h>

ssize_t __real_send(int, const void *, size_t, int);
ssize_t __real_recv(int, void *, size_t, int);
int __real_connect(int, const struct sockaddr *, socklen_t);
int __real_accept4(int, struct sockaddr *, socklen_t *, int);
int __real_socket(int, int, int);
int __real_close(int);
int __real_bind(int, const struct sockaddr *, socklen_t);
int __real_listen(int, int);
int __real_epoll_create1(int);
int __real_epoll_ctl(int, int, int, struct epoll_event *);
int __real_eventfd(unsigned, int);
int __real_timerfd_create(int, int);
int __real_timerfd_settime(int, int, const struct itimerspec *, struct itimerspec *);
FILE *__real_fopen(const char *, const char *);
size_t __real_fread(void *, size_t, size_t, FILE *);
int __real_fclose(FILE *);
int __real_open(const char *, int, ...);
int __real_unlink(const char *);
int __real_setsockopt(int, int, int, const void *, socklen_t);
int __real_getsockopt(int, int, int, void *, socklen_t *);
int __real_shutdown(int, int);
int __real_dup(int);
int __real_dup2(int, int);
int __real_fcntl(int, int, ...);

#define LOG_MAX (1 << 17)
static struct ls_ev evlog[LOG_MAX];
static size_t evlog_n;
static int overflow;

#define PATH_MAX_N 4096
#define PATH_LEN 200
static char paths[PATH_MAX_N][PATH_LEN];
static int npaths;

static int in_lib;
static int plan_nth[2], plan_err[2], plan_done[2];
static int rc_count;
static bool decoy_on;
#define FD_MAX 65536
static unsigned char is_decoy[FD_MAX];
static unsigned char by_harness[FD_MAX];	/* open descriptors created outside library calls */

static void mark(long fd)
{
    if (!in_lib && fd >= 0 && fd < FD_MAX)
	by_harness[fd] = 1;
}

int ls_is_harness(int fd) { return fd >= 0 && fd < FD_MAX && by_harness[fd]; }

static int path_id(const char *p)
{
    if (p == NULL)
	return -1;
    for (int i = 0; i < npaths; i++)
	if (strncmp(paths[i], p, PATH_LEN - 1) == 0)
	    return i;
    if (npaths == PATH_MAX_N)
	return -1;
    snprintf(paths[npaths], PATH_LEN, "%s", p);
    return npaths++;
}

const char *ls_path(int idx)
{
    return idx >= 0 && idx < npaths ? paths[idx] : "";
}

static struct ls_ev *ev(const char *call, int fd, int fd2, long a, long res, int err, int cls, int inj, int path)
{
    if (evlog_n == LOG_MAX) {
	overflow = 1;
	return &evlog[LOG_MAX - 1];
    }
    evlog[evlog_n] = (struct ls_ev){ call, in_lib, fd, fd2, a, res, err, cls, inj, path };
    return &evlog[evlog_n++];
}

void ls_note(const char *call, int fd, long a, long res, int err)
{
    if (strcmp(call, "hopen") == 0 && fd >= 0 && fd < FD_MAX)
	by_harness[fd] = 1;
    if (strcmp(call, "close") == 0 && fd >= 0 && fd < FD_MAX)
	by_harness[fd] = 0;
    ev(call, fd, -1, a, res, err, 0, 0, -1);
}

void ls_reset(void)
{
    evlog_n = 0;
    overflow = 0;
    npaths = 0;
    in_lib = 0;
    plan_nth[0] = plan_nth[1] = 0;
    plan_done[0] = plan_done[1] = 0;
    rc_count = 0;
    decoy_on = false;
    memset(is_decoy, 0, sizeof(is_decoy));
    memset(by_harness, 0, sizeof(by_harness));
}

void ls_enter(void) { in_lib = 1; }
void ls_leave(void) { in_lib = 0; }
int ls_inlib(void) { return in_lib; }

void ls_plan(int slot, int nth, int err)
{
    plan_nth[slot] = nth;
    plan_err[slot] = err;
    if (nth != 0)
	plan_done[slot] = 0;
}

int ls_count(void) { return rc_count; }
int ls_delivered(int slot) { return plan_done[slot]; }
void ls_decoy(bool on) { decoy_on = on; }

int ls_decoys(int *fds, int max)
{
    int n = 0;
    for (int fd = 0; fd < FD_MAX && n < max; fd++)
	if (is_decoy[fd])
	    fds[n++] = fd;
    return n;
}

void ls_close_decoys(void)
{
    for (int fd = 0; fd < FD_MAX; fd++)
	if (is_decoy[fd]) {
	    is_decoy[fd] = 0;
	    int r = __real_close(fd);
	    ev("close", fd, -1, 0, r, r < 0 ? errno : 0, 0, 0, -1)->inlib = 0;
	}
}

size_t ls_log(const struct ls_ev **e)
{
    *e = evlog;
    return overflow ? (size_t)-1 : evlog_n;
}

void ls_log_drop(void) { evlog_n = 0; }

int ls_real_close(int fd) { return __real_close(fd); }
int ls_real_socket(int d, int t, int p) { return __real_socket(d, t, p); }

/* 0: call the real function; otherwise the errno to report */
static int gate(int cls)
{
    if (!in_lib)
	return 0;
    rc_count++;
    for (int s = 0; s < 2; s++)
	if (plan_nth[s] > 0 && rc_count == plan_nth[s]) {
	    plan_done[s] = 1;
	    return plan_err[s];
	}
    return 0;
}

/* ---- creation ------------------------------------------------------------ */

int __wrap_socket(int domain, int type, int proto)
{
    int inj = gate(LC_SOCKET);
    long a = ((long)domain << 8) | (type & 0xff);
    if (inj) {
	ev("socket", -1, -1, a, -1, inj, LC_SOCKET, 1, -1);
	errno = inj;
	return -1;
    }
    int fd = __real_socket(domain, type, proto);
    int e = errno;
    mark(fd);
    ev("socket", -1, -1, a, fd, fd < 0 ? e : 0, in_lib ? LC_SOCKET : 0, 0, -1);
    errno = e;
    return fd;
}

int __wrap_accept4(int sfd, struct sockaddr *a, socklen_t *al, int flags)
{
    int inj = gate(LC_ACCEPT);
    if (inj) {
	ev("accept4", sfd, -1, 0, -1, inj, LC_ACCEPT, 1, -1);
	errno = inj;
	return -1;
    }
    int fd = __real_accept4(sfd, a, al, flags);
    int e = errno;
    mark(fd);
    ev("accept4", sfd, -1, 0, fd, fd < 0 ? e : 0, in_lib ? LC_ACCEPT : 0, 0, -1);
    errno = e;
    return fd;
}

int __wrap_epoll_create1(int flags)
{
    int inj = gate(LC_EPOLL);
    if (inj) {
	ev("epoll_create1", -1, -1, 0, -1, inj, LC_EPOLL, 1, -1);
	errno = inj;
	return -1;
    }
    int fd = __real_epoll_create1(flags);
    int e = errno;
    mark(fd);
    ev("epoll_create1", -1, -1, 0, fd, fd < 0 ? e : 0, in_lib ? LC_EPOLL : 0, 0, -1);
    errno = e;
    return fd;
}

int __wrap_eventfd(unsigned initval, int flags)
{
    int inj = gate(LC_EVENTFD);
    if (inj) {
	ev("eventfd", -1, -1, 0, -1, inj, LC_EVENTFD, 1, -1);
	errno = inj;
	return -1;
    }
    int fd = __real_eventfd(initval, flags);
    int e = errno;
    mark(fd);
    ev("eventfd", -1, -1, 0, fd, fd < 0 ? e : 0, in_lib ? LC_EVENTFD : 0, 0, -1);
    errno = e;
    return fd;
}

int __wrap_timerfd_create(int clockid, int flags)
{
    int inj = gate(LC_TIMERFD);
    if (inj) {
	ev("timerfd_create", -1, -1, 0, -1, inj, LC_TIMERFD, 1, -1);
	errno = inj;
	return -1;
    }
    int fd = __real_timerfd_create(clockid, flags);
    int e = errno;
    mark(fd);
    ev("timerfd_create", -1, -1, 0, fd, fd < 0 ? e : 0, in_lib ? LC_TIMERFD : 0, 0, -1);
    errno = e;
    return fd;
}

FILE *__wrap_fopen(const char *path, const char *mode)
{
    int inj = gate(LC_OPEN);
    int pi = path_id(path);
    if (inj) {
	ev("open", -1, -1, 0, -1, inj, LC_OPEN, 1, pi);
	errno = inj;
	return NULL;
    }
    FILE *f = __real_fopen(path, mode);
    int e = errno;
    mark(f ? fileno(f) : -1);
    ev("open", -1, -1, 0, f ? fileno(f) : -1, f ? 0 : e, in_lib ? LC_OPEN : 0, 0, pi);
    errno = e;
    return f;
}

/* a stream that opened but cannot be read: the descriptor underneath is replaced by one of a directory, so that the
   read(2) made by the real fread() fails (EISDIR) and the stream's error indicator is set, as for any read error */
size_t __wrap_fread(void *p, size_t sz, size_t n, FILE *f)
{
    int inj = f ? gate(LC_READ) : 0;
    if (inj) {
	int d = __real_open("/", O_RDONLY | O_DIRECTORY | O_CLOEXEC);
	if (d >= 0) {
	    __real_dup2(d, fileno(f));
	    __real_close(d);
	}
    }
    size_t r = __real_fread(p, sz, n, f);
    int e = errno;
    if (in_lib)
	ev("fread", f ? fileno(f) : -1, -1, 0, inj ? -1 : (long)r, inj ? EISDIR : 0, LC_READ, inj ? 1 : 0, -1);
    errno = e;
    return r;
}

int __wrap_fclose(FILE *f)
{
    int fd = f ? fileno(f) : -1;
    int r = __real_fclose(f);
    int e = errno;
    /* the descriptor is gone whatever fclose() says */
    ev("close", fd, -1, 1, 0, 0, 0, 0, -1);
    if (fd >= 0 && fd < FD_MAX)
	by_harness[fd] = 0;
    errno = e;
    return r;
}

int __wrap_open(const char *path, int flags, ...)
{
    mode_t mode = 0;
    if (flags & (O_CREAT | O_TMPFILE)) {
	va_list ap;
	va_start(ap, flags);
	mode = va_arg(ap, mode_t);
	va_end(ap);
    }
    int inj = gate(LC_OPEN);
    int pi = path_id(path);
    if (inj) {
	ev("open", -1, -1, 0, -1, inj, LC_OPEN, 1, pi);
	errno = inj;
	return -1;
    }
    int fd = __real_open(path, flags, mode);
    int e = errno;
    mark(fd);
    ev("open", -1, -1, 0, fd, fd < 0 ? e : 0, in_lib ? LC_OPEN : 0, 0, pi);
    errno = e;
    return fd;
}

int __wrap_dup(int fd)
{
    int r = __real_dup(fd);
    int e = errno;
    mark(r);
    ev("dup", fd, -1, 0, r, r < 0 ? e : 0, 0, 0, -1);
    errno = e;
    return r;
}

int __wrap_dup2(int fd, int fd2)
{
    int r = __real_dup2(fd, fd2);
    int e = errno;
    ev("dup2", fd, fd2, 0, r, r < 0 ? e : 0, 0, 0, -1);
    errno = e;
    return r;
}

/* ---- use ------------------------------------------------------------------ */

int __wrap_connect(int fd, const struct sockaddr *a, socklen_t al)
{
    /* connect(AF_UNSPEC) dissolves an association; it is not an attempt */
    int unspec = a != NULL && a->sa_family == AF_UNSPEC;
    int inj = unspec ? 0 : gate(LC_CONNECT);
    if (inj) {
	ev("connect", fd, -1, 0, -1, inj, LC_CONNECT, 1, -1);
	errno = inj;
	return -1;
    }
    int r = __real_connect(fd, a, al);
    int e = errno;
    ev("connect", fd, -1, unspec, r, r < 0 ? e : 0, in_lib && !unspec ? LC_CONNECT : 0, 0, -1);
    errno = e;
    return r;
}

static int bind_path(const struct sockaddr *a, socklen_t al)
{
    if (a == NULL || a->sa_family != AF_UNIX)
	return -1;
    const struct sockaddr_un *u = (const struct sockaddr_un *)a;
    char b[PATH_LEN];
    size_t off = offsetof(struct sockaddr_un, sun_path);
    if (al <= off)
	return -1;
    if (u->sun_path[0] == '\0') {
	size_t n = al - off - 1;
	if (n > PATH_LEN - 2)
	    n = PATH_LEN - 2;
	b[0] = '@';
	memcpy(b + 1, u->sun_path + 1, n);
	b[1 + n] = '\0';
	for (size_t i = 1; i < 1 + n; i++)
	    if (b[i] == '\0')
		b[i] = '?';
    } else
	snprintf(b, sizeof(b), "%.*s", (int)sizeof(u->sun_path), u->sun_path);
    return path_id(b);
}

int __wrap_bind(int fd, const struct sockaddr *a, socklen_t al)
{
    int inj = gate(LC_BIND);
    int pi = bind_path(a, al);
    if (inj) {
	ev("bind", fd, -1, 0, -1, inj, LC_BIND, 1, pi);
	errno = inj;
	return -1;
    }
    int r = __real_bind(fd, a, al);
    int e = errno;
    ev("bind", fd, -1, 0, r, r < 0 ? e : 0, in_lib ? LC_BIND : 0, 0, pi);
    errno = e;
    return r;
}

int __wrap_listen(int fd, int backlog)
{
    int inj = gate(LC_LISTEN);
    if (inj) {
	ev("listen", fd, -1, backlog, -1, inj, LC_LISTEN, 1, -1);
	errno = inj;
	return -1;
    }
    int r = __real_listen(fd, backlog);
    int e = errno;
    ev("listen", fd, -1, backlog, r, r < 0 ? e : 0, in_lib ? LC_LISTEN : 0, 0, -1);
    errno = e;
    return r;
}

int __wrap_epoll_ctl(int epfd, int op, int fd, struct epoll_event *event)
{
    int r = __real_epoll_ctl(epfd, op, fd, event);
    int e = errno;
    ev("epoll_ctl", epfd, fd, op == EPOLL_CTL_ADD ? 1 : op == EPOLL_CTL_DEL ? 2 : 3, r, r < 0 ? e : 0, 0, 0, -1);
    errno = e;
    return r;
}

int __wrap_timerfd_settime(int fd, int flags, const struct itimerspec *n, struct itimerspec *o)
{
    int r = __real_timerfd_settime(fd, flags, n, o);
    int e = errno;
    ev("timerfd_settime", fd, -1, 0, r, r < 0 ? e : 0, 0, 0, -1);
    errno = e;
    return r;
}

int __wrap_setsockopt(int fd, int level, int name, const void *val, socklen_t len)
{
    int inj = gate(LC_SOCKOPT);
    long a = ((long)level << 16) | name;
    if (inj) {
	ev("setsockopt", fd, -1, a, -1, inj, LC_SOCKOPT, 1, -1);
	errno = inj;
	return -1;
    }
    int r = __real_setsockopt(fd, level, name, val, len);
    int e = errno;
    ev("setsockopt", fd, -1, a, r, r < 0 ? e : 0, in_lib ? LC_SOCKOPT : 0, 0, -1);
    errno = e;
    return r;
}

int __wrap_getsockopt(int fd, int level, int name, void *val, socklen_t *len)
{
    if (level == SOL_SOCKET && name == SO_ERROR && in_lib) {
	int inj = gate(LC_SOERR);
	int r = __real_getsockopt(fd, level, name, val, len);
	int e = errno;
	if (inj && r == 0 && val != NULL && len != NULL && *len >= sizeof(int)) {
	    *(int *)val = inj;
	    ev("so_error", fd, -1, 0, 0, inj, LC_SOERR, 1, -1);
	} else
	    ev("so_error", fd, -1, 0, r, r < 0 ? e : (val ? *(int *)val : 0), LC_SOERR, 0, -1);
	errno = e;
	return r;
    }
    return __real_getsockopt(fd, level, name, val, len);
}

ssize_t __wrap_send(int fd, const void *buf, size_t len, int flags)
{
    ssize_t r = __real_send(fd, buf, len, flags);
    int e = errno;
    ev("send", fd, -1, (long)len, r, r < 0 ? e : 0, 0, 0, -1);
    errno = e;
    return r;
}

ssize_t __wrap_recv(int fd, void *buf, size_t len, int flags)
{
    ssize_t r = __real_recv(fd, buf, len, flags);
    int e = errno;
    ev("recv", fd, -1, (long)len, r, r < 0 ? e : 0, 0, 0, -1);
    errno = e;
    return r;
}

int __wrap_shutdown(int fd, int how)
{
    int r = __real_shutdown(fd, how);
    int e = errno;
    ev("shutdown", fd, -1, how, r, r < 0 ? e : 0, 0, 0, -1);
    errno = e;
    return r;
}

int __wrap_fcntl(int fd, int cmd, ...)
{
    va_list ap;
    va_start(ap, cmd);
    long arg = va_arg(ap, long);
    va_end(ap);
    int r = __real_fcntl(fd, cmd, arg);
    int e = errno;
    if (cmd == F_SETFL || cmd == F_SETFD || cmd == F_DUPFD || cmd == F_DUPFD_CLOEXEC)
	ev(cmd == F_SETFL || cmd == F_SETFD ? "fcntl_set" : "dup", fd, -1, cmd, r, r < 0 ? e : 0, 0, 0, -1);
    errno = e;
    return r;
}

/* ---- release -------------------------------------------------------------- */

int __wrap_close(int fd)
{
    int r = __real_close(fd);
    int e = errno;
    ev("close", fd, -1, 0, r, r < 0 ? e : 0, 0, 0, -1);
    if (r == 0 && fd >= 0 && fd < FD_MAX) {
	by_harness[fd] = 0;
	if (is_decoy[fd])	/* the library closed a descriptor of the application */
	    is_decoy[fd] = 0;
	if (decoy_on && in_lib) {
	    int d = __real_eventfd(0, EFD_NONBLOCK);
	    if (d == fd) {
		is_decoy[d] = 1;
		ev("decoy", -1, -1, 0, d, 0, 0, 0, -1)->inlib = 0;
	    } else if (d >= 0)
		__real_close(d);
	}
    }
    errno = e;
    return r;
}

int __wrap_unlink(const char *path)
{
    int r = __real_unlink(path);
    int e = errno;
    ev("unlink", -1, -1, 0, r, r < 0 ? e : 0, 0, 0, path_id(path));
    errno = e;
    return r;
}
