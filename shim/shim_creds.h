/* control interface of shim/shim_creds.c (harness/creds_exec only) */
#ifndef SHIM_CREDS_H
#define SHIM_CREDS_H

#include <stdbool.h>

#define SC_ANY 0	/* fire at the next access (stat, lstat, fopen, open) of a credential file */
#define SC_FOPEN 1	/* fire at the next fopen/open of a credential file */
#define SC_NEVER 2	/* no access follows: run by sc_sched_run_unfired() after the call */
#define SC_MAXL 16

struct sc_state {
    bool in_call;		/* a library call that may load credentials is in progress */
    /* totals */
    int n_new, n_free, n_get, n_put, live, stray_free;
    int *upref;
    int last_ssl_new_ctx;
    /* the current window (one API call) */
    int w_new, w_free, w_get, w_put, w_upref;
    bool hooked;		/* the library's verification hook is present and installed */
    int w_uc;			/* use count reported by the hook during this window (-1: none) */
    int w_got;			/* id of the context ctx_store_get_ctx returned (-1: none) */
    int w_got_null, w_get_errno;
    int w_freed[SC_MAXL], w_nfreed;
    int w_puts[SC_MAXL], w_nput;
    int w_nfopen, w_nstat;
    char w_res[400];		/* how the library resolved the four designations (diagnostics) */
};

extern struct sc_state sc;

void sc_init(void);
void sc_set_root(const char *prefix);
void sc_window(void);
void sc_sched_clear(void);
int sc_sched(int k, int mode, void (*cb)(void *), void *arg);
int sc_sched_run_unfired(void);

#endif
