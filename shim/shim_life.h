/* Interposition shim of the C08 (life cycle) harness: link-time --wrap of every
 * libc call through which libxcm creates, alters or releases a kernel resource.
 * It records every such call (program order), can make the n-th "failable" call
 * made from inside the library fail with a chosen errno, and - in decoy mode -
 * lets a descriptor of the application take the number of every descriptor the
 * library closes (what another thread of a real program may do at any time), so
 * that a second close or a late epoll_ctl/setsockopt hits a foreign descriptor.
 * Used instead of shim/shim.c (own --wrap list in the life_exec link rule). */
#ifndef VERIF_SHIM_LIFE_H
#define VERIF_SHIM_LIFE_H

#include <stddef.h>
#include <stdbool.h>
#include <sys/types.h>

/* classes of failable calls */
#define LC_SOCKET   1
#define LC_ACCEPT   2
#define LC_EPOLL    4
#define LC_EVENTFD  8
#define LC_TIMERFD  16
#define LC_CONNECT  32
#define LC_BIND     64
#define LC_LISTEN   128
#define LC_OPEN     256
#define LC_SOCKOPT  512	/* setsockopt */
#define LC_SOERR    1024	/* getsockopt(SO_ERROR): outcome of a non-blocking connect */
#define LC_READ     2048	/* fread of a file the library opened (credentials) */
#define LC_NCLASS   12

struct ls_ev {
    const char *call;
    int inlib;		/* made while a library call was in progress */
    int fd, fd2;
    long a;
    long res;
    int err;
    int cls;		/* class bit if the call was counted as failable, else 0 */
    int inj;		/* 1: the result was injected */
    int path;		/* index into the path table, -1 = none */
};

void ls_reset(void);			/* forget log, plans, counters, paths (descriptors stay) */
void ls_enter(void);			/* a library call begins */
void ls_leave(void);
int ls_inlib(void);
void ls_plan(int slot, int nth, int err);	/* slot 0|1: fail the nth (1-based) failable call; nth 0 = off */
int ls_count(void);			/* failable calls made from inside the library so far */
int ls_delivered(int slot);		/* 1 if the planned failure was delivered */
void ls_decoy(bool on);
int ls_decoys(int *fds, int max);	/* open decoy descriptors */
void ls_close_decoys(void);		/* logs a close (inlib 0) for each */
size_t ls_log(const struct ls_ev **ev);
void ls_log_drop(void);			/* empty the log, keep everything else */
const char *ls_path(int idx);
void ls_note(const char *call, int fd, long a, long res, int err);	/* harness-made entry */

int ls_is_harness(int fd);		/* created outside library calls and still open */
int ls_real_close(int fd);
int ls_real_socket(int d, int t, int p);

#endif
